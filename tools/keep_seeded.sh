#!/bin/sh
# confirm a sub-agent's change, run the given checks against it, and store it under /verif/seeded/<name>/
#   usage: keep_seeded.sh <name> <srcdir> <property> <check ids…>
set -u
NAME=$1; SRC=$2; PROP=$3; shift 3
CONF=$(/verif/tools/confirm_mut.sh $NAME $SRC) || { echo "NOT CONFIRMED: $CONF"; exit 1; }
echo "confirmed: $CONF"
RES=$(/verif/tools/run_seeded.sh $SRC/patch.diff "$@")
echo "$RES"
D=/verif/seeded/$NAME; mkdir -p $D
cp $SRC/patch.diff $D/; cp $SRC/demo_*.rs $D/
python3 - "$NAME" "$SRC" "$PROP" "$CONF" "$RES" <<'PY'
import json,sys
name,src,prop,conf,res=sys.argv[1:6]
try: m=json.load(open(src+'/meta.json'))
except Exception: m={}
out={"name":name,"property":prop,"summary":m.get("summary",""),"needs":m.get("needs",""),
 "why_tests_pass":m.get("why_tests_pass",""),
 "confirmed_by_me":conf,
 "what_i_ran":["tools/confirm_mut.sh (scratch worktree: 55 tests with the change, demonstration with / without it)",
               "tools/run_seeded.sh patch.diff "+" ".join(l.split(':')[0] for l in res.splitlines())],
 "check_results":{l.split(':')[0]: l.split(':',1)[1].strip() for l in res.splitlines() if ':' in l}}
json.dump(out,open('/verif/seeded/%s/meta.json'%name,'w'),indent=1)
PY
