#!/usr/bin/env python3
"""Operator-level mutation analysis of the machinery (supplement to the hand-made seeded changes).

  tools/mutate.py gen  <n> <seed>        sample n mutation sites of /repo/src into <work>/sites.json
  tools/mutate.py run  [workers]         phase 1+2 for every site not yet done (results in <work>/results.jsonl)
  tools/mutate.py report                 summary table

Phase 1 (per mutant, in a scratch worktree of /repo's HEAD, never in /repo itself): apply the one-token change, run the
crate's own 55 tests; a mutant that does not compile or that a test kills is of no interest.  For a survivor:
  * translator class: tools/rs2lean.py on the mutated tree: `exit2` (outside the subset), `gen-diff` (generated terms
    differ from those of the unchanged tree: every proof about them is re-checked by the real check) or `same` (the
    change is outside the translated code or invisible to the translation);
  * harness class: the harness is built against the mutated tree and every property's quick scenarios are run
    (`check` in tie-only mode: nothing regenerated, model driver of the unchanged tree): `input` (a check reports a
    VIOLATION with a failing input), `model` (only a model facet disagrees), `none`.
A survivor with translator class `same` and harness class `none` is either an equivalent mutant or a blind spot: those
are listed for review.  Work directory: $ABYSS_MUT_WORK (default /tmp/abyss-mu).
"""
import json, os, random, re, shutil, subprocess, sys, time, tempfile
from concurrent.futures import ThreadPoolExecutor

ROOT = os.path.dirname(os.path.dirname(os.path.abspath(__file__)))
WORK = os.environ.get("ABYSS_MUT_WORK", "/tmp/abyss-mu")
# order: the checks with the broadest histories first; the search for one mutant stops at the first failing input
PROPS = ["C01", "C05", "C06", "C04", "C02", "C17", "C14", "C03", "C16", "C07", "C10", "C11", "C13", "C15", "C18", "C08", "C09", "C12"]
ENV = dict(os.environ, CARGO_NET_OFFLINE="true")
# a copy of the translator taken when the run started (so that work on tools/rs2lean.py does not disturb a long run)
TRANSLATOR = os.path.join(WORK, "rs2lean.py") if os.path.exists(os.path.join(WORK, "rs2lean.py")) else os.path.join(ROOT, "tools", "rs2lean.py")

SKIP_LINE = re.compile(r"^\s*(\"|//|#\[|use |pub use |mod |pub mod |debug_assert|assert|fn |pub fn |pub\(crate\) fn |pub\(super\) fn |impl|struct |pub struct |enum |trait |where|type |pub type |\*|/\*)")

OPS = [
    # (name, regex, replacement)
    ("le->lt", re.compile(r" <= "), " < "),
    ("lt->le", re.compile(r" < "), " <= "),
    ("ge->gt", re.compile(r" >= "), " > "),
    ("gt->ge", re.compile(r" > "), " >= "),
    ("eq->ne", re.compile(r" == "), " != "),
    ("ne->eq", re.compile(r" != "), " == "),
    ("add->sub", re.compile(r" \+ "), " - "),
    ("sub->add", re.compile(r" - "), " + "),
    ("mul->div", re.compile(r" \* "), " / "),
    ("div->mul", re.compile(r" / "), " * "),
    ("rem->div", re.compile(r" % "), " / "),
    ("addassign->subassign", re.compile(r" \+= "), " -= "),
    ("subassign->addassign", re.compile(r" -= "), " += "),
    ("and->or", re.compile(r" && "), " || "),
    ("or->and", re.compile(r" \|\| "), " && "),
    ("shl->shr", re.compile(r" << "), " >> "),
    ("shr->shl", re.compile(r" >> "), " << "),
    ("bitor->bitand", re.compile(r" \| (?!\|)"), " & "),
    ("bitand->bitor", re.compile(r"(?<!&) & (?!&)"), " | "),
    ("true->false", re.compile(r"\btrue\b"), "false"),
    ("false->true", re.compile(r"\bfalse\b"), "true"),
    ("not-removed", re.compile(r"(?<![=!<>])!(?=[a-z_(])(?!\()"), ""),
    ("lit+1", re.compile(r"(?<![\w.\"'])(\d+)(?![\w.\"'])"), lambda m: str(int(m.group(1)) + 1)),
    ("lit-1", re.compile(r"(?<![\w.\"'])([1-9]\d*)(?![\w.\"'])"), lambda m: str(int(m.group(1)) - 1)),
    ("is_zero-negated", re.compile(r"(\b[\w.]+)\.is_zero\(\)"), lambda m: "!" + m.group(0)),
    ("stmt-deleted", re.compile(r"^(\s*)(self\.[\w.]+\([^;]*\)\?;|[\w.\[\]]+ (\+|-)?= [^;]*;)\s*$"), lambda m: m.group(1) + "// (deleted)"),
    ("some->none", re.compile(r"\bOk\(Some\(([^()]*)\)\)"), "Ok(None)"),
]


def sites():
    out = []
    src = "/repo/src"
    for dp, _dn, fns in os.walk(src):
        for fn in sorted(fns):
            if not fn.endswith(".rs") or fn == "verif.rs":
                continue
            path = os.path.join(dp, fn)
            rel = os.path.relpath(path, "/repo")
            lines = open(path).read().split("\n")
            in_test = False
            in_block_comment = False
            for ln, line in enumerate(lines):
                if "#[cfg(test)]" in line:
                    in_test = True
                if in_test:
                    continue
                if "/*" in line and "*/" not in line:
                    in_block_comment = True
                if in_block_comment:
                    if "*/" in line:
                        in_block_comment = False
                    continue
                if SKIP_LINE.match(line) or "cfg(abyssiniandb_verif)" in line:
                    continue
                code = line.split("//")[0]
                for name, rx, rep in OPS:
                    for k, m in enumerate(rx.finditer(code)):
                        new = code[:m.start()] + (rep(m) if callable(rep) else rep) + code[m.end():] + line[len(code):]
                        if new != line:
                            out.append(dict(file=rel, line=ln + 1, op=name, k=k, old=line, new=new))
    return out


def sh(cmd, cwd=None, timeout=None, env=None):
    # own process group: on a timeout the whole group is killed (a mutant that never returns spins in a test binary that
    # is a grandchild of `cargo test`; killing cargo alone leaves it running)
    import signal
    p = subprocess.Popen(cmd, cwd=cwd, env=env or ENV, stdout=subprocess.PIPE, stderr=subprocess.STDOUT, text=True, start_new_session=True)
    try:
        out, _ = p.communicate(timeout=timeout)
        return p.returncode, out
    except subprocess.TimeoutExpired:
        try:
            os.killpg(p.pid, signal.SIGKILL)
        except ProcessLookupError:
            pass
        try:
            out, _ = p.communicate(timeout=30)
        except Exception:  # noqa
            out = ""
        return 124, out or ""


def norm_gen(d):
    """generated files without comments"""
    out = {}
    for fn in sorted(os.listdir(d)):
        if fn.endswith(".lean"):
            t = open(os.path.join(d, fn)).read()
            t = re.sub(r"/-.*?-/", "", t, flags=re.S)
            t = re.sub(r"--[^\n]*", "", t)
            out[fn] = re.sub(r"\s+", " ", t)
    return out


def setup_worker(k):
    wt = os.path.join(WORK, "wt%d" % k)
    if not os.path.isdir(wt):
        subprocess.run(["git", "-C", "/repo", "worktree", "add", "--detach", wt, "HEAD"], stdout=subprocess.DEVNULL, stderr=subprocess.DEVNULL)
    subprocess.run(["git", "-C", wt, "checkout", "--", "."], stdout=subprocess.DEVNULL)
    hd = os.path.join(WORK, "harness%d" % k)
    if not os.path.isdir(hd):
        shutil.copytree(os.path.join(ROOT, "harness"), hd, ignore=shutil.ignore_patterns("target"))
        ct = open(os.path.join(hd, "Cargo.toml")).read().replace('path = "/repo"', 'path = "%s"' % wt)
        open(os.path.join(hd, "Cargo.toml"), "w").write(ct)
    return wt, hd


def one(k, site, base_gen):
    wt, hd = setup_worker(k)
    res = dict(site)
    path = os.path.join(wt, site["file"])
    lines = open(path).read().split("\n")
    if lines[site["line"] - 1] != site["old"]:
        res["phase1"] = "stale-site"
        return res
    lines[site["line"] - 1] = site["new"]
    open(path, "w").write("\n".join(lines))
    try:
        t0 = time.time()
        rc, out = sh(["cargo", "test", "--workspace", "--no-fail-fast", "--offline"], cwd=wt, timeout=420)
        p = f = 0
        for l in out.splitlines():
            m = re.match(r"^test result: \w+\. (\d+) passed; (\d+) failed", l)
            if m:
                p += int(m.group(1))
                f += int(m.group(2))
        if "could not compile" in out or (rc != 0 and p + f == 0):
            res["phase1"] = "no-compile" if rc != 124 else "timeout"
            return res
        if rc == 124:
            res["phase1"] = "killed-by-tests(timeout)"
            return res
        if not (p == 55 and f == 0):
            res["phase1"] = "killed-by-tests"
            return res
        res["phase1"] = "survivor"
        res["t_tests"] = round(time.time() - t0)
        # patch
        rc, diff = sh(["git", "-C", wt, "diff"])
        res["patch"] = diff
        # translator class
        gd = tempfile.mkdtemp(prefix="gen", dir=WORK)
        rc, out = sh([sys.executable, TRANSLATOR, wt, gd])
        if rc != 0:
            res["translator"] = "exit2"
            res["translator_msg"] = out.strip()[-300:]
        else:
            g = norm_gen(gd)
            ch = [fn for fn in g if g[fn] != base_gen.get(fn)]
            res["translator"] = "gen-diff" if ch else "same"
            res["gen_files"] = ch
        shutil.rmtree(gd, ignore_errors=True)
        # harness class
        rc, out = sh(["cargo", "build", "--offline"], cwd=hd, timeout=1200)
        if rc != 0:
            res["harness"] = "build-failed"
            res["harness_msg"] = out.strip()[-300:]
            return res
        hbin = os.path.join(hd, "target", "debug", "abyss-harness")
        evd = os.path.join(WORK, "ev%d" % k)
        rpd = os.path.join(WORK, "rp%d" % k)
        env = dict(ENV, ABYSS_TIE_ONLY="1", ABYSS_HARNESS_BIN=hbin, ABYSS_DRIVER_BIN=os.path.join(WORK, "abyss-driver"), ABYSS_EVIDENCE_DIR=evd, ABYSS_REPLAY_DIR=rpd, VERIF_SEED="1")
        hits = {}
        t0 = time.time()
        for pid in PROPS:
            rc, out = sh([os.path.join(ROOT, "check"), pid, "--tier", "quick"], env=env, timeout=1500)
            v = [l for l in out.splitlines() if l.startswith("VIOLATION")]
            if v:
                d = [l for l in out.splitlines() if l.startswith("violation detail")]
                hits[pid] = ("model" if "no-failing-input-found" in v[0] else "input", (d[0] if d else "")[:200])
                if hits[pid][0] == "input":
                    break
        res["t_checks"] = round(time.time() - t0)
        res["hits"] = hits
        res["harness"] = "input" if any(h[0] == "input" for h in hits.values()) else ("model" if hits else "none")
        return res
    finally:
        subprocess.run(["git", "-C", wt, "checkout", "--", "."], stdout=subprocess.DEVNULL)


def main():
    os.makedirs(WORK, exist_ok=True)
    cmd = sys.argv[1] if len(sys.argv) > 1 else ""
    sp = os.path.join(WORK, "sites.json")
    rp = os.path.join(WORK, "results.jsonl")
    if cmd == "gen":
        n, seed = int(sys.argv[2]), int(sys.argv[3])
        allsites = sites()
        rnd = random.Random(seed)
        # round-robin over (file, operator) groups, so that neither the size tables (literals) nor one file dominate
        groups = {}
        for s in allsites:
            groups.setdefault((s["file"], s["op"]), []).append(s)
        for g in groups.values():
            rnd.shuffle(g)
        byfile = {}
        for s in allsites:
            byfile.setdefault(s["file"], []).append(s)
        total = len(allsites)
        pick = []
        keys = sorted(groups)
        rnd.shuffle(keys)
        while len(pick) < n and any(groups[k] for k in keys):
            for k in keys:
                if groups[k] and len(pick) < n:
                    pick.append(groups[k].pop())
        rnd.shuffle(pick)
        json.dump(pick, open(sp, "w"), indent=0)
        print("%d sites in all, %d sampled (%s)" % (total, len(pick), ", ".join("%s:%d" % (os.path.basename(f), len(ss)) for f, ss in sorted(byfile.items()))))
        return 0
    if cmd == "run":
        workers = int(sys.argv[2]) if len(sys.argv) > 2 else 4
        pick = json.load(open(sp))
        done = set()
        if os.path.exists(rp):
            for l in open(rp):
                r = json.loads(l)
                done.add((r["file"], r["line"], r["op"], r["k"]))
        todo = [s for s in pick if (s["file"], s["line"], s["op"], s["k"]) not in done]
        bg = os.path.join(WORK, "basegen")
        shutil.rmtree(bg, ignore_errors=True)
        os.makedirs(bg)
        wt0, _ = setup_worker(0)
        rc, out = sh([sys.executable, TRANSLATOR, wt0, bg])
        assert rc == 0, out
        base_gen = norm_gen(bg)
        if not os.path.exists(os.path.join(WORK, "abyss-driver")):
            shutil.copy2(os.path.join(ROOT, "lean", ".lake", "build", "bin", "abyss-driver"), os.path.join(WORK, "abyss-driver"))
        import queue, threading
        q = queue.Queue()
        for s in todo:
            q.put(s)
        lock = threading.Lock()

        def work(k):
            while True:
                try:
                    s = q.get_nowait()
                except queue.Empty:
                    return
                try:
                    r = one(k, s, base_gen)
                except Exception as e:  # noqa
                    r = dict(s, phase1="error", error=str(e)[:200])
                with lock:
                    with open(rp, "a") as fh:
                        fh.write(json.dumps(r) + "\n")
                    print("%s:%d %s -> %s %s %s" % (r["file"], r["line"], r["op"], r.get("phase1"), r.get("translator", ""), r.get("harness", "")), flush=True)
        with ThreadPoolExecutor(workers) as ex:
            list(ex.map(work, range(workers)))
        return 0
    if cmd == "report":
        rs = [json.loads(l) for l in open(rp)]
        from collections import Counter
        c1 = Counter(r["phase1"] for r in rs)
        print("mutants: %d  %s" % (len(rs), dict(c1)))
        sv = [r for r in rs if r["phase1"] == "survivor"]
        c2 = Counter((r.get("translator"), r.get("harness")) for r in sv)
        print("survivors of the 55 tests: %d" % len(sv))
        for k, v in sorted(c2.items(), key=lambda x: str(x)):
            print("  translator=%-8s harness=%-6s : %d" % (k[0], k[1], v))
        print("\nnot noticed by anything (translator same, harness none):")
        for r in sv:
            if r.get("translator") == "same" and r.get("harness") == "none":
                print("  %s:%d [%s] %s  =>  %s" % (r["file"], r["line"], r["op"], r["old"].strip(), r["new"].strip()))
        print("\nnoticed by the translator / proofs only (harness none):")
        for r in sv:
            if r.get("translator") != "same" and r.get("harness") == "none":
                print("  %s:%d [%s] (%s) %s  =>  %s" % (r["file"], r["line"], r["op"], r.get("translator"), r["old"].strip(), r["new"].strip()))
        return 0
    print(__doc__)
    return 2


if __name__ == "__main__":
    sys.exit(main())
