#!/usr/bin/env python3
"""Refresh the per-check texts of /verif/MANIFEST.json from tools/props.py (theorem counts, explanations).
Everything else in the manifest is left as it is.   usage: tools/mk_manifest.py"""
import json, os, sys
ROOT = os.path.dirname(os.path.dirname(os.path.abspath(__file__)))
sys.path.insert(0, os.path.join(ROOT, "tools"))
import props
m = json.load(open(os.path.join(ROOT, "MANIFEST.json")))
for c in m["checks"]:
    p = props.P[c["property_id"]]
    n = len(p["theorems"])
    scen = ", ".join(s[0] for s in p["scenarios"])
    c["level_claimed"]["text"] = (
        "Machine-checked Lean 4 theorems about the executable model (%d listed theorems, axioms audited on every run) "
        "+ correspondence check of the model against the real crate (scenarios: %s). %s" % (n, scen, p.get("explanation", "")))
json.dump(m, open(os.path.join(ROOT, "MANIFEST.json"), "w"), indent=1)
print("MANIFEST.json refreshed for %d checks" % len(m["checks"]))
