#!/usr/bin/env python3
"""leannorm.py — compare two directories of generated Lean files up to comments and bound-variable names.

usage: leannorm.py cmp <dirA> <dirB>     prints one line: `identical` (byte for byte), `same-terms` (equal after the doc /
                                         line comments are stripped), `same-alpha` (equal after the bound variables of every
                                         definition are renamed in order of first occurrence) or `DIFFERENT <files>`;
                                         exit 0 unless DIFFERENT
       leannorm.py norm <file>           prints the normalised text

Normalisation: (1) `/- … -/` (doc and module comments) and `-- …` comments are removed, trailing blanks and empty lines
dropped; (2) per top-level `def`: the names bound by the header `(a b : T)`, by `let PAT ←/:=`, `fun PAT =>` and `| PAT =>`
are renamed `v1, v2, …` in the order of their first occurrence in the definition; (3) `same-alpha-scoped`: the finer
renaming of `alpha_scoped` (one number per binding occurrence); (4) `same-alpha-folded`: in addition a product / sum of two
numerals `(8 * 8)` is replaced by the numeral (equal in `Nat`).  The renaming is a bijection on the
bound names of one definition and never touches a name after a `.` (field / constructor) nor a name that is not bound in
the definition (global functions, constructors), so two texts with the same normal form differ by a renaming of bound
variables only.  Top-level names, the order and the types of the parameters and the structure of the terms are compared as
they are."""
import os
import re
import sys

FILES = ["Consts.lean", "Funcs.lean", "FileOps.lean", "Engine.lean", "FlushOps.lean", "ApiOps.lean", "Registry.lean"]
STOP = {"some", "none", "true", "false", "pure", "do", "if", "then", "else", "match", "with", "fun", "let", "Type", "Nat",
        "List", "Option", "Unit", "Bool", "String", "Int", "Sum", "Except", "Ordering", "_"}
IDENT = re.compile(r"(?<![A-Za-z0-9_'.])([A-Za-z_][A-Za-z0-9_']*)")


def strip_comments(txt):
    txt = re.sub(r"/-.*?-/", "", txt, flags=re.S)
    txt = re.sub(r"--[^\n]*", "", txt)
    return "\n".join(l.rstrip() for l in txt.splitlines() if l.strip()) + "\n"


def idents(s):
    return [m.group(1) for m in IDENT.finditer(s)]


def binders_of(chunk):
    """names bound somewhere in the text of one definition"""
    out = []
    m = re.match(r"def\s+\S+(.*?)(:=|\n\s*\|)", chunk, re.S)
    if m:
        for g in re.finditer(r"[({]([^(){}:]+?)\s:\s", m.group(1)):
            out += idents(g.group(1))
    for g in re.finditer(r"\blet\s+(.*?)(?:\s←|\s:=|\s:\s)", chunk):
        out += idents(g.group(1))
    for g in re.finditer(r"\bfun\s+(.*?)\s*=>", chunk):
        out += idents(g.group(1))
    for g in re.finditer(r"(?<![|])\|(?![|])\s*([^|=>\n]*?)\s*=>", chunk):
        out += idents(g.group(1))
    return set(x for x in out if x not in STOP)


def alpha(txt):
    """rename the bound names of every `def` in order of first occurrence"""
    parts = re.split(r"(?m)^(?=def |structure |inductive |namespace |end |open |import |set_option )", txt)
    res = []
    for ch in parts:
        if not ch.startswith("def "):
            res.append(ch)
            continue
        bs = binders_of(ch)
        names = {}
        head = re.match(r"def\s+\S+", ch)

        def sub(m):
            n = m.group(1)
            if n not in bs:
                return n
            if n not in names:
                names[n] = "v%d" % (len(names) + 1)
            return names[n]
        res.append(ch[:head.end()] + IDENT.sub(sub, ch[head.end():]))
    return "".join(res)


def alpha_scoped(txt):
    """a finer renaming: every BINDING occurrence gets a fresh number, every other occurrence the number of the textually
    most recent binding of its name (the right-hand side of a `let` is read before the `let` binds: it extends to the end
    of the line, over open parentheses and over the following lines that are indented deeper).  Two texts that differ by a
    renaming of bound variables — also one that uses one name where the other uses two, `| .ok i => … | .error i => …` /
    `| .ok hit => … | .error ins => …`, or `let x := x` / `let y := x` — get the same form."""
    parts = re.split(r"(?m)^(?=def |structure |inductive |namespace |end |open |import |set_option )", txt)
    res = []
    for ch in parts:
        if not ch.startswith("def "):
            res.append(ch)
            continue
        head = re.match(r"def\s+\S+", ch)
        spans = []                                         # (start, end, activate at) of the binder regions
        m = re.match(r"def\s+\S+(.*?)(:=|\n\s*\|)", ch, re.S)
        if m:
            for g in re.finditer(r"[({]([^(){}:]+?)\s:\s", m.group(1)):
                spans.append((m.start(1) + g.start(1), m.start(1) + g.end(1), None))
        for g in re.finditer(r"\blet\s+(.*?)(\s←|\s:=|\s:\s)", ch):
            # the extent of the right-hand side
            ls = ch.rfind("\n", 0, g.start()) + 1
            indent = len(ch[ls:g.start()]) - len(ch[ls:g.start()].lstrip()) if ch[ls:g.start()].strip() == "" else None
            j, depth = g.end(), 0
            while j < len(ch):
                c = ch[j]
                if c == "(":
                    depth += 1
                elif c == ")":
                    if depth == 0:
                        break
                    depth -= 1
                elif c == "\n" and depth == 0:
                    nxt = ch[j + 1:].split("\n", 1)[0]
                    if indent is None or not (nxt.strip() and len(nxt) - len(nxt.lstrip()) > indent):
                        break
                j += 1
            spans.append((g.start(1), g.end(1), j))
        for g in re.finditer(r"\bfun\s+(.*?)\s*=>", ch):
            spans.append((g.start(1), g.end(1), None))
        for g in re.finditer(r"(?<![|])\|(?![|])\s*([^|=>\n]*?)\s*=>", ch):
            spans.append((g.start(1), g.end(1), None))
        spans.sort()
        env, pending, count, out, last = {}, [], [0], [], head.end()
        for mm in IDENT.finditer(ch, head.end()):
            pos, n = mm.start(1), mm.group(1)
            for item in [x for x in pending if x[0] <= pos]:
                env[item[1]] = item[2]
                pending.remove(item)
            out.append(ch[last:pos])
            last = mm.end(1)
            sp = next((x for x in spans if x[0] <= pos < x[1]), None)
            if sp is not None and n not in STOP:
                count[0] += 1
                if sp[2] is None:
                    env[n] = count[0]
                else:
                    pending.append((sp[2], n, count[0]))
                out.append("v%d" % count[0])
            elif n in env:
                out.append("v%d" % env[n])
            else:
                out.append(n)
        out.append(ch[last:])
        res.append(ch[:head.end()] + "".join(out))
    return "".join(res)


def fold(txt):
    """`(8 * 8)` -> `64`: a product / sum of two literals is the literal (`Nat`)"""
    pat = re.compile(r"\((\d+) ([*+]) (\d+)\)")
    while True:
        new = pat.sub(lambda m: str(int(m.group(1)) * int(m.group(3)) if m.group(2) == "*" else int(m.group(1)) + int(m.group(3))), txt)
        if new == txt:
            return txt
        txt = new


def norm(path, do_alpha=True, do_fold=False, scoped=False):
    txt = strip_comments(open(path, encoding="utf-8").read())
    if do_fold:
        txt = fold(txt)
    if scoped:
        return alpha_scoped(txt)
    return alpha(txt) if do_alpha else txt


def main():
    if sys.argv[1] == "norm":
        sys.stdout.write(norm(sys.argv[2], scoped="--scoped" in sys.argv))
        return 0
    a, b = sys.argv[2], sys.argv[3]
    level, bad = 0, []
    for f in FILES:
        pa, pb = os.path.join(a, f), os.path.join(b, f)
        if not (os.path.exists(pa) and os.path.exists(pb)):
            bad.append(f)
            continue
        if open(pa, "rb").read() == open(pb, "rb").read():
            continue
        if norm(pa, False) == norm(pb, False):
            level = max(level, 1)
        elif norm(pa) == norm(pb):
            level = max(level, 2)
        elif norm(pa, scoped=True) == norm(pb, scoped=True):
            level = max(level, 3)
        elif norm(pa, True, True, True) == norm(pb, True, True, True):
            level = max(level, 4)
        else:
            bad.append(f)
    if bad:
        print("DIFFERENT " + " ".join(bad))
        return 1
    print(["identical", "same-terms", "same-alpha", "same-alpha-scoped", "same-alpha-folded"][level])
    return 0


if __name__ == "__main__":
    sys.exit(main())
