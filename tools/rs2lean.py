#!/usr/bin/env python3
"""rs2lean.py — translate the pure sizing / hash / constant core of abyssiniandb to Lean 4.

usage: rs2lean.py <repo> <outdir>      (writes <outdir>/Consts.lean, Funcs.lean, FileOps.lean, Engine.lean, FlushOps.lean,
                                        ApiOps.lean, Registry.lean)

The translator accepts a small, fixed Rust subset (see DESIGN.md §3.2) and FAILS LOUDLY
(exit 2, message with file and construct) on anything else.  Integers become `Nat`;
`<<` on u64 is `% 2^64`; a narrowing `as uN` is `% 2^N`; `panic!` makes the function return
`Option`; `debug_assert!` is dropped (recorded as a comment).  `#[cfg(..)]` attributes are
evaluated against the crate's default feature set read from Cargo.toml.
Key types (src/filedb/dbmap/kt_db*.rs): a key newtype `DbX(Vec<u8>)` is its byte list;
`cmp_u8` and the `From` impls between integers and keys are selected by their `impl` header
(`find_impl`) and their signature is checked against the configured one; byte slices compare
with `cmpBytes`, `u64`s with `compare`; `vu64::decode(..).unwrap()` is the panic path (`none`);
`i64` is `Int` and only occurs in `to_le_bytes` / `from_le_bytes` (two's complement);
`copy_from_slice` into/from a range `x[..n]` only in shapes whose length and bounds
conditions are evident from the enclosing `if` (see `Emit.copy_from_slice`).
Imperative I/O subset (FileOps.lean, class EmitIO): the `&mut self` methods of `VarFile` that do the
byte-level I/O of the record-file allocator (vfile.rs, piece.rs; list `IO_FUNCS`, each looked up in
the `impl VarFile` blocks whose `#[cfg]` holds, signature checked) become functions in the monad
`Abyss.FileM.M` (Abyss/FileM.lean): `Result`+`?` is the monad's failure, `self.m(..)` is a translated
function or a bottom primitive (`IO_PRIMS`), any other method call fails; the unit-of-measure
newtypes are erased (their operators are checked against semtype.rs, `io_pin_semtype`); a `while`
loop becomes an auxiliary function recursive on an explicit `fuel`; `return Ok(x)` is supported as
the last statement of an `if` block (also inside a loop).
Second batch of the I/O subset: the piece-level I/O of the value file and the key file (val.rs `ValuePiece`,
`VarFileValueCache`; key.rs `KeyPiece<KT>`, `VarFileKeyCache<KT>`): the VarFile is `self.0` / a parameter
`file: &mut VarFile`; the piece structs are flattened into their fields (definition and constructors pinned
token-wise, `IO_STRUCTS`; a field that the function assigns before it reads it is not a parameter; of a
returned struct the configured fields are the value, the others must be unchanged parameters); keys and byte
buffers are `List Nat`; `assert!` is `FileM.fail`; `let (a, b) = if c { … } else { (call?, x) };`; an `if`
with a `return` in a branch continues every other branch with the rest of the block; the `match` of the
error recovery around `dat_write_piece_one` is accepted in exactly that shape and its `Err` arm dropped (named
in the doc comment).
Third batch: the hash-table file (htx.rs): `impl VarFile { read_hash_buckets_size, read_item_count, write_item_count,
read_key_piece_offset, write_key_piece_offset, next_key_piece_offset }` and the methods of the handle `HtxFile`
(`let mut locked = RefCell::borrow_mut(&self.0);` pinned and erased, `locked.file` is the VarFile,
`locked.buckets_size` the context parameter `bucketsSize`); `read_u8`/`write_u8`; `byte &= e` / `byte |= e` on a
`u8` with `!`, `<<` (`u8Not`, `u8Shl`); `v = call?;`; `bool` loop variables; several loops in one function; a block
/ an `if` as the value of a block; an unsigned `a - b` without a guard in the source gets one (`FileM.fail`);
`std::mem::size_of_val(&v)`; `seek(SeekFrom::Current(-(n as i64)))`; the constants of htx.rs are those of Consts.lean.
Fourth batch: the engine (dbxxx.rs `FileDbXxxInner<KT>` -> Engine.lean, monad `Abyss.DbM` over the three files; list
`ENG_FUNCS`): calls through the wrapper layers `KeyFile`/`ValueFile` (each wrapper body read and required to be
`{ let mut locked = self.0.borrow_mut(); locked.g(args) }`), `HtxFile`, `locked_key`; `Option`, `if let Some(p) = o`,
`.map(Some)`, the `match` on `cmp_u8` (context parameter `cmp`), `loop { … return … }` with an inner `while`,
piece structs as locals; `self.dirty = true` and `_cold()` dropped; the hash is a parameter.
Fifth batch: the iterator state machine (dbxxx.rs `DbXxxIterMut::{new, next_piece_offset}`, `Iterator::next`: the
`&mut self` struct is threaded through as an explicit state tuple, parameter and part of the value; the `RefCell::borrow…`
plumbing is pinned by shape and dropped, `io_plumbing`; `.unwrap()` of a `Result` in a function that returns none is the
failure of the monad; struct literal `Self { … }`); the statistics of `CheckFileDbMap` (mod.rs `touch_size` /
`touch_length` -> pure functions of Funcs.lean over `binarySearchByKey` / `listInsertAt` / `listSetSnd`, `translate_touch`;
the trait object `dyn PieceA<T>` -> the structure `PieceA` and its two values; piece.rs `PieceOffsetIter`; `for` loops over
`0..n`, a constant array, the piece walk: `EmitIO.for_`); flush / sync and the dirty flag (dbxxx.rs `flush`, `sync_all`,
`sync_data` -> FlushOps.lean in the monad `Abyss.FlushM` over abstract per-file actions, `emit_flushops`; `dirty: true` in
the constructor and the position of `self.dirty = true;` in `put_kt` / `del_kt` pinned).
Sixth batch: the create / open path: `VarFile::set_file_length` (`buf_file.set_len` = `FileM.setLen`); the free functions
`write_*_init_header` / `check_*_header` of key.rs / val.rs / htx.rs (`io_find_free_fns`; `f(&mut file, ..)` is the translated free
function of the same file; byte arrays `[0u8, …]` / `[0u8; N]`, `a == b` on byte arrays, `file.read_exact(&mut buf)?` on a local
array = `FileM.readPad N`, see IO_READ_EXACT); the part of `KeyFile`/`ValueFile`/`HtxFile::open_with_params` after the buffer is
built (IO_OPEN: the statements in front of `let file_length …` are compared token-wise with the configured text and dropped; the
local cache struct around the file, IO_CACHE_CTORS; the handle `Self(Rc::new(RefCell::new(c)))` is the data of `c`;
`let buckets_size = match params.buckets_size { … }` is `bucketsOf p`); `FileDbXxxInner::open_with_params` -> `openMap`
(`emit_open_map`: the three opens, their order and the struct literal with `dirty: true` pinned by shape).
Seventh batch: the generic API wrappers (lib.rs: the default methods of `trait DbXxx<KT>`: `get`, `put`, `delete`,
`includes_key`, `bulk_get`, `bulk_put`, `bulk_delete`, `put_from_iter`, the `…_string` variants -> ApiOps.lean, class EmitApi,
list `API_FUNCS`, monad `Abyss.ApiM σ` over an abstract map with the four object-safe calls as the parameter `ops : KtOps σ`;
a small typed subset: `while let Some(x) = v.pop()` = a fuel loop over `ApiM.pop`, `for p in v`, `push`, `Vec::new()`,
`.iter().enumerate().map(|(i, &a)| (i, a)).collect()`, `.iter().map(|a| e).collect()`, closures on `Option` / on the `Result`
in last position; the descending sort by key is a function PARAMETER `sortDesc` / `sortDescPairs` (only `Perm` is assumed of
it), the stable sort by index is `ApiM.sortByIdx`, `String::from_utf8_lossy(..).to_string()` is the parameter `lossy`;
signatures, `where` clauses, the four declarations of `DbXxxObjectSafe<KT>` and the empty `impl DbXxx<KT> for FileDbMap<KT> {}`
pinned) and the database-level sync (inner/mod.rs `FileDbInner::{applay_all, sync_all, sync_data}` -> `dbApplyAll`,
`dbSyncAll`, `dbSyncData` in FlushOps.lean, monad `Abyss.DbRegM μ` over the five registries, `emit_dbsync`: the five blocks,
their order and their shape pinned; the struct, the `db_map_<k>` lookups, the aliases `FileDbMapDb…`, the handle
`FileDbMap<KT>` and the `sync_all` / `sync_data` wrappers of `FileDbMap<KT>` and `FileDb` pinned token-wise).
Eighth batch: the name registry (-> Registry.lean, `emit_registry`, class EmitReg, monad `Abyss.DbRegM μ` with the primitives of
Abyss/RegM.lean).  File names: the path statements of the three `open_with_params` (between `let piece_mgr …;` and
`let std_file …;`; no longer part of the pinned prefix IO_OPEN_PREFIX) must be exactly `let mut pb = path.as_ref().to_path_buf();
pb.push(format!("…"));`, and the format string is translated literally (`io_file_name`, `io_format_parts`: inline `{ks_name}` and
literal ASCII text; positional / formatted arguments, escapes, any other method of the path — `set_extension`, `join`, … — fail):
`keyFileName`, `valFileName`, `htxFileName`.  `FileBufSizeParam`, `FileDbParams` and its `Default` (`reg_params`).  inner/mod.rs
`FileDbInner`: the five lookups, the five inserts, the five `create_db_map*`; filedb/mod.rs `FileDb`: the five
`db_map_<k>_with_params` and the five `db_map_<k>` (lists REG_INNER_FUNCS / REG_DB_FUNCS; ALL FIVE copies of a family are
translated from their own text: which function a body calls and which registry field it names is taken from the source; the
handle types `FileDbMapDb…` are checked; the `RefCell::borrow…` plumbing of `FileDb` is pinned by shape and dropped;
`if let Some(m) = e { return Ok(m); }`, `match e { Some(m) => Ok(m), None => panic!(..) }`, `let _ = e;`;
`FileDbMapDb<K>::open(self.path(), name, params)?` is the function parameter `opener`; the method sets of the two `impl`s,
`FileDbInner::{open, path}`, `FileDb::{open, path}`, `FileDbMap::<KT>::open` pinned token-wise, REG_PINS).
Ninth batch: the last glue of the engine.  The iterator adaptors (dbxxx.rs `DbXxxIter`, `DbXxxIntoIter`, `DbXxxKeys`, `DbXxxValues`:
structs pinned to the one field `iter: DbXxxIterMut<KT>` and represented by its state tuple; `new`, `Iterator::next`,
`Iterator::size_hint` of each and `DbXxxIterMut::size_hint` -> `iter<X>New` / `iter<X>Next` / `iter<X>SizeHint`, `iterSizeHint` in
Engine.lean, through the generated `iterNew` / `iterNext`; class EmitIA, `emit_iter_adaptors`: a tiny typed subset — a key and a
value are different classes, `o.map(|(k, _v)| k)`, `self.iter.next();` as a statement) and the API paths that build them
(dbmap/mod.rs `iter`, `iter_mut`, `keys`, `values`, the three `into_iter`; list IA_API: which struct each returns is configured,
the declarations of `trait DbMap<KT>` pinned) -> `mapIter`, …; `is_dirty` of the map and of the handle -> `mapIsDirty`, `apiIsDirty`
in FlushOps.lean (`emit_is_dirty`); `read_fill_buffer` of the `VarFile` (`buf_file.read_fill_buffer()` = the bottom primitive
`FileM.readFill`), of the three handles (FileOps.lean) and of the map (`readFillBuffer`, Engine.lean; the wrapper of `FileDbMap<KT>`
and the declaration in `trait DbXxxBase` pinned).
Property-preserving rewrites of the source do not fail and give the same terms (section "property-preserving rewrites"):
the parameters of a translated function may be renamed (signatures are compared up to the parameter names, the body is renamed
to the configured names: `sig_eq_renamed`, `rename_params`), so may the locals that the translation refers to (`locked`, `hash`,
`pb`, `piece_mgr`, `std_file`, `file`, `buckets_size`, `err`, …: found by the shape of their statement) and the locals /
parameters of the small functions that are pinned token-wise (`toks_eq_renamed`); a private (not `pub`) translated function may
be renamed with all its call sites (`Aliases`, `io_find_renamed`: the one other function of the block with the configured
signature that the callers call; the Lean name stays, the doc comment says `(renamed in the source: …)`); the prologue
`let hash = HashValue::new(key_kt.hash_value());` may be inlined into its uses; `match o { Some(v) => a, None => b }` is
`if let`, `u64::from(x)` is `x as u64`, `.clone()` of a `Copy` value and `Ok(call?)` are what they wrap.
When the translation fails, the file of the failing stage and those of all later stages (order: Funcs.lean, FileOps.lean,
Engine.lean, FlushOps.lean, ApiOps.lean, Registry.lean) are replaced by files that do not build.
Python 3 standard library only.
"""
import re
import sys
import os


class TrError(Exception):
    pass


def fail(msg):
    raise TrError(msg)


# ----------------------------------------------------------------------------- tokenizer
TOKEN_RE = re.compile(r"""
    (?P<ws>\s+)
  | (?P<lc>//[^\n]*)
  | (?P<bc>/\*.*?\*/)
  | (?P<bstr>b"(?:[^"\\]|\\.)*")
  | (?P<str>"(?:[^"\\]|\\.)*")
  | (?P<bchar>b'(?:[^'\\]|\\.)')
  | (?P<num>0x[0-9a-fA-F_]+(?:u8|u16|u32|u64|usize|i32|i64)?|[0-9][0-9_]*(?:u8|u16|u32|u64|usize|i32|i64)?)
  | (?P<id>[A-Za-z_][A-Za-z0-9_]*!?)
  | (?P<op><<=|>>=|\.\.=|::|->|=>|==|!=|<=|>=|&&|\|\||<<|>>|\+=|-=|\*=|/=|%=|\^=|\|=|&=|\.\.|[-+*/%^|&!<>=.,;:#\[\](){}?@~'])
""", re.X | re.S)


def tokenize(src):
    toks = []
    pos = 0
    while pos < len(src):
        m = TOKEN_RE.match(src, pos)
        if not m:
            fail("cannot tokenize at: %r" % src[pos:pos + 40])
        pos = m.end()
        k = m.lastgroup
        if k in ("ws", "lc", "bc"):
            continue
        toks.append((k, m.group(k)))
    return toks


# ----------------------------------------------------------------------------- features
def default_features(repo):
    txt = open(os.path.join(repo, "Cargo.toml")).read()
    m = re.search(r"^\[features\]\s*$(.*?)^\[", txt, re.M | re.S)
    if not m:
        fail("Cargo.toml: no [features] section")
    feats = {}
    for line in m.group(1).splitlines():
        line = line.split("#")[0].strip()
        mm = re.match(r'([A-Za-z0-9_]+)\s*=\s*\[(.*)\]', line)
        if mm:
            feats[mm.group(1)] = [x.strip().strip('"') for x in mm.group(2).split(",") if x.strip()]
    on = set()
    todo = list(feats.get("default", []))
    while todo:
        f = todo.pop()
        if f in on or "/" in f:
            continue
        on.add(f)
        todo.extend(feats.get(f, []))
    return on


# ----------------------------------------------------------------------------- parser
class P:
    def __init__(self, toks, feats, where):
        self.t = toks
        self.i = 0
        self.feats = feats
        self.where = where
        self.keep_try = False         # imperative I/O subset: `e?` is kept as ("try", e)
        self.dropped = []             # statements left out because their `#[cfg(..)]` is false
        self.kept = []                # statements with a `#[cfg(..)]` that is true
        self.last_cfg = []            # texts of the cfg attributes read by the last `attrs()`
        self.api = False              # API wrappers of lib.rs (EmitApi): `while let P = e { … }` is parsed

    def peek(self, k=0):
        return self.t[self.i + k] if self.i + k < len(self.t) else ("eof", "")

    def next(self):
        tok = self.peek()
        self.i += 1
        return tok

    def at(self, v):
        return self.peek()[1] == v

    def eat(self, v):
        if self.at(v):
            self.i += 1
            return True
        return False

    def expect(self, v):
        if not self.eat(v):
            fail("%s: expected %r, found %r (…%s)" % (self.where, v, self.peek()[1],
                 " ".join(x[1] for x in self.t[max(0, self.i - 6):self.i + 4])))

    # ---- attributes: returns False if a cfg attribute evaluates to false
    def attrs(self):
        ok = True
        self.last_cfg = []
        while self.at("#"):
            self.next()
            self.expect("[")
            name = self.next()[1]
            if name == "cfg":
                self.expect("(")
                i0 = self.i
                v = self.cfg_pred()
                self.last_cfg.append("#[cfg(%s)]" % "".join(
                    (" " + x[1] + " ") if x[1] == "=" else x[1] for x in self.t[i0:self.i]))
                self.expect(")")
                ok = ok and v
                self.expect("]")
            else:
                depth = 1
                while depth:
                    tk = self.next()[1]
                    if tk == "[":
                        depth += 1
                    elif tk == "]":
                        depth -= 1
                    elif tk == "":
                        fail(self.where + ": unterminated attribute")
        return ok

    def cfg_pred(self):
        name = self.next()[1]
        if name == "feature":
            self.expect("=")
            s = self.next()
            return s[1].strip('"') in self.feats
        if name in ("not", "any", "all"):
            self.expect("(")
            vals = []
            while not self.at(")"):
                vals.append(self.cfg_pred())
                self.eat(",")
            self.expect(")")
            if name == "not":
                return not vals[0]
            return any(vals) if name == "any" else all(vals)
        if name == "debug_assertions":
            return False
        if name == "test":
            return False
        if name == "abyssiniandb_verif":
            # `--cfg abyssiniandb_verif`: the I/O trace / layout probe of the verification harness, never set by a
            # default build (not a feature of Cargo.toml)
            return False
        fail("%s: unsupported cfg predicate %r" % (self.where, name))

    # ---- types (skipped, returned as string)
    def type_(self):
        s = ""
        depth = 0
        while True:
            k, v = self.peek()
            if depth == 0 and v in ("=", ";", ",", ")", "{", ">") and not (v == ">" and depth > 0):
                if v == ">" and depth == 0:
                    break
                break
            if v in ("<", "[", "("):
                depth += 1
            if v in (">", "]", ")"):
                depth -= 1
            if v == ">>":               # `Vec<Option<Vec<u8>>>`: the tokenizer reads `>>` as one token
                depth -= 2
            s += v
            self.next()
        return s

    # ---- blocks and statements
    def block(self):
        self.expect("{")
        stmts = []
        tail = None
        while not self.at("}"):
            ok = self.attrs()
            cfgs = list(self.last_cfg)
            st = self.stmt()
            if not ok:
                what = "{ … }" if (st[0] == "expr" and st[1][0] == "block") else (
                    "let %s = …" % " ".join(pat_vars(st[1])) if st[0] == "let" else "statement")
                self.dropped.append("`%s %s` (cfg false)" % (" ".join(cfgs), what))
                continue
            if cfgs:
                what = "{ … }" if (st[0] == "expr" and st[1][0] == "block") else (
                    "let %s = …" % " ".join(pat_vars(st[1])) if st[0] == "let" else "statement")
                self.kept.append("`%s %s` (cfg true)" % (" ".join(cfgs), what))
            if st[0] == "tail":
                if not self.at("}"):
                    # expression statement without semicolon (if/for/match blocks)
                    stmts.append(("expr", st[1]))
                else:
                    tail = st[1]
            else:
                stmts.append(st)
        self.expect("}")
        if tail is not None and tail[0] == "if" and tail[3] is None:
            stmts.append(("expr", tail))
            tail = None
        if (tail is not None and tail[0] == "iflet" and tail[4] is not None
                and tail[3][2] is None and tail[4][2] is None):
            # `if let P = e { …statements… } else { …statements… }` in last position: a statement
            stmts.append(("expr", tail))
            tail = None
        if (tail is not None and tail[0] == "if" and tail[3] is not None and tail[3][0] == "block"
                and tail[2][2] is None and tail[3][2] is None):
            # `if c { …statements… } else { …statements… }` in last position: a statement, not a value
            stmts.append(("expr", tail))
            tail = None
        return ("block", stmts, tail)

    def stmt(self):
        k, v = self.peek()
        if v == "let":
            self.next()
            mut = self.eat("mut")
            pat = self.pattern()
            ty = None
            if self.eat(":"):
                ty = self.type_()
            self.expect("=")
            e = self.expr()
            self.expect(";")
            return ("let", pat, ty, e, mut)
        if v == "for":
            self.next()
            pat = self.pattern()
            self.expect("in")
            it = self.expr(no_struct=True)
            body = self.block()
            return ("for", pat, it, body)
        if v == "while":
            # only the imperative I/O subset (EmitIO) translates it; Emit.seq rejects it
            self.next()
            if self.at("let"):
                if not self.api:
                    fail(self.where + ": `while let` is outside the supported subset")
                # API wrappers (EmitApi): `while let P = e { … }`
                self.next()
                pat = self.pattern()
                self.expect("=")
                scrut = self.expr(no_struct=True)
                body = self.block()
                return ("whilelet", pat, scrut, body)
            c = self.expr(no_struct=True)
            body = self.block()
            return ("while", c, body)
        if v == "loop" and self.keep_try and self.peek(1)[1] == "{":
            # imperative I/O subset: `loop { … }` (left only by `return`)
            self.next()
            body = self.block()
            self.eat(";")
            return ("loop", body)
        if v == "return":
            self.next()
            e = None if self.at(";") else self.expr()
            self.eat(";")
            return ("return", e)
        if v == "assert!" and self.keep_try:
            # imperative I/O subset: `assert!(cond, msg..)` is kept (a failure of the monad)
            self.next()
            self.expect("(")
            c = self.expr()
            depth = 1
            while depth:
                tk = self.next()[1]
                depth += (tk == "(") - (tk == ")")
                if tk == "":
                    fail(self.where + ": unterminated macro group")
            self.eat(";")
            return ("assert", c)
        if v in ("debug_assert!", "debug_assert_eq!", "assert!"):
            self.next()
            self.skip_group()
            self.eat(";")
            return ("dassert", v)
        if v == "panic!" or v == "unimplemented!" or v == "unreachable!":
            self.next()
            self.skip_group()
            self.eat(";")
            return ("panic",)
        if v == "{":
            b = self.block()
            return ("expr", b)
        e = self.expr()
        for op in ("^=", "|=", "&=", "+=", "-=", "*=", "<<=", ">>=", "="):
            if self.at(op):
                self.next()
                r = self.expr()
                self.expect(";")
                return ("assign", op, e, r)
        if self.eat(";"):
            return ("expr", e)
        return ("tail", e)

    def skip_group(self):
        open_ = self.next()[1]
        close = {"(": ")", "[": "]", "{": "}"}[open_]
        depth = 1
        while depth:
            tk = self.next()[1]
            if tk == open_:
                depth += 1
            elif tk == close:
                depth -= 1
            elif tk == "":
                fail(self.where + ": unterminated macro group")

    def pattern(self):
        if self.eat("("):
            ps = []
            while not self.at(")"):
                ps.append(self.pattern())
                self.eat(",")
            self.expect(")")
            return ("ptuple", ps)
        if self.eat("&"):
            return self.pattern()
        k, v = self.next()
        if k != "id":
            fail("%s: unsupported pattern at %r" % (self.where, v))
        if self.at("(") and self.keep_try:
            # imperative I/O subset: `Some(p)` in `if let`
            self.next()
            ps = []
            while not self.at(")"):
                ps.append(self.pattern())
                self.eat(",")
            self.expect(")")
            return ("pctor", v, ps)
        return ("pvar", v)

    # ---- expressions (precedence climbing)
    BIN = [
        ("||",), ("&&",), ("==", "!=", "<", ">", "<=", ">="), ("|",), ("^",), ("&",),
        ("<<", ">>"), ("+", "-"), ("*", "/", "%"),
    ]

    def expr(self, lvl=0, no_struct=False):
        if lvl == len(self.BIN):
            return self.cast(no_struct)
        lhs = self.expr(lvl + 1, no_struct)
        while self.peek()[1] in self.BIN[lvl] and self.peek()[0] == "op":
            # do not take `|` `&` `<` etc. of compound assignments (tokenized separately)
            op = self.next()[1]
            rhs = self.expr(lvl + 1, no_struct)
            lhs = ("bin", op, lhs, rhs)
        return lhs

    def cast(self, no_struct):
        e = self.unary(no_struct)
        while self.at("as"):
            self.next()
            ty = self.next()[1]
            e = ("cast", e, ty)
        return e

    def unary(self, no_struct):
        if self.at("!"):
            self.next()
            return ("not", self.unary(no_struct))
        if self.at("*") or self.at("&"):
            self.next()
            self.eat("mut")
            return self.unary(no_struct)
        if self.at("-"):
            if self.keep_try:
                # imperative I/O subset: only `seek(SeekFrom::Current(-(n as i64)))` gives it a meaning
                self.next()
                return ("neg", self.unary(no_struct))
            fail(self.where + ": unary minus is outside the supported subset")
        return self.postfix(no_struct)

    def postfix(self, no_struct):
        e = self.primary(no_struct)
        while True:
            if self.at("."):
                self.next()
                k, name = self.next()
                if k == "num":
                    e = ("field", e, name)
                    continue
                if self.at("::"):      # turbofish on method
                    self.next()
                    self.skip_angle()
                if self.at("("):
                    args = self.args()
                    e = ("mcall", e, name, args)
                else:
                    e = ("field", e, name)
            elif self.at("["):
                self.next()
                if self.at(".."):
                    # `x[..hi]`: the prefix of a slice (only meaningful to `copy_from_slice`, see Emit)
                    self.next()
                    if self.at("]"):
                        fail(self.where + ": full-range index `x[..]` is outside the supported subset")
                    hi = self.expr()
                    self.expect("]")
                    e = ("sliceto", e, hi)
                    continue
                idx = self.expr()
                self.expect("]")
                e = ("index", e, idx)
            elif self.at("?"):
                self.next()
                if self.keep_try:
                    e = ("try", e)
            else:
                return e

    def skip_angle(self):
        self.expect("<")
        depth = 1
        while depth:
            tk = self.next()[1]
            if tk == "<":
                depth += 1
            elif tk == ">":
                depth -= 1
            elif tk == ">>":
                depth -= 2
            elif tk == "":
                fail(self.where + ": unterminated generic arguments")

    def args(self):
        self.expect("(")
        a = []
        while not self.at(")"):
            a.append(self.expr())
            self.eat(",")
        self.expect(")")
        return a

    def primary(self, no_struct):
        k, v = self.peek()
        if k == "num":
            self.next()
            return ("num", parse_int(v))
        if k == "bchar":
            self.next()
            return ("num", parse_bchar(v))
        if k == "bstr":
            self.next()
            return ("array", [("num", b) for b in parse_bstr(v)])
        if k == "str":
            # a string literal: parsed (it occurs in statements under a false `#[cfg]`, which are dropped), translated nowhere
            self.next()
            return ("str", v)
        if v == "(":
            self.next()
            items = []
            trailing = False
            while not self.at(")"):
                items.append(self.expr())
                trailing = self.eat(",")
            self.expect(")")
            if len(items) == 1 and not trailing:
                return items[0]
            return ("tuple", items)
        if v == "[":
            self.next()
            items = []
            while not self.at("]"):
                items.append(self.expr())
                if self.eat(";"):
                    n = self.expr()
                    self.expect("]")
                    return ("repeat", items[0], n)
                self.eat(",")
            self.expect("]")
            return ("array", items)
        if v == "{":
            return self.block()
        if v == "if" and self.keep_try and self.peek(1)[1] == "let":
            # imperative I/O subset: `if let P = e { … } else { … }`
            self.next()
            self.next()
            pat = self.pattern()
            self.expect("=")
            scrut = self.expr(no_struct=True)
            t = self.block()
            e = None
            if self.eat("else"):
                if self.at("if"):
                    fail(self.where + ": `if let … else if` is outside the supported subset")
                e = self.block()
            return ("iflet", pat, scrut, t, e)
        if v == "if":
            self.next()
            c = self.expr(no_struct=True)
            t = self.block()
            e = None
            if self.eat("else"):
                e = self.primary(no_struct) if self.at("if") else self.block()
            return ("if", c, t, e)
        if v == "match":
            self.next()
            scrut = self.expr(no_struct=True)
            self.expect("{")
            def nested_some():
                # is there an arm `Some((` … (a pattern that is more than one binder) in this `match`?
                j, depth = self.i, 0
                while j + 2 < len(self.t):
                    v_ = self.t[j][1]
                    if v_ in ("{", "(", "["):
                        depth += 1
                    elif v_ in ("}", ")", "]"):
                        if depth == 0:
                            return False
                        depth -= 1
                    elif depth == 0 and v_ == "Some" and self.t[j + 1][1] == "(" and self.t[j + 2][1] == "(":
                        return True
                    j += 1
                return False
            if self.keep_try and self.peek()[1] in ("Some", "None") and self.peek(1)[1] in ("(", "=>") and nested_some():
                # imperative I/O subset: `match e { Some(P) => a, None => b }` (either order) is `if let Some(P) = e { a } else { b }`
                oarms = {}
                while not self.at("}"):
                    pat = self.pattern()
                    self.expect("=>")
                    body = self.expr()
                    self.eat(",")
                    key = pat[1] if pat[0] in ("pctor", "pvar") else "?"
                    if key in oarms or key not in ("Some", "None") or (key == "Some") != (pat[0] == "pctor" and len(pat[2]) == 1):
                        fail(self.where + ": `match` on an Option with arms other than one `Some(P)` and one `None` is outside the supported subset")
                    oarms[key] = (pat, body if body[0] == "block" else ("block", [], body))
                self.expect("}")
                if set(oarms) != {"Some", "None"}:
                    fail(self.where + ": `match` on an Option without both a `Some(P)` and a `None` arm is outside the supported subset")
                return ("iflet", oarms["Some"][0], scrut, oarms["Some"][1], oarms["None"][1])
            arms = []
            while not self.at("}"):
                ok = self.attrs()
                path = self.path()
                binder = None
                if self.eat("("):
                    binder = self.next()[1]
                    if binder == "(":
                        self.expect(")")          # `Ok(())`
                        binder = "()"
                    self.expect(")")
                self.expect("=>")
                body = self.expr()
                self.eat(",")
                if ok:
                    arms.append((path, binder, body))
            self.expect("}")
            return ("match", scrut, arms)
        if v in ("panic!", "unimplemented!"):
            self.next()
            self.skip_group()
            return ("panicx",)
        if k == "op" and v == "|":
            # closure `|a, b| body` (only EmitIO translates it, as the argument of `.map`)
            self.next()
            ps = []
            while not self.at("|"):
                ps.append(self.pattern())
                if self.at(":"):
                    fail(self.where + ": closure parameter with a type annotation is outside the supported subset")
                self.eat(",")
            self.expect("|")
            return ("closure", ps, self.expr())
        if v == "return":
            self.next()
            e = self.expr()
            return ("returnx", e)
        if k == "id":
            path = self.path()
            if self.at("("):
                return ("call", path, self.args())
            if path == ["Self"] and self.at("{") and self.keep_try and not no_struct:
                # imperative I/O subset: the struct literal `Self { a, b: e, }` (no `..base`)
                self.next()
                flds = []
                while not self.at("}"):
                    if self.at(".."):
                        fail(self.where + ": `..base` in a struct literal is outside the supported subset")
                    fk, fname = self.next()
                    if fk != "id":
                        fail("%s: unsupported field in a struct literal at %r" % (self.where, fname))
                    flds.append([fname, self.expr() if self.eat(":") else ("path", [fname])])    # a list: not an AST node
                    self.eat(",")
                self.expect("}")
                return ("structlit", "Self", flds)
            return ("path", path)
        fail("%s: unsupported expression at %r (…%s)" % (self.where, v,
             " ".join(x[1] for x in self.t[max(0, self.i - 6):self.i + 4])))

    def path(self):
        segs = [self.next()[1]]
        while self.at("::"):
            self.next()
            if self.at("<"):
                self.skip_angle()
                continue
            segs.append(self.next()[1])
        return segs


def parse_int(s):
    s = re.sub(r"(u8|u16|u32|u64|usize|i32|i64)$", "", s).replace("_", "")
    return int(s, 16) if s.startswith("0x") else int(s)


def parse_bchar(s):
    body = s[2:-1]
    if body.startswith("\\"):
        return {"\\0": 0, "\\n": 10, "\\\\": 92, "\\'": 39}[body]
    return ord(body)


def parse_bstr(s):
    body = s[2:-1]
    out = []
    i = 0
    while i < len(body):
        if body[i] == "\\":
            c = body[i + 1]
            if c == "0":
                out.append(0)
            elif c == "n":
                out.append(10)
            elif c == "\\":
                out.append(92)
            elif c == "x":
                out.append(int(body[i + 2:i + 4], 16))
                i += 2
            else:
                fail("unsupported escape in byte string %r" % s)
            i += 2
        else:
            out.append(ord(body[i]))
            i += 1
    return out


# ----------------------------------------------------------------------------- item lookup
def find_item(src, kind, name, where):
    """returns the token slice of `const NAME … ;` or `fn NAME … { … }`."""
    if kind == "const":
        m = re.search(r"\bconst\s+%s\s*:" % re.escape(name), src)
        if not m:
            fail("%s: const %s not found" % (where, name))
        end = src.index(";", find_top_eq(src, m.end()))
        # arrays may contain ';' ([u8; 8]) in the type: find the '=' first
        eq = find_top_eq(src, m.end())
        depth = 0
        j = eq
        while True:
            c = src[j]
            if c in "([{":
                depth += 1
            elif c in ")]}":
                depth -= 1
            elif c == ";" and depth == 0:
                break
            j += 1
        return src[eq + 1:j]
    if kind == "fn":
        m = re.search(r"\bfn\s+%s\s*(<[^()]*>)?\s*\(" % re.escape(name), src)
        if not m:
            fail("%s: fn %s not found" % (where, name))
        # find body start '{' after the signature
        j = src.index("{", m.end())
        # where-clauses do not occur in the supported functions
        depth = 0
        k = j
        while True:
            c = src[k]
            if c == "{":
                depth += 1
            elif c == "}":
                depth -= 1
                if depth == 0:
                    break
            k += 1
        return src[m.start():k + 1]
    fail("bad kind")


def find_impl(src, header, where, generics=None):
    """returns the text of the one block `impl <header> { … }` (e.g. header `From<u64> for DbU64`).
    `src` must be comment-stripped (the key-type files carry commented-out impls of the same
    shape).  The header is matched token by token, so `From<u64>` does not match `From<&u64>`
    and `for u64` does not match `for DbU64`; generic impls (`impl<…>`) are never selected."""
    lead = r"\bimpl\s+"
    if generics is not None:
        # `impl<T> Header { … }`: the generic parameter list must be exactly `generics`
        lead = r"\bimpl\s*" + r"\s*".join(re.escape(v) for _k, v in tokenize(generics)) + r"\s*"
    pat = lead + r"\s*".join(re.escape(v) for _k, v in tokenize(header)) + r"\s*\{"
    # a word boundary is needed between adjacent identifier tokens (`for DbU64`)
    pat = re.sub(r"(?<=[A-Za-z0-9_])\\s\*(?=[A-Za-z0-9_])", r"\\s+", pat)
    ms = list(re.finditer(pat, src))
    if not ms:
        fail("%s: `impl %s` not found" % (where, header))
    if len(ms) > 1:
        fail("%s: `impl %s` occurs %d times" % (where, header, len(ms)))
    j = ms[0].end() - 1
    depth = 0
    k = j
    while k < len(src):
        c = src[k]
        if c == "{":
            depth += 1
        elif c == "}":
            depth -= 1
            if depth == 0:
                return src[j + 1:k]
        k += 1
    fail("%s: `impl %s`: unterminated block" % (where, header))


def sig_param_names(sig):
    """names of the parameters (not `self`) of a signature given as token texts `( & self , a : T , … ) -> R`"""
    return [n for n, _t in sig_param_types(sig, None)]


def sig_param_types(sig, names):
    """[(name, type text)] of the parameters of a signature (token texts); `names`: the names to report instead (in order)"""
    out, depth, i = [], 0, 0
    if sig and sig[0] == "<":                              # the generic parameter list
        while i < len(sig):
            depth += (sig[i] == "<") - (sig[i] == ">") - 2 * (sig[i] == ">>")
            i += 1
            if depth == 0:
                break
    i0 = i
    while i < len(sig):
        v = sig[i]
        depth += (v in ("(", "[", "<")) - (v in (")", "]", ">")) - 2 * (v == ">>")
        if depth == 0 and i > i0:
            break
        if depth == 1 and is_ident(v) and i + 1 < len(sig) and sig[i + 1] == ":" and sig[i - 1] in ("(", ",", "mut"):
            j, d2, ty = i + 2, 0, ""
            while j < len(sig) and not (d2 == 0 and sig[j] in (",", ")")):
                d2 += (sig[j] in ("(", "[", "<")) - (sig[j] in (")", "]", ">")) - 2 * (sig[j] == ">>")
                ty += sig[j]
                j += 1
            out.append((v, ty))
        i += 1
    if names is not None and len(names) == len(out):
        out = [(n, t) for n, (_o, t) in zip(names, out)]
    return out


def fn_signature(item):
    """the tokens between the function's name and its body:
    `( & self , other : & [ u8 ] ) -> std :: cmp :: Ordering` (compared token-wise)"""
    m = re.match(r"fn\s+[A-Za-z0-9_]+\s*", item)
    return [v for _k, v in tokenize(item[m.end():item.index("{")])]


def find_top_eq(src, start):
    depth = 0
    j = start
    while True:
        c = src[j]
        if c in "([<":
            depth += 1
        elif c in ")]>":
            depth -= 1
        elif c == "=" and depth == 0:
            return j
        j += 1


def strip_comments(src):
    src = re.sub(r"/\*.*?\*/", lambda m: " " * 0 + "\n" * m.group(0).count("\n"), src, flags=re.S)
    src = re.sub(r"//[^\n]*", "", src)
    return src


# ----------------------------------------------------------------------------- property-preserving rewrites
# What the translation pins is the MEANING of the translated code.  A rewrite that keeps it — a local variable / parameter /
# private function renamed consistently, a pure `let` inlined — must not fail; the helpers below compare "up to bound names"
# and rename to the configured (canonical) names, so that the generated terms stay the ones of the unchanged source.
def is_ident(v):
    return re.match(r"^[A-Za-z_][A-Za-z0-9_]*$", v) is not None and v not in RS_KEYWORDS


RS_KEYWORDS = ("self", "Self", "mut", "let", "fn", "if", "else", "match", "for", "in", "while", "loop", "return", "as", "pub",
               "impl", "where", "move", "ref", "true", "false", "crate", "super", "dyn", "struct", "enum", "type", "use", "const",
               "static", "trait", "break", "continue", "unsafe", "_")


def ast_rename(n, ren):
    """the AST with the variables renamed by `ren` (binders and references alike: a consistent renaming of identifiers;
    field names, method names, segments of longer paths, types and string literals are left alone)"""
    if isinstance(n, list):
        return [ast_rename(x, ren) for x in n]
    if not (isinstance(n, tuple) and n and isinstance(n[0], str)):
        if isinstance(n, tuple):
            return tuple(ast_rename(x, ren) for x in n)
        return n
    k = n[0]
    if k == "path":
        return ("path", [ren.get(n[1][0], n[1][0])]) if len(n[1]) == 1 else n
    if k == "pvar":
        return ("pvar", ren.get(n[1], n[1]))
    if k == "pctor":
        return ("pctor", n[1], ast_rename(n[2], ren))
    if k == "call":
        # `func(&mut b)`: a call of a local (a closure parameter)
        return ("call", [ren.get(n[1][0], n[1][0])] if len(n[1]) == 1 else n[1], ast_rename(n[2], ren))
    if k == "match":
        return ("match", ast_rename(n[1], ren),
                [(p, ren.get(b, b) if b is not None else None, ast_rename(body, ren)) for p, b, body in n[2]])
    if k == "structlit":
        return ("structlit", n[1], [[f, ast_rename(e, ren)] for f, e in n[2]])
    if k in ("num", "str", "dassert", "panic", "panicx", "rawtail"):
        return n
    return (k,) + tuple(ast_rename(x, ren) if isinstance(x, (tuple, list)) else x for x in n[1:])


def ast_names(n, out=None):
    """all identifiers that occur as a variable (bound or referred to) or as the head of a one-segment path / call"""
    if out is None:
        out = set()
    if isinstance(n, list) or (isinstance(n, tuple) and not (n and isinstance(n[0], str))):
        for x in n:
            ast_names(x, out)
        return out
    if not isinstance(n, tuple) or not n:
        return out
    k = n[0]
    if k in ("path", "call") and len(n[1]) == 1:
        out.add(n[1][0])
    if k == "pvar":
        out.add(n[1])
    if k == "match":
        for _p, b, _body in n[2]:
            if b is not None:
                out.add(b)
    if k in ("num", "str", "dassert", "panic", "panicx", "rawtail"):
        return out
    for x in n[2:] if k in ("path", "call", "pctor") else n[1:]:
        if isinstance(x, (tuple, list)):
            ast_names(x, out)
    return out


def ast_subst(n, old, new):
    """the AST with every sub-expression equal to `old` replaced by `new`"""
    if n == old:
        return new
    if isinstance(n, list):
        return [ast_subst(x, old, new) for x in n]
    if isinstance(n, tuple):
        if n and n[0] in ("num", "str", "path", "pvar"):
            return n
        return tuple(ast_subst(x, old, new) if isinstance(x, (tuple, list)) else x for x in n)
    return n


def ast_binders(n, out=None):
    """the names that are bound somewhere below `n` (`let`, `for`, `if let` / `while let`, closure parameters, `match` binders)"""
    if out is None:
        out = set()
    for x in io_walk(n):
        if x[0] in ("let", "for", "iflet", "whilelet"):
            out.update(pat_vars(x[1]))
        elif x[0] == "closure":
            for p_ in x[1]:
                out.update(pat_vars(p_))
        elif x[0] == "match":
            out.update(b for _p, b, _body in x[2] if b not in (None, "()"))
    return out


def shadows_cleanly(body, a, c):
    """is the local `c` bound only by `let` statements of the function body itself, the first of them statement i, and is
    the parameter `a` not referred to after statement i (its right-hand side comes before the binding)?  Then calling the
    parameter `c` too makes that `let` shadow it (`let piece_size = piece_size.as_value();`) and changes nothing."""
    if body[0] != "block":
        return False
    tops = [i for i, st in enumerate(body[1]) if st[0] == "let" and c in pat_vars(st[1])]
    inner = sum(1 for x in io_walk(body) if (x[0] in ("let", "for", "iflet", "whilelet") and c in pat_vars(x[1]))
                or (x[0] == "closure" and any(c in pat_vars(p_) for p_ in x[1]))
                or (x[0] == "match" and any(b == c for _p, b, _b in x[2])))
    if not tops or inner != len(tops):
        return False
    i = tops[0]
    later = list(body[1][i + 1:]) + ([body[2]] if body[2] is not None else [])
    if io_mentions_var(later, a) or a in pat_vars(body[1][i][1]):
        return False
    return not io_mentions_var(list(body[1][:i]) + [body[1][i][3]], c)


def rename_params(body, actual, canonical, where, extra_names=()):
    """`body` with the parameters renamed from the names the source gives them (`actual`) to the configured ones
    (`canonical`): the same function (a consistent renaming of bound names), and the generated term is the one of the
    unchanged source.  A local of the body that has a configured name (`let piece_size = size.as_value();` with the parameter
    `size`, configured `piece_size`) is renamed out of the way (a fresh name with a fresh Lean name); fails when a configured
    name stands for something that is not a local of the body (the renaming would capture it)."""
    ren = dict((a, c) for a, c in zip(actual, canonical) if a != c)
    if not ren:
        return body
    names = ast_names(body) | set(actual) | set(extra_names)
    bound = ast_binders(body)
    heads = set(x[1][0] for x in io_walk(body) if x[0] == "call" and len(x[1]) == 1)
    for a, c in sorted(ren.items()):
        if c in names and c not in ren:
            if c in bound and c not in heads and c not in extra_names and shadows_cleanly(body, a, c):
                continue                           # `let c = … a …;` and `a` is dead from there on: `c` shadows the parameter
            if c not in bound or c in heads or c in extra_names:
                fail("%s: the parameter `%s` (configured name `%s`) cannot be renamed: `%s` stands for something else in the function"
                     % (where, a, c, c))
            fresh = c + "_x"
            while fresh in names or lean_ident(fresh) in set(lean_ident(x) for x in names | set(canonical)):
                fresh += "x"
            ren[c] = fresh
            names.add(fresh)
    return ast_rename(body, ren)


def sig_eq_renamed(got, want):
    """signatures as token texts (`( & mut self , a : T , … ) -> R`): equal up to the NAMES of the parameters?
    -> [(configured name, name in the source)] in order, or None.  The names must be distinct identifiers on both sides."""
    if len(got) != len(want):
        return None
    pairs, depth, done = [], 0, False
    for i, (g, w) in enumerate(zip(got, want)):
        if g == "(" and w == "(":
            depth += 1
        elif g == ")" and w == ")":
            depth -= 1
            done = done or depth == 0                      # (the parameter list is the first group; a `where` clause may have others)
        name_pos = (depth == 1 and not done and i + 1 < len(want) and want[i + 1] == ":" and got[i + 1] == ":" and i > 0
                    and want[i - 1] in ("(", ",", "mut") and got[i - 1] == want[i - 1] and is_ident(w) and is_ident(g))
        if name_pos:
            pairs.append((w, g))
        elif g != w:
            return None
    if len(set(p[0] for p in pairs)) != len(pairs) or len(set(p[1] for p in pairs)) != len(pairs):
        return None
    return pairs


def toks_locals(ts):
    """names bound inside an item given as token texts: the parameters of a `fn` (`name :` at depth 1 of its parameter
    list), `let [mut] x` / `let (a, b)`, `for x in`, closure parameters `|a, b|`, the binder of a constructor pattern `Some(x)` /
    `Err(x)` / `Enum::Variant(x)` (followed by `=>` / `=`)"""
    out = set()
    n = len(ts)
    for i, v in enumerate(ts):
        if v == "fn":
            j = i + 2
            if j < n and ts[j] == "<":
                depth = 0
                while j < n:
                    depth += (ts[j] == "<") - (ts[j] == ">") - 2 * (ts[j] == ">>")
                    j += 1
                    if depth == 0:
                        break
            if j < n and ts[j] == "(":
                depth = 0
                while j < n:
                    depth += (ts[j] in ("(", "[", "<")) - (ts[j] in (")", "]", ">")) - 2 * (ts[j] == ">>")
                    if depth == 0:
                        break
                    if depth == 1 and is_ident(ts[j]) and j + 1 < n and ts[j + 1] == ":" and ts[j - 1] in ("(", ",", "mut"):
                        out.add(ts[j])
                    j += 1
        elif v in ("let", "for"):
            j = i + 1
            while j < n and ts[j] not in ("=", ":", "in", ";"):
                if is_ident(ts[j]) and not (j + 1 < n and ts[j + 1] == "(") and ts[j - 1] not in (".", "::"):
                    out.add(ts[j])
                j += 1
        elif v == "|" and (i == 0 or ts[i - 1] in ("(", ",", "=", "{", ";", "return", "move")):
            j = i + 1
            while j < n and ts[j] != "|":
                if is_ident(ts[j]):
                    out.add(ts[j])
                j += 1
        elif v[:1].isupper() and is_ident(v) and i + 4 < n and ts[i + 1] == "(" and is_ident(ts[i + 2]) and ts[i + 3] == ")" \
                and ts[i + 4] in ("=>", "="):
            out.add(ts[i + 2])                             # `Some(x) =>`, `FileBufSizeParam::Size(val) =>`, `if let Some(x) =`
    return out


def toks_eq_renamed(got, want):
    """token texts of an item: equal up to a bijective renaming of the names bound inside it (toks_locals)?
    -> {name in `want`: name in `got`} or None.  A position counts as a use of a local when the token is a bound name of
    its side and does not follow `.` / `::` / `'`; the two sides must agree on which positions these are; a new name must
    not be one that the configured text uses for something else."""
    if len(got) != len(want):
        return None
    if got == want:
        return {}
    lw, lg = toks_locals(want), toks_locals(got)
    fwd, bwd, other = {}, {}, set()
    for i, (g, w) in enumerate(zip(got, want)):
        wl = w in lw and (i == 0 or want[i - 1] not in (".", "::", "'"))
        gl = g in lg and (i == 0 or got[i - 1] not in (".", "::", "'"))
        if wl != gl:
            return None
        if wl:
            if fwd.setdefault(w, g) != g or bwd.setdefault(g, w) != w:
                return None
        else:
            if g != w:
                return None
            if i == 0 or want[i - 1] not in (".", "::", "'"):
                other.add(w)                       # (a field / method name cannot be captured by a local)
    for w, g in fwd.items():
        if g != w and g in other:
            return None
    return fwd


def fn_visibility(toks, s):
    """visibility of the item whose tokens start at `s`: "pub" (public), "restricted" (`pub(crate)` / `pub(super)` / …),
    "private"; and the index of the token after it"""
    if toks[s][1] != "pub":
        return "private", s
    if toks[s + 1][1] == "(":
        j = s + 1
        while toks[j][1] != ")":
            j += 1
        return "restricted", j + 1
    return "pub", s + 1


class Aliases:
    """private functions that the source has renamed: (owner, configured name) <-> the name in the source.
    A configured function that is not found under its name is looked for among the functions of the same `impl` block
    (free functions: of the same file) that are not configured themselves, are not `pub`, and have the configured signature
    up to the names of the parameters; there must be exactly one.  Calls are resolved by the name in the SOURCE
    (`src_to_cfg`): a call of the new name is the configured function, a call of the old name is unknown."""

    def __init__(self):
        self.new_of = {}              # (owner, configured name) -> name in the source
        self.old_of = {}              # (owner, name in the source) -> configured name
        self.used = set()             # (owner, configured name) of the aliases a translated caller went through
        self.where = {}               # (owner, configured name) -> (where, the message of the failed lookup)

    def add(self, owner, cfg, src):
        self.new_of[(owner, cfg)] = src
        self.old_of[(owner, src)] = cfg

    def src_to_cfg(self, owner, name):
        """the configured name of the function that the source calls `name`"""
        if (owner, name) in self.old_of:
            self.used.add((owner, self.old_of[(owner, name)]))
            return self.old_of[(owner, name)]
        if (owner, name) in self.new_of:
            return "<renamed to %s>" % self.new_of[(owner, name)]     # the old name: it no longer names this function
        return name

    def note(self, owner, cfg):
        return " (renamed in the source: %s)" % self.new_of[(owner, cfg)] if (owner, cfg) in self.new_of else ""


ALIASES = Aliases()


# ----------------------------------------------------------------------------- emission
WIDTH = {"u8": 8, "u16": 16, "u32": 32, "u64": 64, "usize": 64}
BYTES = "[u8]"                                   # type tag of byte sequences (`&[u8]`, `Vec<u8>`): `List Nat`
BYTES_IDENTITY = ("as_slice", "as_ref", "to_vec")   # methods that are the identity on `List Nat`


class Emit:
    """translates a parsed function body to a Lean term (string)."""

    def __init__(self, where, subst, consts, partial_fns, var_types, self_arrays):
        self.state_vars = {}
        self.pure_fns = {}
        self.default_int = None
        self.where = where
        self.subst = subst            # rust expr text -> (lean name, type)
        self.consts = consts          # rust const name -> lean name
        self.partial_fns = partial_fns
        self.vt = dict(var_types)     # variable -> type
        self.self_arrays = self_arrays
        self.partial = False
        self.notes = []
        self.newtypes = set()         # tuple-struct newtypes over Vec<u8> whose constructor is erased
        self.static_len = {}          # local array variable -> its fixed length (`let mut a = [0u8; 8]`)
        self.len_alias = {}           # immutable local `n` bound by `let n = S.len()` -> Lean text of S
        self.facts = []               # ("lt"|"ge", var, K) known from the enclosing `if var < K` branches
        self.drop_alias = {}          # local bound by a `let` that is configured to be dropped -> text of its right-hand side
        self.rel = None               # file of the function (calls of a renamed private function: ALIASES)

    # -- canonical text of an expression for substitution lookup
    def text(self, e):
        k = e[0]
        if k == "path":
            if len(e[1]) == 1 and e[1][0] in self.drop_alias:
                return self.drop_alias[e[1][0]]            # `let key = self.key.as_bytes();` (dropped): `key` is that text
            return "::".join(e[1])
        if k == "field":
            return self.text(e[1]) + "." + e[2]
        if k == "mcall":
            return self.text(e[1]) + "." + e[2] + "(" + ",".join(self.text(a) for a in e[3]) + ")"
        if k == "num":
            return str(e[1])
        if k == "cast":
            return self.text(e[1]) + " as " + e[2]
        return "<%s>" % k

    def ty(self, e):
        """type of an expression if known, else None."""
        t = self.text(e)
        if t in self.subst:
            return self.subst[t][1]
        k = e[0]
        if k == "cast":
            return e[2]
        if k == "path" and len(e[1]) == 1:
            return self.vt.get(e[1][0])
        if k == "field" and t in self.state_vars:
            return self.vt.get(self.state_vars[t])
        if k == "mcall":
            if e[2] in ("len",):
                return "usize"
            if e[2] in ("as_value", "into", "next_power_of_two", "wrapping_add"):
                return self.ty(e[1])
            if e[2] in BYTES_IDENTITY and not e[3] and self.ty(e[1]) == BYTES:
                return BYTES
            if e[2] in ("to_le_bytes", "to_be_bytes") and not e[3] and self.ty(e[1]) in ("u64", "i64"):
                return BYTES
        if k == "call":
            name = e[1][-1]
            if name == "new" and len(e[2]) == 1:
                return self.ty(e[2][0])
            if name == "from" and len(e[1]) == 2 and e[1][0] in WIDTH and len(e[2]) == 1:
                return e[1][0]
            if "::".join(e[1]) == "vu64::encoded_len":
                return "u8"
            if "::".join(e[1]) == "vu64::encode":
                return BYTES
            if "::".join(e[1]) == "u64::from_le_bytes":
                return "u64"
            if "::".join(e[1]) == "i64::from_le_bytes":
                return "i64"
            if len(e[1]) == 1 and name in self.newtypes and len(e[2]) == 1:
                return self.ty(e[2][0])
        if k == "bin":
            a, b = self.ty(e[2]), self.ty(e[3])
            if e[1] in ("==", "!=", "<", ">", "<=", ">=", "&&", "||"):
                return "bool"
            if e[1] in ("<<", ">>"):
                return a
            return a or b
        return None

    def ex(self, e):
        t = self.text(e)
        if t in self.subst:
            return self.subst[t][0]
        k = e[0]
        if k == "num":
            return str(e[1])
        if k == "path":
            p = e[1]
            if len(p) == 1:
                if p[0] in self.consts:
                    return self.consts[p[0]]
                if p[0] in ("true", "false"):
                    return p[0]
                return lean_ident(p[0])
            name = "::".join(p)
            if p[-1] in self.consts:
                return self.consts[p[-1]]
            fail("%s: unsupported path %s" % (self.where, name))
        if k == "field":
            # self.size_ary etc.
            t = self.text(e)
            if t in self.self_arrays:
                return self.self_arrays[t]
            if t in self.state_vars:
                return self.state_vars[t]
            fail("%s: unsupported field access %s" % (self.where, t))
        if k == "cast":
            inner = self.ex(e[1])
            src = self.ty(e[1])
            dst = e[2]
            if dst not in WIDTH:
                fail("%s: unsupported cast to %s" % (self.where, dst))
            if src == "i64" or src == BYTES:
                fail("%s: unsupported cast from %s" % (self.where, src))
            if src in WIDTH and WIDTH[src] <= WIDTH[dst]:
                return inner
            if e[1][0] == "num" and e[1][1] < 2 ** WIDTH[dst]:
                return inner
            return "(%s %% 2^%d)" % (inner, WIDTH[dst])
        if k == "bin":
            op = e[1]
            a, b = self.ex(e[2]), self.ex(e[3])
            if "i64" in (self.ty(e[2]), self.ty(e[3])):
                fail("%s: arithmetic/comparison on i64 (`%s`) is outside the supported subset" % (self.where, op))
            if op == "<<":
                w = WIDTH.get(self.ty(e[2]) or "", None)
                if w is None:
                    fail("%s: `<<` on an operand of unknown width: %s" % (self.where, self.text(e[2])))
                return "((%s <<< %s) %% 2^%d)" % (a, b, w)
            lop = {"+": "+", "-": "-", "*": "*", "/": "/", "%": "%", ">>": ">>>", "^": "^^^",
                   "|": "|||", "&": "&&&", "==": "==", "!=": "!=", "<": "<", ">": ">",
                   "<=": "≤", ">=": "≥", "&&": "&&", "||": "||"}[op]
            if op in ("<", ">", "<=", ">=", "==", "!="):
                return "(decide (%s %s %s))" % (a, {"==": "=", "!=": "≠"}.get(op, lop), b)
            return "(%s %s %s)" % (a, lop, b)
        if k == "not":
            return "(!%s)" % self.ex(e[1])
        if k == "mcall":
            recv, name, args = e[1], e[2], e[3]
            if name in ("as_value", "into", "clone", "iter"):
                return self.ex(recv)
            if name == "len":
                return "(%s).length" % self.ex(recv)
            if name == "take":
                return "((%s).take %s)" % (self.ex(recv), self.ex(args[0]))
            if name == "chunks":
                return "(chunksOf %s %s)" % (self.ex(args[0]), self.atom(recv))
            if name == "next_power_of_two":
                return "(nextPowerOfTwo %s)" % self.ex(recv)
            if name in BYTES_IDENTITY and not args:
                # `.as_slice()` / `.as_ref()` / `.to_vec()` on a byte sequence: the same `List Nat`
                if self.ty(recv) != BYTES:
                    fail("%s: .%s() on something that is not known to be a byte sequence: %s"
                         % (self.where, name, self.text(recv)))
                return self.ex(recv)
            if name in ("to_le_bytes", "to_be_bytes") and not args:
                t = self.ty(recv)
                if t == "u64":
                    v = self.atom(recv)
                elif t == "i64":
                    # two's complement: the 64-bit pattern of an `Int` in [-2^63, 2^63)
                    v = "(%s %% 2^64).toNat" % self.atom(recv)
                else:
                    fail("%s: .%s() on an operand that is not u64/i64: %s" % (self.where, name, self.text(recv)))
                if name == "to_le_bytes":
                    return "(Abyss.Vu64.leBytes %s 8)" % v
                return "(beBytes %s 8)" % v
            if name == "cmp" and len(args) == 1:
                ta, tb = self.ty(recv), self.ty(args[0])
                if ta == BYTES and tb == BYTES:
                    return "(cmpBytes %s %s)" % (self.atom(recv), self.atom(args[0]))
                if ta in WIDTH and ta == tb:
                    return "(compare %s %s)" % (self.atom(recv), self.atom(args[0]))
                fail("%s: `.cmp()` on operands of unsupported or different types (%s, %s): %s"
                     % (self.where, ta, tb, self.text(e)))
            if name == "unwrap":
                fail("%s: `.unwrap()` is only supported on `vu64::decode(..)` in a `let` or in tail position: %s"
                     % (self.where, self.text(e)))
            if name == "wrapping_add":
                w = WIDTH.get(self.ty(recv) or "", None)
                if w is None:
                    fail("%s: wrapping_add on unknown width" % self.where)
                return "((%s + %s) %% 2^%d)" % (self.ex(recv), self.ex(args[0]), w)
            fail("%s: unsupported method .%s()" % (self.where, name))
        if k == "index":
            return "(%s).getD %s 0" % (self.ex(e[1]), self.ex(e[2]))
        if k == "call":
            name = "::".join(e[1])
            if e[1][-1] == "new" and len(e[2]) == 1:
                return self.ex(e[2][0])                       # newtype constructor erased
            if len(e[1]) == 2 and e[1][1] == "from" and e[1][0] in WIDTH and len(e[2]) == 1 and self.ty(e[2][0]) in WIDTH \
                    and WIDTH[self.ty(e[2][0])] <= WIDTH[e[1][0]]:
                return self.ex(("cast", e[2][0], e[1][0]))       # `u64::from(x)` (lossless) is `x as u64`
            if name == "vu64::encoded_len":
                return "(Abyss.Vu64.encodedLen %s)" % self.ex(e[2][0])
            if name == "u64::from_be_bytes" and len(e[2]) == 1:
                return "(beVal %s)" % self.atom(e[2][0])
            if name in ("u64::from_le_bytes", "i64::from_le_bytes") and len(e[2]) == 1:
                a = e[2][0]
                if not (a[0] == "path" and len(a[1]) == 1 and self.static_len.get(a[1][0]) == 8):
                    fail("%s: %s of something that is not a local array of 8 bytes: %s"
                         % (self.where, name, self.text(a)))
                v = "(Abyss.Vu64.ofLeBytes %s)" % self.atom(a)
                return v if name.startswith("u64") else "(toI64 %s)" % v
            if name == "vu64::encode" and len(e[2]) == 1:
                if self.ty(e[2][0]) != "u64":
                    fail("%s: vu64::encode of an operand that is not u64: %s" % (self.where, self.text(e[2][0])))
                return "(Abyss.Vu64.encode %s)" % self.atom(e[2][0])
            if name == "vu64::decode":
                fail("%s: `vu64::decode(..)` is only supported as `vu64::decode(..).unwrap()` in a `let` or in tail position"
                     % self.where)
            if len(e[1]) == 1 and name in self.newtypes and len(e[2]) == 1:
                # tuple-struct newtype over Vec<u8>: constructor erased
                if self.ty(e[2][0]) != BYTES:
                    fail("%s: %s(..) of something that is not known to be a byte sequence: %s"
                         % (self.where, name, self.text(e[2][0])))
                return self.ex(e[2][0])
            if len(e[1]) == 1 and ALIASES.src_to_cfg(self.rel, e[1][-1]) in self.pure_fns:
                return "(%s %s)" % (self.pure_fns[ALIASES.src_to_cfg(self.rel, e[1][-1])], " ".join(self.atom(a) for a in e[2]))
            if name in self.partial_fns or ALIASES.src_to_cfg(self.rel, e[1][-1]) in self.partial_fns:
                fail("%s: call of partial function %s outside tail position" % (self.where, name))
            if name == "std::mem::size_of_val":
                fail("%s: size_of_val unsupported" % self.where)
            fail("%s: unsupported call %s" % (self.where, name))
        if k == "tuple":
            return "(" + ", ".join(self.ex(x) for x in e[1]) + ")"
        if k == "array":
            return "[" + ", ".join(self.ex(x) for x in e[1]) + "]"
        if k == "repeat":
            return "(List.replicate %s %s)" % (self.ex(e[2]), self.ex(e[1]))
        if k == "sliceto":
            fail("%s: range index `%s[..%s]` outside of `copy_from_slice`" % (self.where, self.text(e[1]), self.text(e[2])))
        if k == "block":
            return "(" + self.seq(e[1], e[2], wrap=False) + ")"
        if k == "if":
            if e[3] is None:
                fail("%s: `if` without else in expression position" % self.where)
            return "(if %s then %s else %s)" % (self.cond(e[1]), self.ex(e[2]), self.ex(e[3]))
        fail("%s: unsupported expression kind %s" % (self.where, k))

    def cond(self, e):
        s = self.ex(e)
        return s

    def decode_unwrap(self, e):
        """if `e` is `vu64::decode(X).unwrap()`: the Lean text of X, else None."""
        if not (e[0] == "mcall" and e[2] == "unwrap" and not e[3]):
            return None
        c = e[1]
        if not (c[0] == "call" and "::".join(c[1]) == "vu64::decode" and len(c[2]) == 1):
            return None
        if self.ty(c[2][0]) != BYTES:
            fail("%s: vu64::decode of something that is not known to be a byte sequence: %s"
                 % (self.where, self.text(c[2][0])))
        return self.atom(c[2][0])

    def cond_facts(self, c, positive):
        """facts about local variables that hold in the then- (positive) / else-branch of `if c`"""
        if c[0] == "bin" and c[1] == "<" and c[2][0] == "path" and len(c[2][1]) == 1 and c[3][0] == "num":
            return [("lt" if positive else "ge", c[2][1][0], c[3][1])]
        return []

    def copy_from_slice(self, tgt, src):
        """`tgt.copy_from_slice(src)`: (Lean variable, its new value).  `copy_from_slice` panics
        unless both sides have the same length, and a range index panics when out of bounds; the
        shapes accepted here are those where this is excluded syntactically, so no panic path
        has to be modelled:
          A. `a[..n].copy_from_slice(S)`, `a` a local array of fixed length L, `n` bound by
             `let n = S.len()`, inside the then-branch of `if n < K` with K ≤ L:   a := S ++ a.drop n
          B. `a.copy_from_slice(&S[..K])`, `a` a local array of fixed length K, inside a branch
             where `m ≥ K'` is known for `let m = S.len()`, K ≤ K':               a := S.take K
          C. `a.copy_from_slice(v)` for a plain variable `v` (as in MyHasher::write, where the
             branch condition `len == 8` is what makes the lengths agree):          a := v
        """
        if tgt[0] == "sliceto":
            base, hi = tgt[1], tgt[2]
            if not (base[0] == "path" and len(base[1]) == 1 and base[1][0] in self.static_len):
                fail("%s: copy_from_slice into a range of something that is not a local fixed-length array: %s"
                     % (self.where, self.text(base)))
            a = base[1][0]
            L = self.static_len[a]
            if src[0] == "sliceto" or self.ty(src) != BYTES:
                fail("%s: copy_from_slice into `%s[..]` from an unsupported source" % (self.where, a))
            sx = self.ex(src)
            if not (hi[0] == "path" and len(hi[1]) == 1 and self.len_alias.get(hi[1][0]) == sx):
                fail("%s: `%s[..%s].copy_from_slice(%s)`: the bound is not syntactically the length of the source"
                     % (self.where, a, self.text(hi), self.text(src)))
            n = hi[1][0]
            if not any(f[0] == "lt" and f[1] == n and f[2] <= L for f in self.facts):
                fail("%s: `%s[..%s]`: no enclosing `if %s < K` with K ≤ %d" % (self.where, a, n, n, L))
            av = lean_ident(a)
            return av, "(%s ++ (%s).drop %s)" % (self.atom(src), av, lean_ident(n))
        if src[0] == "sliceto":
            if not (tgt[0] == "path" and len(tgt[1]) == 1 and tgt[1][0] in self.static_len):
                fail("%s: copy_from_slice of a range into something that is not a local fixed-length array: %s"
                     % (self.where, self.text(tgt)))
            a = tgt[1][0]
            L = self.static_len[a]
            base, hi = src[1], src[2]
            if self.ty(base) != BYTES:
                fail("%s: range index on something that is not known to be a byte sequence: %s"
                     % (self.where, self.text(base)))
            if not (hi[0] == "num" and hi[1] == L):
                fail("%s: `%s.copy_from_slice(&%s[..%s])`: the range is not the length %d of the array"
                     % (self.where, a, self.text(base), self.text(hi), L))
            bx = self.ex(base)
            if not any(f[0] == "ge" and self.len_alias.get(f[1]) == bx and f[2] >= L for f in self.facts):
                fail("%s: `%s[..%d]`: not inside a branch where the length is known to be ≥ %d"
                     % (self.where, self.text(base), L, L))
            return lean_ident(a), "((%s).take %d)" % (bx, L)
        if tgt[0] == "path" and len(tgt[1]) == 1:
            self.static_len.pop(tgt[1][0], None)       # the new length is that of `src`, not known here
        return self.var_name(tgt), self.ex(src)

    def var_name_text(self, t):
        if t in self.state_vars:
            return self.state_vars[t]
        return lean_ident(t)

    def var_name(self, e):
        return self.var_name_text(self.text(e))

    def tailx(self, e, wrap):
        """expression in tail/return position of a (possibly partial) function."""
        if e is not None and e[0] == "rawtail":
            return e[1]
        if e is None:
            fail(self.where + ": missing tail expression")
        if e[0] == "panicx":
            self.partial = True
            return "none"
        if e[0] == "returnx":
            return self.tailx(e[1], wrap)
        if e[0] == "block":
            return "(" + self.seq(e[1], e[2], wrap) + ")"
        if e[0] == "if" and e[3] is not None:
            return "(if %s then %s else %s)" % (self.cond(e[1]), self.tailx(e[2], wrap), self.tailx(e[3], wrap))
        if e[0] == "match":
            return self.match(e, wrap)
        if e[0] == "call" and (ALIASES.src_to_cfg(self.rel, e[1][-1]) in self.partial_fns):
            self.partial = True
            return "(%s %s)" % (self.partial_fns[ALIASES.src_to_cfg(self.rel, e[1][-1])], " ".join(self.atom(a) for a in e[2]))
        d = self.decode_unwrap(e)
        if d is not None:
            # `vu64::decode(X).unwrap()`: panics (none) when X is not a vu64
            self.partial = True
            return "((Abyss.Vu64.decode %s).map (·.1))" % d
        s = self.ex(e)
        return ("(some %s)" % s) if wrap else s

    def atom(self, e):
        s = self.ex(e)
        return s if re.match(r"^[A-Za-z0-9_.']+$", s) else "(" + s + ")"

    def match(self, e, wrap):
        scrut = self.text(e[1])
        if scrut not in self.subst:
            fail("%s: match on %s is not configured" % (self.where, scrut))
        out = "(match %s with" % self.subst[scrut][0]
        for path, binder, body in e[2]:
            ctor = "." + lean_ident(lower_first(path[-1]))
            if binder:
                self.vt[binder] = "u64"
                out += " | %s %s => %s" % (ctor, lean_ident(binder), self.tailx(body, wrap))
            else:
                out += " | %s => %s" % (ctor, self.tailx(body, wrap))
        return out + ")"

    def forget(self, v):
        """a (re)declared or assigned variable: what was known about its former value is dropped"""
        self.static_len.pop(v, None)
        self.len_alias.pop(v, None)
        self.drop_alias.pop(v, None)
        self.facts = [f for f in self.facts if f[1] != v]
        for n in [n for n, sx in self.len_alias.items() if mentions(sx, lean_ident(v))]:
            del self.len_alias[n]

    def known(self):
        return (dict(self.static_len), dict(self.len_alias), list(self.facts))

    def after_branches(self, before, states, assigned):
        """what is still known after control flow joins: known before, unchanged in every branch,
        and not about a variable that a branch assigns"""
        for v in assigned:
            self.forget(v)
        out = []
        for i in (0, 1):
            out.append({v: x for v, x in before[i].items() if all(st[i].get(v) == x for st in states)})
        self.static_len, self.len_alias = out
        self.facts = [f for f in before[2] if f[1] not in assigned and all(f in st[2] for st in states)]

    def bind(self, pat):
        if pat[0] == "pvar":
            return lean_ident(pat[1])
        return "(" + ", ".join(self.bind(p) for p in pat[1]) + ")"

    def seq(self, stmts, tail, wrap):
        """statement list + tail -> Lean term."""
        if not stmts:
            return self.tailx(tail, wrap)
        st, rest = stmts[0], stmts[1:]
        k = st[0]
        if k == "dassert":
            self.notes.append("dropped " + st[1])
            return self.seq(rest, tail, wrap)
        if k == "let":
            _, pat, ty, e, _mut = st
            txt = self.text(e)
            if txt in self.subst and self.subst[txt][0] is None:
                if pat[0] == "pvar" and not _mut:
                    self.drop_alias[pat[1]] = txt              # what the local stands for, whatever it is called
                return self.seq(rest, tail, wrap)              # configured to be dropped
            d = self.decode_unwrap(e)
            if d is not None:
                # `let x: u64 = vu64::decode(X).unwrap();` panics (none) when X is not a vu64
                if pat[0] != "pvar" or ty != "u64":
                    fail("%s: `let … = vu64::decode(..).unwrap()` must bind one variable annotated `u64`" % self.where)
                self.partial = True
                self.forget(pat[1])
                self.vt[pat[1]] = "u64"
                return "match Abyss.Vu64.decode %s with\n  | none => none\n  | some (%s, _) =>\n  %s" % (
                    d, lean_ident(pat[1]), self.seq(rest, tail, wrap))
            rhs = self.ex(e)
            t = (ty if ty in WIDTH else None) or self.ty(e)
            alias = None
            if e[0] == "mcall" and e[2] == "len" and not e[3] and not _mut and self.ty(e[1]) == BYTES:
                alias = self.ex(e[1])                          # `let n = S.len()`
            for v in pat_vars(pat):
                self.forget(v)
            if pat[0] == "pvar":
                if e[0] == "repeat" and e[1] == ("num", 0) and e[2][0] == "num":
                    self.static_len[pat[1]] = e[2][1]          # `let mut a = [0u8; N]`
                if alias is not None and not mentions(alias, lean_ident(pat[1])):
                    self.len_alias[pat[1]] = alias
            if t is None and e[0] == "num" and _mut:
                t = self.default_int or None
            if pat[0] == "pvar" and t:
                self.vt[pat[1]] = t
            if pat[0] == "ptuple" and e[0] == "block" and e[2] is not None and e[2][0] == "tuple":
                # types of tuple components from the block's tail
                saved = dict(self.vt)
                for s2 in e[1]:
                    if s2[0] == "let" and s2[1][0] == "pvar":
                        tt = (s2[2] if s2[2] in WIDTH else None) or self.ty(s2[3])
                        if tt:
                            self.vt[s2[1][1]] = tt
                for p, comp in zip(pat[1], e[2][1]):
                    tt = self.ty(comp)
                    if p[0] == "pvar" and tt:
                        saved[p[1]] = tt
                self.vt = saved
            return "let %s := %s\n  %s" % (self.bind(pat), rhs, self.seq(rest, tail, wrap))
        if k == "assign":
            _, op, lhs, rhs = st
            if self.text(lhs) in self.state_vars:
                v = self.state_vars[self.text(lhs)]
                new = self.ex(rhs) if op == "=" else self.ex(("bin", op[:-1], lhs, rhs))
                return "let %s := %s\n  %s" % (v, new, self.seq(rest, tail, wrap))
            if lhs[0] != "path" or len(lhs[1]) != 1:
                fail("%s: unsupported assignment target %s" % (self.where, self.text(lhs)))
            v = lhs[1][0]
            if op == "=":
                new = self.ex(rhs)
            else:
                new = self.ex(("bin", op[:-1], lhs, rhs))
            self.forget(v)
            return "let %s := %s\n  %s" % (lean_ident(v), new, self.seq(rest, tail, wrap))
        if k == "expr":
            e = st[1]
            if e[0] == "block":
                # plain nested block: its statements act on the enclosing variables
                if e[2] is not None:
                    fail(self.where + ": nested block with a value in statement position")
                return self.seq(list(e[1]) + list(rest), tail, wrap)
            if e[0] == "mcall" and e[2] == "copy_from_slice" and len(e[3]) == 1:
                # `x.copy_from_slice(src)` with equal lengths: x := src
                tgt, new = self.copy_from_slice(e[1], e[3][0])
                return "let %s := %s\n  %s" % (tgt, new, self.seq(rest, tail, wrap))
            if e[0] == "if" and e[3] is not None and e[3][0] == "block" and e[2][2] is None and e[3][2] is None:
                # statement `if c { … } else { … }` that only assigns outer variables
                vs = assigned_vars(e[2][1] + e[3][1], self)
                if not vs:
                    fail("%s: `if` statement without effect" % self.where)
                names = [self.var_name_text(v) for v in vs]
                tup = names[0] if len(names) == 1 else "(" + ", ".join(names) + ")"
                saved = dict(self.vt)
                known = self.known()
                c = self.cond(e[1])
                self.facts = known[2] + self.cond_facts(e[1], True)
                a = self.seq(e[2][1], ("rawtail", tup), False)
                ka = self.known()
                self.vt = dict(saved)
                self.static_len, self.len_alias = dict(known[0]), dict(known[1])
                self.facts = known[2] + self.cond_facts(e[1], False)
                b = self.seq(e[3][1], ("rawtail", tup), False)
                kb = self.known()
                self.vt = saved
                self.after_branches(known, [ka, kb], [v for v in vs if v not in self.state_vars])
                return "let %s := if %s then (%s) else (%s)\n  %s" % (tup, c, a, b, self.seq(rest, tail, wrap))
            if e[0] == "if" and e[3] is None:
                then = e[2]
                # `if c { return e; }` / `if c { panic!() }`
                last = then[1][-1] if then[1] else None
                if then[2] is None and last is not None and last[0] in ("return", "panic") and len(then[1]) == 1:
                    if last[0] == "panic":
                        self.partial = True
                        tv = "none"
                    else:
                        tv = self.tailx(last[1], wrap)
                    return "if %s then %s else\n  %s" % (self.cond(e[1]), tv, self.seq(rest, tail, wrap))
                if then[2] is not None and then[2][0] == "panicx" and not then[1]:
                    self.partial = True
                    return "if %s then none else\n  %s" % (self.cond(e[1]), self.seq(rest, tail, wrap))
                fail("%s: unsupported `if` statement shape" % self.where)
            fail("%s: unsupported expression statement %s" % (self.where, e[0]))
        if k == "for" and assigned_vars(st[3][1], self):
            # loop that updates outer variables: a left fold over the iterated list
            _, pat, it, body = st
            vs = assigned_vars(body[1], self)
            names = [self.var_name_text(v) for v in vs]
            tup = names[0] if len(names) == 1 else "(" + ", ".join(names) + ")"
            if body[2] is not None:
                fail(self.where + ": `for` body with a value")
            itx = self.iter(it)
            known = self.known()
            for v in pat_vars(pat):
                self.forget(v)
            if pat[0] == "pvar" and self.elem_ty(it) is not None:
                self.vt[pat[1]] = self.elem_ty(it)  # `for b in bytes`: a `u8`; `for c in bytes.chunks(n)`: a byte sequence
            for v in vs:
                if v not in self.state_vars:
                    self.forget(v)                 # the body sees the result of any number of rounds
            inner = self.seq(body[1], ("rawtail", tup), False)
            self.after_branches(known, [self.known()], [v for v in vs if v not in self.state_vars])
            return "let %s := (%s).foldl (fun %s %s =>\n    %s) %s\n  %s" % (
                tup, itx, tup, self.bind(pat), inner, tup, self.seq(rest, tail, wrap))
        if k == "for":
            _, pat, it, body = st
            # shape: for PAT in ITER { if COND { return E; } }
            b = body[1]
            if not (len(b) == 1 and body[2] is None and b[0][0] == "expr" and b[0][1][0] == "if"
                    and b[0][1][3] is None):
                fail("%s: unsupported `for` body (only `if c { return e; }`)" % self.where)
            ife = b[0][1]
            then = ife[2]
            if not (len(then[1]) == 1 and then[1][0][0] == "return" and then[2] is None):
                fail("%s: unsupported `for` body (only `if c { return e; }`)" % self.where)
            if it[0] == "bin" and it[1] == "..":
                fail(self.where + ": range parsed as binary")
            itx = self.iter(it)
            v = self.bind(pat)
            cond = self.cond(ife[1])
            ret = self.tailx(then[1][0][1], wrap)
            return "match (%s).find? (fun %s => %s) with\n  | some %s => %s\n  | none =>\n  %s" % (
                itx, v, cond, v, ret, self.seq(rest, tail, wrap))
        if k == "return":
            return self.tailx(st[1], wrap)
        if k == "panic":
            self.partial = True
            return "none"
        if k == "while":
            fail(self.where + ": `while` loops are outside the supported subset of pure functions")
        fail("%s: unsupported statement %s" % (self.where, k))

    def elem_ty(self, it):
        """type of the elements a `for` iterates over, where it is evident"""
        while it[0] == "mcall" and it[2] == "iter" and not it[3]:
            it = it[1]
        if it[0] == "mcall" and it[2] == "chunks" and len(it[3]) == 1 and self.ty(it[1]) == BYTES:
            return BYTES
        if self.ty(it) == BYTES:
            return "u8"
        return None

    def iter(self, it):
        if it[0] == "range":
            return "(List.range' %s (%s - %s))" % (self.ex(it[1]), self.ex(it[2]), self.ex(it[1]))
        return self.ex(it)


def assigned_vars(stmts, emit):
    """names (rust text) of variables assigned (not declared) in a statement list, in order"""
    out = []
    declared = set()

    def visit(sts):
        for st in sts:
            k = st[0]
            if k == "let" and st[1][0] == "pvar":
                declared.add(st[1][1])
            elif k == "assign":
                t = emit.text(st[2])
                if t not in declared and t not in out:
                    out.append(t)
            elif k == "expr":
                e = st[1]
                if e[0] == "if":
                    visit(e[2][1])
                    if e[3] is not None and e[3][0] == "block":
                        visit(e[3][1])
                elif e[0] == "block":
                    visit(e[1])
                elif e[0] == "mcall" and e[2] == "copy_from_slice":
                    t = emit.text(e[1][1] if e[1][0] == "sliceto" else e[1])
                    if t not in declared and t not in out:
                        out.append(t)
            elif k == "for":
                visit(st[3][1])
    visit(stmts)
    return out


def pat_vars(pat):
    if pat[0] == "pvar":
        return [pat[1]]
    if pat[0] == "pctor":
        return [v for p in pat[2] for v in pat_vars(p)]
    return [v for p in pat[1] for v in pat_vars(p)]


def mentions(lean_text, ident):
    """does the Lean text contain the identifier as a whole word?"""
    return re.search(r"(?<![A-Za-z0-9_.'])%s(?![A-Za-z0-9_'])" % re.escape(ident), lean_text) is not None


def lean_ident(s):
    parts = s.strip("_").split("_")
    out = parts[0] + "".join(p.capitalize() for p in parts[1:])
    if out in ("end", "from", "at", "open", "in", "do", "then", "else", "if", "fun", "let", "have", "show", "by", "match", "with"):
        out += "'"
    return out


def lower_first(s):
    return s[0].lower() + s[1:]


# `a..b` ranges: patch the parser to recognise them inside `for … in a..b`
_old_expr = P.expr


def _expr_with_range(self, lvl=0, no_struct=False):
    e = _old_expr(self, lvl, no_struct)
    if lvl == 0 and self.at(".."):
        self.next()
        hi = _old_expr(self, 0, no_struct)
        return ("range", e, hi)
    return e


P.expr = _expr_with_range


# ----------------------------------------------------------------------------- driver
def translate_fn(repo, feats, relpath, rust_name, lean_name, params, subst, consts, partial_fns,
                 self_arrays=None, var_types=None, ret_tuple=None, pick_let=None, state_vars=None,
                 pure_fns=None, default_int=None, result=None, impl=None, expect_sig=None,
                 force_option=False, newtypes=None, impl_generics=None, pnames=None, alias_sig=None, rename=None,
                 picked=None):
    """impl: look the function up inside the block `impl <impl> { … }` only.
    expect_sig: the function's signature (text between its name and its body) must be this,
    token for token up to the NAMES of the parameters — the parameter names and types of `params`/`var_types` are
    configuration, this ties them to the source; the body is renamed to the configured names.
    pnames: (no `expect_sig`) the configured names of the parameters, in order: the body is renamed to them.
    alias_sig: signature of a private free function; when no `fn <rust_name>` is found, the one private function of the file
    with this signature (up to parameter names) is taken (ALIASES; the callers must call it under that name).
    pick_let: a variable name, or ("rhs", token texts): the statement `let <v> = <these tokens> …`, whatever `v` is
    (`picked["var"]` = v).  rename: {local of the source: configured name}, applied to the parsed statement / body.
    force_option: the Lean function returns `Option` even when no panic path was found.
    newtypes: names of tuple-struct newtypes over `Vec<u8>` whose constructor is erased."""
    where = "%s::%s" % (relpath, rust_name) if impl is None else "%s::<impl %s>::%s" % (relpath, impl, rust_name)
    src = strip_comments(open(os.path.join(repo, relpath)).read())
    if impl is not None:
        src = find_impl(src, impl, where, impl_generics)
        n = len(re.findall(r"\bfn\s+%s\b" % re.escape(rust_name), src))
        if n != 1:
            fail("%s: %d definitions of fn %s in the impl block" % (where, n, rust_name))
    src_name = rust_name
    if impl is None and alias_sig is not None and not re.search(r"\bfn\s+%s\s*(<[^()]*>)?\s*\(" % re.escape(rust_name), src):
        # a private free function that the source has renamed
        block = io_find_free_fns(repo, feats, relpath)
        io_find_renamed(block, relpath, rust_name, io_strip_tc([v for _k, v in tokenize(alias_sig)]), set(), where,
                        "%s: fn %s not found" % (where, rust_name))
        src_name = ALIASES.new_of[(relpath, rust_name)]
    item = find_item(src, "fn", src_name, where)
    canon = pnames
    if expect_sig is not None:
        got, want = fn_signature(item), [v for _k, v in tokenize(expect_sig)]
        pairs = sig_eq_renamed(got, want)
        if pairs is None:
            fail("%s: signature is `%s`, the translation is configured for `%s`" % (where, " ".join(got), " ".join(want)))
        canon = [w for w, _g in pairs]
    toks = tokenize(item)
    if pick_let:
        # translate only the first `let <pick_let> = <expr>;` of the function whose cfg
        # attributes hold; the rest of the function is not parsed.
        body = None
        by_rhs = [v for v in pick_let[1]] if isinstance(pick_let, tuple) else None
        for i in range(len(toks) - 2):
            if toks[i][1] == "let" and toks[i + 2][1] == "=" and (
                    (by_rhs is None and toks[i + 1][1] == pick_let) or
                    (by_rhs is not None and toks[i + 1][0] == "id" and [t_[1] for t_ in toks[i + 3:i + 3 + len(by_rhs)]] == by_rhs)):
                # attributes directly in front of the `let`
                j = i
                ok = True
                while j > 0 and toks[j - 1][1] == "]":
                    depth = 0
                    k2 = j - 1
                    while True:
                        if toks[k2][1] == "]":
                            depth += 1
                        elif toks[k2][1] == "[":
                            depth -= 1
                            if depth == 0:
                                break
                        k2 -= 1
                    if toks[k2 - 1][1] != "#":
                        break
                    ok = ok and P(toks[k2 - 1:j], feats, where).attrs()
                    j = k2 - 1
                if not ok:
                    continue
                st = P(toks[i:], feats, where).stmt()
                body = ("block", [], st[3])
                if picked is not None:
                    picked["var"] = toks[i + 1][1]
                break
        if body is None:
            fail("%s: statement `let %s = …` not found" % (where, pick_let if by_rhs is None else "<v> = " + " ".join(by_rhs)))
    else:
        # skip signature up to the body '{'
        p = P(toks, feats, where)
        depth = 0
        while True:
            k, v = p.peek()
            if v == "{" and depth == 0:
                break
            if v in ("(", "<", "["):
                depth += 1
            if v in (")", ">", "]"):
                depth -= 1
            if v == ">>":
                depth -= 2
            if v == "":
                fail(where + ": body not found")
            p.next()
        body = p.block()
        actual = sig_param_names(fn_signature(item))
        if canon is not None and len(canon) == len(actual):
            # the parameters under their configured names (a consistent renaming of bound names)
            body = rename_params(body, actual, canon, where)
    if rename:
        body = rename_params(body, list(rename), [rename[k_] for k_ in rename], where)
    var_types = dict(var_types or {})
    if not pick_let:
        for pn_, pt_ in sig_param_types(fn_signature(item), canon):
            if pt_ in ("&[u8]", "Vec<u8>", "&Vec<u8>") and pn_ not in var_types and pn_ not in [x_[0] for x_ in params]:
                var_types[pn_] = BYTES                  # a byte sequence, by the signature
    em = Emit(where, subst, consts, partial_fns, var_types or {}, self_arrays or {})
    em2 = Emit(where, subst, consts, partial_fns, var_types or {}, self_arrays or {})
    for x in (em, em2):
        x.rel = relpath
        x.state_vars = dict(state_vars or {})
        x.pure_fns = dict(pure_fns or {})
        x.default_int = default_int
        x.newtypes = set(newtypes or ())
        for (pn, pt) in params:
            x.vt[pn] = pt
    if result is not None:
        # the function returns () and its effect is the final value of a state variable
        body = ("block", body[1], ("rawtail", result))
    # first pass to learn whether the function is partial
    em2.seq(body[1], body[2], wrap=False)
    partial = em2.partial
    term = em.seq(body[1], body[2], wrap=partial or force_option)
    return partial, term, em.notes


def translate_touch(repo, feats, header, rust, param, ptype):
    """src/filedb/mod.rs `RecordSizeStats::touch_size` / `LengthStats::touch_length`: `&mut self` is a tuple struct
    around a `Vec<(x, u64)>`; the vector `self.0` is the parameter and the value `vec` of a pure function.  Exactly
        match self.0.binary_search_by_key(&<param>, |&(a, _b)| a) { Ok(i) => { S… } Err(j) => { S… } }
    with statements  `self.0[i].1 = e;` / `self.0[i].1 += e;`  (`i` the `Ok` binder: in range),
    `self.0.insert(j, (e1, e2));`  (`j` the `Err` binder: `≤ len`);  e: literals, the parameter, `+`, `*`.
    -> (Lean parameter name, term)"""
    rel = "src/filedb/mod.rs"
    where = "%s::<%s>::%s" % (rel, header, rust)
    cands = io_find_methods(repo, feats, rel, header).get(rust, [])
    if len(cands) != 1:
        fail("%s: %d definitions with a true `#[cfg]` (exactly one expected)" % (where, len(cands)))
    toks = cands[0][0]
    ib = [v for _k, v in toks].index("{")
    want = [v for _k, v in tokenize("fn %s(&mut self, %s: %s)" % (rust, param, ptype))]
    pairs = sig_eq_renamed([v for _k, v in toks[2:ib]], want[2:])
    if pairs is None or [v for _k, v in toks[:2]] != want[:2]:
        fail("%s: signature is `%s`, the translation is configured for `%s`" % (where, " ".join(v for _k, v in toks[:ib]), " ".join(want)))
    pp = P(toks[ib:], feats, where)
    pp.keep_try = True
    body = pp.block()
    if pp.i != len(toks) - ib or pp.dropped or pp.kept:
        fail("%s: tokens after the body / `#[cfg]` statements" % where)
    body = rename_params(body, [g for _w, g in pairs], [w for w, _g in pairs], where)      # the parameter under its configured name
    m = body[2] if not body[1] else (body[1][0][1] if (len(body[1]) == 1 and body[1][0][0] == "expr" and body[2] is None) else None)
    vec = ("field", ("path", ["self"]), "0")
    if not (m is not None and m[0] == "match" and m[1][0] == "mcall" and m[1][1] == vec and m[1][2] == "binary_search_by_key"
            and len(m[1][3]) == 2 and m[1][3][0] == ("path", [param]) and m[1][3][1][0] == "closure"
            and len(m[1][3][1][1]) == 1 and m[1][3][1][1][0][0] == "ptuple" and len(m[1][3][1][1][0][1]) == 2
            and m[1][3][1][1][0][1][0][0] == "pvar" and m[1][3][1][1][0][1][1][0] == "pvar"
            and m[1][3][1][2] == ("path", [m[1][3][1][1][0][1][0][1]])
            and m[1][3][1][1][0][1][0][1] != m[1][3][1][1][0][1][1][1]):
        fail("%s: the body is not `match self.0.binary_search_by_key(&%s, |&(a, _b)| a) { … }`" % (where, param))
    arms = dict((tuple(a[0]), a) for a in m[2])
    if sorted(arms) != [("Err",), ("Ok",)] or len(m[2]) != 2:
        fail("%s: the arms of the `match` are not exactly `Ok(i)` and `Err(j)`" % where)
    lp = lean_ident(param)

    def ex(e, binder):
        if e[0] == "num":
            return str(e[1])
        if e == ("path", [param]):
            return lp
        if e == ("path", [binder]):
            return lean_ident(binder)
        if e[0] == "bin" and e[1] in ("+", "*"):
            return "(%s %s %s)" % (ex(e[2], binder), e[1], ex(e[3], binder))
        fail("%s: expression outside the subset of the `touch` functions (literals, `%s`, the index, `+`, `*`)" % (where, param))

    out = ["match binarySearchByKey vec %s with" % lp]
    for tag, ctor in (("Ok", ".ok"), ("Err", ".error")):
        _path, binder, blk = arms[(tag,)]
        if binder in (None, "()", param, "vec") or blk[0] != "block" or blk[2] is not None:
            fail("%s: the `%s` arm is not `%s(i) => { statements }`" % (where, tag, tag))
        b = lean_ident(binder)
        out.append("  | %s %s =>" % (ctor, b))
        for st in blk[1]:
            if (st[0] == "assign" and st[1] in ("=", "+=") and st[2] == ("field", ("index", vec, ("path", [binder])), "1")
                    and tag == "Ok"):
                # `self.0[i].1 = e;` / `self.0[i].1 += e;` with the index the binary search found (`i < len`)
                v = ex(st[3], binder)
                if st[1] == "+=":
                    v = "(listGetSnd vec %s + %s)" % (b, v)
                out.append("    let vec := listSetSnd vec %s %s" % (b, v))
            elif (st[0] == "expr" and st[1][0] == "mcall" and st[1][1] == vec and st[1][2] == "insert" and len(st[1][3]) == 2
                  and st[1][3][0] == ("path", [binder]) and st[1][3][1][0] == "tuple" and len(st[1][3][1][1]) == 2 and tag == "Err"):
                # `self.0.insert(j, (e1, e2));` at the place the binary search names (`j ≤ len`)
                out.append("    let vec := listInsertAt vec %s (%s, %s)" % (b, ex(st[1][3][1][1][0], binder), ex(st[1][3][1][1][1], binder)))
            else:
                fail("%s: statement outside the subset of the `touch` functions in the `%s` arm (`self.0[i].1 = e;`, "
                     "`self.0[i].1 += e;` in `Ok(i)`; `self.0.insert(j, (e1, e2));` in `Err(j)`)" % (where, tag))
        out.append("    vec")
    return lp, "\n".join(out)


def const_value(repo, feats, relpath, name, consts_env):
    where = "%s::%s" % (relpath, name)
    src = strip_comments(open(os.path.join(repo, relpath)).read())
    item = find_item(src, "const", name, where)
    p = P(tokenize(item), feats, where)
    e = p.expr()
    return eval_const(e, consts_env, where)


def eval_const(e, env, where):
    k = e[0]
    if k == "num":
        return e[1]
    if k == "array":
        return [eval_const(x, env, where) for x in e[1]]
    if k == "repeat":
        return [eval_const(e[1], env, where)] * eval_const(e[2], env, where)
    if k == "bin":
        a, b = eval_const(e[2], env, where), eval_const(e[3], env, where)
        return {"+": a + b, "-": a - b, "*": a * b, "/": a // b if b else 0, "<<": a << b, ">>": a >> b}[e[1]]
    if k == "path" and len(e[1]) == 1 and e[1][0] in env:
        return env[e[1][0]]
    if k == "cast":
        return eval_const(e[1], env, where)
    fail("%s: unsupported constant expression (%s)" % (where, k))


def lean_val(v):
    if isinstance(v, list):
        return "[" + ", ".join(str(x) for x in v) + "]"
    return str(v)


def signature_of(repo, feats, relpath):
    """byte string returned by `fn signature() -> [u8; 8]`."""
    where = relpath + "::signature"
    src = strip_comments(open(os.path.join(repo, relpath)).read())
    item = find_item(src, "fn", "signature", where)
    m = re.search(r"\{\s*\*?\s*(b\"(?:[^\"\\]|\\.)*\")\s*\}", item)
    if not m:
        fail(where + ": body is not a byte-string literal")
    return parse_bstr(m.group(1))


# ----------------------------------------------------------------------------- imperative I/O subset
# `&mut self` methods of `VarFile` (vfile.rs, piece.rs) and the piece-level I/O of the two record files
# (key.rs, val.rs) -> functions in the monad `Abyss.FileM.M` (state = flat file + cursor, failure = `Err`).
# See the header comment written to FileOps.lean.
IO_VF = "src/filedb/inner/vfile.rs"
IO_PI = "src/filedb/inner/piece.rs"
IO_ST = "src/filedb/inner/semtype.rs"
IO_KEY = "src/filedb/inner/key.rs"
IO_VAL = "src/filedb/inner/val.rs"
IO_HTX = "src/filedb/inner/htx.rs"
IO_DBX = "src/filedb/inner/dbxxx.rs"
IO_MOD = "src/filedb/inner/mod.rs"

NUMERIC = ("Offset", "Size", "Length", "int")

# bottom primitives: method of the VarFile -> (Lean name, classes of the arguments, class of the value, width)
IO_PRIMS = {
    "read_u64_le": ("FileM.readU64Le", [], "int", "u64"),
    "write_u64_le": ("FileM.writeU64Le", ["int"], "unit", None),
    "read_and_decode_vu64": ("FileM.readVu64", [], "int", "u64"),
    "encode_and_write_vu64": ("FileM.writeVu64", ["int"], "unit", None),
    "stream_position": ("FileM.seekPosition", [], "int", "u64"),
    # `std::io::Write::write_all` over `impl Write for VarFile` (= `buf_file.write`)
    "write_all": ("FileM.writeBytes", ["bytes"], "unit", None),
    # `rabuf::SmallRead::read_exact_maybeslice` (= `buf_file.read_exact_maybeslice`)
    "read_exact_maybeslice": ("FileM.readBytes", ["int"], "bytes", None),
    # `rabuf::SmallRead::read_u8` / `rabuf::SmallWrite::write_u8` over the impls for VarFile (= `buf_file.…`)
    "read_u8": ("FileM.readU8", [], "int", "u8"),
    "write_u8": ("FileM.writeU8", ["int"], "unit", None),
    # `<vf>.seek(SeekFrom::Start(x))` / `SeekFrom::End(0)` / `SeekFrom::Current(n as i64)` are recognised
    # by shape in EmitIO.mex
}
# methods of `<vf>.buf_file`
IO_BUF_PRIMS = {
    "write_zero": ("FileM.writeZero", ["int"], "unit", None),
    "read_u8": ("FileM.readU8", [], "int", "u8"),
    # `rabuf::FileSetLen::set_len` of the buffer: truncate / extend with zeros, a cursor beyond the new end is clamped
    "set_len": ("FileM.setLen", ["int"], "unit", None),
    # `BufFile::read_fill_buffer` of rabuf: `self.seek(SeekFrom::End(0))?` and then `fetch_chunk` over the file from offset 0
    # on until the buffer is full: the cursor goes to the end of the file, chunks are loaded (others written back / evicted),
    # which the flat file does not see (`RaBuf.readFillBuffer`; Abyss/Lemmas/ReadFillL.lean)
    "read_fill_buffer": ("FileM.readFill", [], "unit", None),
}
# `file.read_exact(&mut buf)?;` with `buf` a local byte array of a length that is evident (`let mut buf = [0u8, …];`):
# `std::io::Read::read_exact`, the default loop over `impl Read for VarFile` = `buf_file.read` (pinned in io_pin_open:
# `read_exact` is not overridden).  rabuf's `read` copies out of the chunk of the cursor and does not look at the end of
# the file (`RaBuf.read`/`readExact` of Abyss/RaBuf.lean: it never returns 0 bytes, so `UnexpectedEof` cannot happen):
# at the end of a short file the buffer is filled with the zero padding of the chunk.  That is `FileM.readPad n`, not
# the strict `FileM.readBytes n`.
IO_READ_EXACT = "FileM.readPad"
# statements `self.<m>(..)?;` that are left out, with the reason written to the doc comment
# assignments that are left out (engine): the dirty flag belongs to the buffer model
IO_DROPPED_ASSIGN = {"self.dirty": "`self.dirty = true` (the dirty flag belongs to the buffer model: `flush`/`sync` "
                                   "write the buffers out only when it is set; the flat files have no buffer)"}
IO_DROPPED_CALLS = {"prepare": "`self.prepare(..)?` (read-ahead hint of the buffer, no effect on the flat file)"}
# unit-of-measure newtypes of semtype.rs: constructor path -> class; all are erased to `Nat`
IO_NEWTYPES = {"PieceOffset": "Offset", "Offset": "Offset", "PieceSize": "Size", "KeyLength": "Length",
               "ValuePieceOffset": "Offset", "KeyPieceOffset": "Offset", "ValuePieceSize": "Size",
               "KeyPieceSize": "Size", "ValueLength": "Length",
               "NodePieceOffset": "Offset", "NodePieceSize": "Size"}
IO_NEWTYPE_WIDTH = {"Offset": 64, "Size": 32, "Length": 32}
IO_SIG_TYPES = {"PieceOffset<T>": "Offset", "Offset<T>": "Offset", "PieceSize<T>": "Size", "KeyLength": "Length",
                "Length<T>": "Length", "ValueLength": "Length",
                "ValuePieceOffset": "Offset", "KeyPieceOffset": "Offset",
                "ValuePieceSize": "Size", "KeyPieceSize": "Size",
                "Size<T>": "Size", "u32": "int", "u64": "int", "()": "unit", "bool": "bool",
                # semtype.rs `HashValue { val: u64 }` (`new`, `as_value` pinned): a plain integer
                "HashValue": "int",
                # byte sequences; a key `KT: DbMapKeyType` is its bytes (`as_bytes` / `from_bytes` / `clone` erased)
                "Vec<u8>": "bytes", "&[u8]": "bytes", "rabuf::MaybeSlice": "bytes", "KT": "bytes", "&KT": "bytes",
                "&mutVarFile": "vfile",
                # the create / open path: `type HeaderSignature = [u8; 8];` (pinned in io_pin_open) is a byte sequence;
                # `params: &FileDbParams` is its field `buckets_size: HashBucketsParam` (the other fields are only read by
                # the part of `open_with_params` that is pinned and dropped); `path: P`, `ks_name: &str` are only read there
                "HeaderSignature": "bytes", "&FileDbParams": "dbparams", "P": "unused", "&str": "unused",
                "NodePieceOffset": "Offset",
                "PieceOffset<Key>": "Offset", "PieceOffset<Value>": "Offset", "PieceSize<Key>": "Size", "PieceSize<Value>": "Size",
                "Rc<RefCell<FileDbXxxInner<KT>>>": "dbmap", "Box<dynPieceA<T>>": "piecea",
                "RecordSizeStats<Key>": "sizestats", "RecordSizeStats<Value>": "sizestats",
                "LengthStats<Key>": "lenstats", "LengthStats<Value>": "lenstats",
                "Vec<(u32,u64)>": "pairs", "CountOfPerSize": "pairs",
                "ValuePiece": ("struct", "ValuePiece"), "KeyPiece<KT>": ("struct", "KeyPiece")}
IO_RESERVED = ("c", "fuel", "loopFuel", "loopRes", "loopRet", "tryVal", "loopRest", "loopItem", "loopIter", "st", "fileA")
# methods that change their receiver, a local vector: `v.m(..);` is an assignment to `v`
IO_MUT_METHODS = ("push", "touch_size", "touch_length")
# the trait objects of the two record files (FileOps.lean), by the file of the engine
IO_PIECEA_INST = {"key": ("keyPieceA", "liftKey"), "val": ("valPieceA", "liftVal")}
IO_RESERVED_ENGINE = ("kc", "vc", "bucketsSize", "cmp")
IO_COLD = ["_cold"]                   # the name of the empty `#[cold]` function of inner/mod.rs (found by its shape, io_pin_engine)
IO_PIECE_ITERS = {"key": "key_piece_offset_iter", "val": "value_piece_offset_iter"}   # … of the two wrappers (io_pin_piece_iters)
# context parameters of a translated function (in this order, before its own parameters):
# the piece manager of the file (`c`; of the key / value file in the engine: `kc`, `vc`), the field
# `buckets_size` of the `VarFileHtxCache`, the comparison `KT::cmp_u8` of the key type
CTX_ORDER = ("c", "kc", "vc", "bucketsSize", "cmp")
CTX_TYPES = {"c": "FileCfg", "kc": "FileCfg", "vc": "FileCfg", "bucketsSize": "Nat",
             "cmp": "List Nat → List Nat → Option Ordering"}
# constants of a file that the translated functions of that file may use: Rust name -> name in Consts.lean
IO_CONSTS = {IO_HTX: {"HTX_HEADER_SZ": "htxHeaderSz", "HTX_HT_SIZE_OFFSET": "htxHtSizeOffset",
                      "HTX_ITEM_COUNT_OFFSET": "htxItemCountOffset"}}
IO_CONSTS[IO_KEY] = {"DAT_HEADER_SZ": "keyHeaderSz", "REC_SIZE_ARY": ("keySizeAry", "intlist"),
                     "DAT_HEADER_SIGNATURE": ("keySig1", "bytes")}
IO_CONSTS[IO_VAL] = {"DAT_HEADER_SZ": "valHeaderSz", "REC_SIZE_ARY": ("valSizeAry", "intlist"),
                     "DAT_HEADER_SIGNATURE": ("valSig1", "bytes")}
IO_CONSTS[IO_HTX]["HTX_HEADER_SIGNATURE"] = ("htxSig1", "bytes")


def io_const_name(x):
    return x if isinstance(x, str) else x[0]


def io_const_cls(x):
    return "int" if isinstance(x, str) else x[1]


# the statistics vectors of src/filedb/mod.rs (tuple structs around a sorted `Vec<(x, u64)>`, pinned in io_pin_stats):
# struct -> (class, its `touch` method, class of the argument, the translation of the method in Funcs.lean)
IO_MOD_RS = "src/filedb/mod.rs"
IO_STATS = {"RecordSizeStats": ("sizestats", "touch_size", "Size", "touchSize"),
            "LengthStats": ("lenstats", "touch_length", "Length", "touchLength")}
# methods that are the identity on a byte sequence / key
IO_BYTES_IDENTITY = ("as_bytes", "clone", "to_vec", "into_vec")

# the piece structs: flattened into their fields.  `decl` is the exact text of the definition (token-wise),
# `ctors` the exact text of the constructors that the translated functions use and what they mean
# (field -> index of the parameter; a field that is not mentioned is `Default::default()` = 0),
# `pure` the methods that are pure functions of Funcs.lean (arguments: field, or `field.len`).
IO_STRUCTS = {
    "ValuePiece": {
        "file": IO_VAL, "impl": "impl ValuePiece",
        "decl": "#[derive(Debug, Default, Clone)] pub struct ValuePiece { pub offset: ValuePieceOffset, "
                "pub size: ValuePieceSize, pub value: Vec<u8>, }",
        "fields": [("offset", "Offset"), ("size", "Size"), ("value", "bytes")],
        "ctors": {
            "with": ("fn with(offset: ValuePieceOffset, size: ValuePieceSize, value: Vec<u8>) -> Self "
                     "{ Self { offset, size, value, } }", {"offset": 0, "size": 1, "value": 2}),
            "with_value": ("fn with_value(value: &[u8]) -> Self { Self { value: value.to_vec(), ..Default::default() } }",
                           {"value": 0}),
        },
        "pure": {"encoded_piece_size": ("valueEncodedPieceSize", ["value.len"],
                                        ("tuple", ["int", "int", "Length"]), ["u32", "u32", None])},
    },
    "KeyPiece": {
        "file": IO_KEY, "impl": "impl<KT: DbMapKeyType> KeyPiece<KT>",
        "decl": "#[derive(Debug, Default, Clone)] pub struct KeyPiece<KT: DbMapKeyType> { pub offset: KeyPieceOffset, "
                "pub size: KeyPieceSize, pub key: KT, pub value_offset: ValuePieceOffset, "
                "pub bucket_next_offset: KeyPieceOffset, }",
        "fields": [("offset", "Offset"), ("size", "Size"), ("key", "bytes"), ("value_offset", "Offset"),
                   ("bucket_next_offset", "Offset")],
        "ctors": {
            "with": ("fn with(offset: KeyPieceOffset, size: KeyPieceSize, key: KT, value_offset: ValuePieceOffset, "
                     "bucket_next_offset: KeyPieceOffset,) -> Self "
                     "{ Self { offset, size, key, value_offset, bucket_next_offset, } }",
                     {"offset": 0, "size": 1, "key": 2, "value_offset": 3, "bucket_next_offset": 4}),
            "with_key_value_next": ("fn with_key_value_next(key: KT, value_offset: ValuePieceOffset, "
                                    "bucket_next_offset: KeyPieceOffset,) -> Self "
                                    "{ Self { key, value_offset, bucket_next_offset, ..Default::default() } }",
                                    {"key": 0, "value_offset": 1, "bucket_next_offset": 2}),
        },
        "pure": {"encoded_piece_size": ("keyEncodedPieceSize", ["key.len", "value_offset", "bucket_next_offset"],
                                        ("tuple", ["int", "int", "Length"]), ["u32", "u32", None])},
    },
}
# owners whose methods hold the file open through `let mut <name> = self.0.borrow_mut();` (pinned, dropped):
# `<name>.0` is the VarFile
IO_LOCKS = {"KeyFilePieceA": "file", "ValueFilePieceA": "file", "KeyFile": "locked", "ValueFile": "locked"}

# the iterator structs (`state`): the `&mut self` of a method is threaded through the Lean function as the explicit
# tuple `st` of the data fields `fields` (parameter and second component of the result); `handles`: the fields that
# are not data (the map behind the iterator: the implicit `DbSt`; the trait object of the file: a `PieceA` parameter);
# `lean`: Lean names of the data fields inside the function
IO_STRUCTS.update({
    "DbXxxIterMut": {
        "file": IO_DBX, "impl": "impl<KT: DbMapKeyType> DbXxxIterMut<KT>", "state": True, "lead": "pub struct DbXxxIterMut",
        "decl": "#[derive(Debug)] pub struct DbXxxIterMut<KT: DbMapKeyType> { db_map: Rc<RefCell<FileDbXxxInner<KT>>>, "
                "remaining_item_count: u64, buckets_size: u64, buckets_idx: u64, key_offset: KeyPieceOffset, }",
        "fields": [("remaining_item_count", "int"), ("buckets_size", "int"), ("buckets_idx", "int"), ("key_offset", "Offset")],
        "widths": {"remaining_item_count": "u64", "buckets_size": "u64", "buckets_idx": "u64"},
        "handles": {"db_map": "dbmap"},
        "lean": {"remaining_item_count": "selfRemainingItemCount", "buckets_size": "selfBucketsSize",
                 "buckets_idx": "selfBucketsIdx", "key_offset": "selfKeyOffset"},
        "ctors": {}, "pure": {},
    },
    "PieceOffsetIter": {
        "file": IO_PI, "impl": "impl<T: PartialEq + Copy + PartialOrd> PieceOffsetIter<T>", "state": True,
        "lead": "pub(crate) struct PieceOffsetIter",
        "decl": "#[derive(Debug)] pub(crate) struct PieceOffsetIter<T> { file_a: Box<dyn PieceA<T>>, "
                "piece_offset_start: PieceOffset<T>, piece_offset_end: PieceOffset<T>, piece_offset: PieceOffset<T>, }",
        "fields": [("piece_offset_start", "Offset"), ("piece_offset_end", "Offset"), ("piece_offset", "Offset")],
        "widths": {},
        "handles": {"file_a": "piecea"},
        "lean": {"piece_offset_start": "selfPieceOffsetStart", "piece_offset_end": "selfPieceOffsetEnd",
                 "piece_offset": "selfPieceOffset"},
        "ctors": {}, "pure": {},
    },
})
# Lean parameter of a handle field / handle parameter (none for the map: it is the state of `DbM`)
IO_HANDLE_LEAN = {"piecea": ("fileA", "PieceA")}
# the trait `PieceA<T>` (piece.rs; pinned in io_pin_piecea): method -> (classes of the arguments, class of the value, Lean field)
IO_PIECEA = {"piece_offset_start": ([], "Offset", "pieceOffsetStart"), "piece_offset_end": ([], "Offset", "pieceOffsetEnd"),
             "piece_size": (["Offset"], "Size", "pieceSize")}

# owners of translated methods: name -> (`impl` header, text that denotes the VarFile inside, pinned definition)
IO_OWNERS = {
    "VarFile": ("impl VarFile", "self", None),
    # htx.rs: the methods of the handle `HtxFile(Rc<RefCell<VarFileHtxCache>>)`; every body opens with
    # `let mut locked = RefCell::borrow_mut(&self.0);` (checked in io_build_fn, definitions pinned in io_pin_htx)
    "HtxFile": ("impl HtxFile", "locked.file", None),
    "ValuePiece": ("impl ValuePiece", None, None),
    "KeyPiece": ("impl<KT: DbMapKeyType> KeyPiece<KT>", None, None),
    "VarFileValueCache": ("impl VarFileValueCache", "self.0",
                          (IO_VAL, r"struct\s+VarFileValueCache\s*\(\s*VarFile\s*,\s*PhantomData<i32>\s*\)\s*;")),
    "VarFileKeyCache": ("impl<KT: DbMapKeyType> VarFileKeyCache<KT>", "self.0",
                        (IO_KEY, r"pub\s+struct\s+VarFileKeyCache<KT:\s*DbMapKeyType>\s*\(\s*pub\s+VarFile\s*,"
                                 r"\s*PhantomData<KT>\s*\)\s*;")),
    # the trait `PieceA` of the two record files (the handles `KeyFile<KT>` / `ValueFile`, see IO_LOCKS)
    "KeyFilePieceA": ("impl<KT: DbMapKeyType> PieceA<Key> for KeyFile<KT>", "file.0", None),
    "ValueFilePieceA": ("impl PieceA<Value> for ValueFile", "file.0", None),
    # methods of the handles that are not plain wrappers (`count_of_free_…_piece`)
    "KeyFile": ("impl<KT: DbMapKeyType> KeyFile<KT>", "locked.0", None),
    "ValueFile": ("impl ValueFile", "locked.0", None),
    # the walk over all pieces of a record file (piece.rs)
    "PieceOffsetIter": ("impl<T: PartialEq + Copy + PartialOrd> PieceOffsetIter<T>", None, None),
    # the free functions of key.rs / val.rs / htx.rs (no `impl` header: top-level items); the VarFile is a parameter
    "KeyFree": (None, None, None), "ValFree": (None, None, None), "HtxFree": (None, None, None),
    # `open_with_params` of the three handles, the part after the buffer is built (IO_OPEN): the VarFile is the local `file`
    "KeyFileOpen": ("impl<KT: DbMapKeyType> KeyFile<KT>", "file", None),
    "ValueFileOpen": ("impl ValueFile", "file", None),
    "HtxFileOpen": ("impl HtxFile", "file", None),
}
# the owner of the free functions of a file: `f(..)` in a translated function of that file is the translated free function `f`
IO_FREE_OWNER = {IO_KEY: "KeyFree", IO_VAL: "ValFree", IO_HTX: "HtxFree"}

# `open_with_params` of `KeyFile<KT>` / `ValueFile` / `HtxFile`: the statements in front of `let file_length … = file.seek_to_end()?;`
# (the piece manager, `OpenOptions`, the `match` on the buffer-size parameter that builds the buffer `file`) are
# compared token-wise with this text and dropped (named in the doc comment); what follows is translated.  The statements
# between `let piece_mgr …;` and `let std_file …;` build the path of the file: they are TRANSLATED (io_file_name: the
# name of the file inside the database directory, `Gen.<ext>FileName` of Registry.lean).
IO_OPEN_PREFIX = """
    let piece_mgr = PieceMgr::new(&%(fo)s, &%(sa)s);
    let std_file = OpenOptions::new().read(true).write(true).create(true).truncate(false).open(pb)?;
    let mut file = match params.%(ext)s_buf_size {
        FileBufSizeParam::Size(val) => {
            let %(pf)s_buf_chunk_size = CHUNK_SIZE;
            let %(pf)s_buf_num_chunks = (val / %(pf)s_buf_chunk_size).max(2);
            VarFile::with_capacity(piece_mgr, "%(ext)s", std_file, %(pf)s_buf_chunk_size, %(pf)s_buf_num_chunks.try_into().unwrap(),)?
        }
        FileBufSizeParam::PerMille(val) => { VarFile::with_per_mille(piece_mgr, "%(ext)s", std_file, CHUNK_SIZE, val)? }
        FileBufSizeParam::Auto => VarFile::new(piece_mgr, "%(ext)s", std_file)?,
    };
"""
# kind -> (substitutions of the prefix, the cache struct the handle wraps, class of the data of the handle = of the Lean value)
IO_OPEN = {
    "key": ({"fo": "REC_SIZE_FREE_OFFSET", "sa": "REC_SIZE_ARY", "ext": "key", "pf": "dat"}, "VarFileKeyCache", "unit"),
    "val": ({"fo": "REC_SIZE_FREE_OFFSET", "sa": "REC_SIZE_ARY", "ext": "val", "pf": "dat"}, "VarFileValueCache", "unit"),
    "htx": ({"fo": "HTX_SIZE_FREE_OFFSET", "sa": "HTX_SIZE_ARY", "ext": "htx", "pf": "idx"}, "VarFileHtxCache", "int"),
}
# the cache structs a handle wraps: constructor expression (AST, `file` = the VarFile) -> (struct, data field or None)
IO_CACHE_CTORS = {
    ("VarFileKeyCache",): ("VarFileKeyCache", None),        # `VarFileKeyCache(file, PhantomData)`
    ("VarFileValueCache",): ("VarFileValueCache", None),    # `VarFileValueCache(file, PhantomData)`
    ("VarFileHtxCache", "new"): ("VarFileHtxCache", "buckets_size"),   # `VarFileHtxCache::new(file)`: `buckets_size: 0` (pinned)
}


def io_ident(v):
    """Lean name of a Rust local: camelCase; a leading `_` (unused in release builds) is kept"""
    if v == "_":
        return "_"
    return ("_" if v.startswith("_") else "") + lean_ident(v)


def io_lean_ty(t):
    if t in NUMERIC:
        return "Nat"
    if t == "unit":
        return "Unit"
    if t == "bool":
        return "Bool"
    if t == "bytes":
        return "List Nat"
    if t == "piecea":
        return "PieceA"
    if t in ("pairs", "sizestats", "lenstats"):
        return "List (Nat × Nat)"
    if t == "intlist":
        return "List Nat"
    if t == "dbparams":
        return "HashBucketsParam"
    if isinstance(t, tuple) and t[0] == "tuple":
        return " × ".join(io_lean_ty(x) if not isinstance(x, tuple) else "(" + io_lean_ty(x) + ")" for x in t[1])
    if isinstance(t, tuple) and t[0] == "option" and t[1] is not None:
        return "Option " + io_atom(io_lean_ty(t[1]))
    fail("imperative I/O subset: no Lean type for %r" % (t,))


def io_ty_eq(a, b):
    """equality of value classes; the class of `None` is `("option", None)`: an option of anything"""
    if isinstance(a, tuple) and isinstance(b, tuple) and a[0] == "option" and b[0] == "option":
        return a[1] is None or b[1] is None or io_ty_eq(a[1], b[1])
    return a == b


def io_sig_type(s, where):
    """type text of a signature (`PieceSize<T>`, `(PieceSize<T>,PieceOffset<T>)`) -> class"""
    if s in IO_SIG_TYPES:
        return IO_SIG_TYPES[s]
    if s.startswith("Option<") and s.endswith(">"):
        return ("option", io_sig_type(s[len("Option<"):-1], where))
    if s.startswith("(") and s.endswith(")"):
        parts, depth, cur = [], 0, ""
        for ch in s[1:-1]:
            if ch in "<([":
                depth += 1
            elif ch in ">)]":
                depth -= 1
            if ch == "," and depth == 0:
                parts.append(cur)
                cur = ""
            else:
                cur += ch
        if cur:
            parts.append(cur)
        if len(parts) >= 2:
            return ("tuple", [io_sig_type(x, where) for x in parts])
    fail("%s: type `%s` is outside the imperative I/O subset" % (where, s))


def ind(lines, n=2):
    return [" " * n + x for x in lines]


def io_atom(s):
    """parenthesise unless `s` is an identifier / number / already one parenthesised group"""
    if re.match(r"^[A-Za-z0-9_.']+$", s) or s == "()":
        return s
    if s.startswith("("):
        depth = 0
        for i, ch in enumerate(s):
            if ch == "(":
                depth += 1
            elif ch == ")":
                depth -= 1
                if depth == 0:
                    if i == len(s) - 1:
                        return s
                    break
    return "(" + s + ")"


def io_attach(prefix, lines):
    """`prefix` + a monadic term; a term of several lines is parenthesised (a bare `if`/`do`
    after `←` would be read as a do-element and elaborated with join points)"""
    if len(lines) == 1:
        return [prefix + lines[0]]
    out = [prefix + "(" + lines[0]] + ind(lines[1:], 2)
    out[-1] += ")"
    return out


def io_walk(node):
    """all AST nodes (tuples whose first component is a string) below `node`, including it"""
    if isinstance(node, tuple):
        if node and isinstance(node[0], str):
            yield node
        for x in node[1:] if (node and isinstance(node[0], str)) else node:
            for y in io_walk(x):
                yield y
    elif isinstance(node, list):
        for x in node:
            for y in io_walk(x):
                yield y


def io_option_match(e):
    """`match o { Some(v) => a, None => b }` (either order; a plain binder) is `if let Some(v) = o { a } else { b }`: the
    `iflet` node, or None"""
    if e[0] != "match" or len(e[2]) != 2:
        return None
    arms = dict((tuple(p), (b, body)) for p, b, body in e[2])
    if sorted(arms) != [("None",), ("Some",)] or arms[("None",)][0] is not None or arms[("Some",)][0] in (None, "()"):
        return None
    blk = [x if x[0] == "block" else ("block", [], x) for x in (arms[("Some",)][1], arms[("None",)][1])]
    return ("iflet", ("pctor", "Some", [("pvar", arms[("Some",)][0])]), e[1], blk[0], blk[1])


def io_contains_return(node):
    return any(n[0] in ("return", "returnx") for n in io_walk(node))


def io_mentions_var(node, v):
    """is the Rust variable `v` referred to below `node`?"""
    return any(n[0] == "path" and n[1] and n[1][0] == v for n in io_walk(node))


def io_text(e):
    k = e[0]
    if k == "path":
        return "::".join(e[1])
    if k == "field":
        return io_text(e[1]) + "." + e[2]
    return "<%s>" % k


def io_target(tgt, where):
    """assignment target: a variable `v` or a field `v.f` of a flattened struct variable -> its key"""
    if tgt[0] == "path" and len(tgt[1]) == 1:
        return tgt[1][0]
    if tgt[0] == "field" and tgt[1][0] == "path" and len(tgt[1][1]) == 1 and not tgt[2].isdigit():
        return tgt[1][1][0] + "." + tgt[2]
    fail("%s: unsupported assignment target" % where)


def io_assigned(stmts, where):
    """keys of the variables assigned in `stmts` and not declared inside (block-scoped)"""
    out = []

    def blk(sts, tail, decl):
        decl = set(decl)
        for st in sts:
            k = st[0]
            if k == "let":
                ex(st[3], decl)
                decl.update(pat_vars(st[1]))
            elif k == "assign":
                v = io_target(st[2], where)
                if v in IO_DROPPED_ASSIGN:
                    continue
                if v.split(".")[0] not in decl and v not in out:
                    out.append(v)
                ex(st[3], decl)
            elif k == "expr":
                e_ = st[1]
                if e_[0] == "mcall" and e_[2] in IO_MUT_METHODS and e_[1][0] == "path" and len(e_[1][1]) == 1:
                    v = e_[1][1][0]                      # `v.push(..);` / `v.touch_size(..);` changes `v`
                    if v not in decl and v not in out:
                        out.append(v)
                for n_ in io_walk(e_):
                    if n_[0] == "mcall" and n_[2] == "read_exact" and len(n_[3]) == 1 and n_[3][0][0] == "path" and len(n_[3][0][1]) == 1:
                        v = n_[3][0][1][0]                   # `file.read_exact(&mut v)?;` overwrites `v`
                        if v not in decl and v not in out:
                            out.append(v)
                ex(st[1], decl)
            elif k == "for":
                ex(st[2], decl)
                blk(st[3][1], st[3][2], set(decl) | set(pat_vars(st[1])))
            elif k == "while":
                ex(st[1], decl)
                blk(st[2][1], st[2][2], decl)
            elif k == "loop":
                blk(st[1][1], st[1][2], decl)
            elif k == "return":
                if st[1] is not None:
                    ex(st[1], decl)
            elif k in ("dassert", "panic", "assert"):
                pass
            else:
                fail("%s: statement `%s` is outside the imperative I/O subset" % (where, k))
        if tail is not None:
            ex(tail, decl)

    def ex(e, decl):
        if e[0] == "block":
            blk(e[1], e[2], decl)
        elif e[0] == "if":
            ex(e[1], decl)
            blk(e[2][1], e[2][2], decl)
            if e[3] is not None:
                ex(e[3], decl)
        elif e[0] == "iflet":
            ex(e[2], decl)
            blk(e[3][1], e[3][2], set(decl) | set(pat_vars(e[1])))
            if e[4] is not None:
                ex(e[4], decl)
        elif e[0] == "match":
            ex(e[1], decl)
            for _p, _b, body in e[2]:
                ex(body, decl)
        else:
            for x in e[1:]:
                if isinstance(x, tuple) and x and isinstance(x[0], str):
                    ex(x, decl)
                elif isinstance(x, list):
                    for y in x:
                        if isinstance(y, tuple) and y and isinstance(y[0], str):
                            ex(y, decl)

    blk(stmts, None, set())
    return out


def io_declared(node):
    """all variables bound by a `let` / `if let` anywhere below `node`"""
    return set(v for n in io_walk(node) if n[0] in ("let", "iflet") for v in pat_vars(n[1]))


def split_items(toks, lo, hi):
    """items of the token range (a file, or the inside of an `impl` block):
    (start of the attributes, start of the item, end); an item ends with its `{…}` group or a `;`"""
    out = []
    i = lo
    while i < hi:
        a = i
        while i + 1 < hi and toks[i][1] == "#" and toks[i + 1][1] in ("[", "!"):
            i += 2 if toks[i + 1][1] == "[" else 3
            depth = 1
            while depth:
                if i >= hi:
                    fail("unterminated attribute")
                v = toks[i][1]
                depth += (v == "[") - (v == "]")
                i += 1
        s = i
        depth = 0
        while i < hi:
            v = toks[i][1]
            i += 1
            if v in ("(", "[", "{"):
                depth += 1
            elif v in (")", "]", "}"):
                depth -= 1
                if depth == 0 and v == "}":
                    break
            elif v == ";" and depth == 0:
                break
        if i > s:
            out.append((a, s, i))
    return out


class FnDef(tuple):
    """(tokens from `fn` on, description of the block) of a function found in the source, with its visibility `vis`
    ("pub" / "restricted" / "private")"""
    def __new__(cls, toks, desc, vis):
        t = tuple.__new__(cls, (toks, desc))
        t.vis = vis
        return t


def io_sig_toks(toks):
    """token texts of the signature of a function (tokens from `fn` on): from `(` to the body / the `;` of a declaration,
    without the generic parameter list and without trailing commas"""
    tv = [v for _k, v in toks]
    i = 2
    if tv[i] == "<":
        depth = 0
        while True:
            depth += (tv[i] == "<") - (tv[i] == ">") - 2 * (tv[i] == ">>")
            i += 1
            if depth == 0:
                break
    j, depth = i, 0
    while j < len(tv):
        if depth == 0 and tv[j] in ("{", ";"):
            break
        depth += (tv[j] in ("(", "[")) - (tv[j] in (")", "]"))
        j += 1
    return io_strip_tc(tv[i:j])


def io_find_renamed(block, owner, rust, want_sig, configured, where, nodef_msg):
    """a configured function `rust` is not found in its block (`block`: name -> [FnDef]): the one function of the block
    that is not configured itself, is not `pub` (a public name is API, pinned by the test-suite), and has the configured
    signature `want_sig` (token texts) up to the names of its parameters.  None or several: fails with `nodef_msg`, as
    before.  The alias is recorded (ALIASES); that a translated caller calls it is checked at the end (`check_aliases`)."""
    hits = []
    for name, cands in sorted(block.items()):
        if name in configured or len(cands) != 1 or getattr(cands[0], "vis", "pub") == "pub":
            continue
        if sig_eq_renamed(io_sig_toks(cands[0][0]), want_sig) is not None:
            hits.append(name)
    if len(hits) > 1:
        # several: the one that the source calls somewhere (the others are dead code, `_read_hash_buckets_size`)
        called = [h for h in hits if src_calls(h)]
        hits = called if len(called) == 1 else hits
    if len(hits) != 1:
        fail(nodef_msg + ("" if not hits else " (renamed? %d private functions of the block have its signature: `%s`)"
                          % (len(hits), "`, `".join(hits))))
    ALIASES.add(owner, rust, hits[0])
    ALIASES.where[(owner, rust)] = (where, nodef_msg)
    return block[hits[0]]


SRC_TOKENS = {}                       # the token texts of the `.rs` files under `<repo>/src` (filled by main)


def src_calls(name):
    """is the function `name` called somewhere in the source (`name(` / `.name(` / `::name(`, not its definition `fn name`)?"""
    for tv in SRC_TOKENS.values():
        for i in range(1, len(tv) - 1):
            if tv[i] == name and tv[i + 1] == "(" and tv[i - 1] != "fn":
                return True
    return False


def check_aliases():
    """every function that was found under another name must be what a translated caller calls under that name"""
    for key, new in sorted(ALIASES.new_of.items()):
        if key not in ALIASES.used:
            where, msg = ALIASES.where[key]
            fail(msg + " (a private function `%s` has its signature, but no translated function calls it)" % new)


def io_find_methods(repo, feats, relpath, header):
    """the methods of the inherent blocks `<header> { … }` (header = `impl VarFile`,
    `impl<KT: DbMapKeyType> KeyPiece<KT>`, matched token-wise) of a file whose `#[cfg]`
    attributes (of the block and of the method) hold for the default features:
    name -> list of (tokens from `fn` on, description of the block)"""
    src = strip_comments(open(os.path.join(repo, relpath)).read())
    toks = tokenize(src)
    head = [v for _k, v in tokenize(header)]
    n = len(head)
    found = {}
    for a, s, e in split_items(toks, 0, len(toks)):
        if not (e - s >= n + 2 and [v for _k, v in toks[s:s + n]] == head and toks[s + n][1] == "{"):
            continue
        where = "%s::<%s>" % (relpath, header)
        pa = P(toks[a:s], feats, where)
        if not pa.attrs():
            continue
        blockdesc = "`%s`" % header + ((" (" + " ".join("`%s`" % c for c in pa.last_cfg) + ")") if pa.last_cfg else "")
        for a2, s2, e2 in split_items(toks, s + n + 1, e - 1):
            vis, j = fn_visibility(toks, s2)
            if toks[j][1] != "fn":
                continue
            name = toks[j + 1][1]
            pm = P(toks[a2:s2], feats, where + "::" + name)
            if not pm.attrs():
                continue
            found.setdefault(name, []).append(FnDef(toks[j:e2], blockdesc, vis))
    return found


def io_find_free_fns(repo, feats, relpath):
    """the top-level functions of a file whose `#[cfg]` attributes hold for the default features:
    name -> list of (tokens from `fn` on, description)"""
    toks = tokenize(strip_comments(open(os.path.join(repo, relpath)).read()))
    found = {}
    for a, s_, e in split_items(toks, 0, len(toks)):
        vis, j = fn_visibility(toks, s_)
        if toks[j][1] != "fn":
            continue
        name = toks[j + 1][1]
        pa = P(toks[a:s_], feats, "%s::%s" % (relpath, name))
        if not pa.attrs():
            continue
        found.setdefault(name, []).append(FnDef(toks[j:e], "(free function)" + (
            (" (" + " ".join("`%s`" % c for c in pa.last_cfg) + ")") if pa.last_cfg else ""), vis))
    return found


def io_find_item_tokens(repo, relpath, lead):
    """token texts (with the attributes) of the one top-level item that starts with the tokens `lead`"""
    toks = tokenize(strip_comments(open(os.path.join(repo, relpath)).read()))
    want = [v for _k, v in tokenize(lead)]
    hits = [[v for _k, v in toks[a:e]] for a, s, e in split_items(toks, 0, len(toks))
            if [v for _k, v in toks[s:s + len(want)]] == want]
    if len(hits) != 1:
        fail("%s: %d items `%s …` (exactly one expected)" % (relpath, len(hits), lead))
    return hits[0]


def io_parse_sig(toks, where, assoc=False):
    """tokens `fn name <generics>? ( &mut self , a : T , … ) -> R {`: (receiver `&mut self` / `&self`,
    params [(name, type text)], return type text, index of the body `{`).  The generic parameter
    list (trait bounds on the phantom type parameter) is skipped; `mut` of a by-value parameter
    is not part of its name."""
    i = 2
    if toks[i][1] == "<":
        depth = 0
        while True:
            v = toks[i][1]
            depth += (v == "<") - (v == ">") - 2 * (v == ">>")
            i += 1
            if depth == 0:
                break
    if toks[i][1] != "(":
        fail("%s: cannot read the signature" % where)
    i += 1
    if [t[1] for t in toks[i:i + 3]] == ["&", "mut", "self"]:
        recv = "&mut self"
        i += 3
    elif [t[1] for t in toks[i:i + 2]] == ["&", "self"]:
        recv = "&self"
        i += 2
    elif assoc:
        recv = None                    # an associated function (`new`)
    else:
        fail("%s: the receiver is not `&mut self` / `&self`" % where)
    params = []
    while toks[i][1] != ")":
        if toks[i][1] == ",":
            i += 1
            continue
        if toks[i][1] == "mut":
            i += 1
        name = toks[i][1]
        if toks[i][0] != "id" or toks[i + 1][1] != ":":
            fail("%s: unsupported parameter at `%s`" % (where, name))
        i += 2
        ty, depth = "", 0
        while not (depth == 0 and toks[i][1] in (",", ")")):
            v = toks[i][1]
            depth += (v in ("<", "(", "[")) - (v in (">", ")", "]")) - 2 * (v == ">>")
            ty += v
            i += 1
        params.append((name, ty))
    i += 1
    if toks[i][1] != "->":
        fail("%s: no return type" % where)
    i += 1
    ret = ""
    while toks[i][1] != "{":
        if toks[i][1] == "where":
            fail("%s: `where` clause" % where)
        ret += toks[i][1]
        i += 1
    return recv, params, ret, i


class IoFn:
    pass


class IoParam:
    """a parameter of a translated function: a plain value (`lean` = its Lean name), the VarFile
    (`cls == "vfile"`, no Lean parameter), or a piece struct flattened into `fields`
    [(field, class, Lean name, is it an input)]"""
    def __init__(self, rust, cls, lean=None, fields=None, width=None):
        self.rust, self.cls, self.lean, self.fields, self.width = rust, cls, lean, fields, width

    state = False                     # the `&mut self` of an iterator struct: the Lean parameter `st` (a tuple)
    handles = ()                      # … and the Lean parameters of its handle fields

    def lean_params(self):
        if self.cls in ("vfile", "dbmap", "unused") or (self.cls == "dbparams" and self.lean is None):
            return []
        if self.state:
            return list(self.handles) + [("st", io_lean_ty(("tuple", [fc for _f, fc, _ln, _inp in self.fields])))]
        if self.fields is not None:
            return [(ln, io_lean_ty(fc)) for _f, fc, ln, inp in self.fields if inp]
        return [(self.lean, io_lean_ty(self.cls))]


def io_group_params(ps):
    """[(name, type)] -> `(a b : Nat) (v : List Nat)` (consecutive parameters of one type share a binder)"""
    out, i = [], 0
    while i < len(ps):
        j = i
        while j + 1 < len(ps) and ps[j + 1][1] == ps[i][1]:
            j += 1
        out.append("(%s : %s)" % (" ".join(p[0] for p in ps[i:j + 1]), ps[i][1]))
        i = j + 1
    return " ".join(out)


class CtxFn:
    """tail position of the function: the value is a `Result`"""
    def __init__(self, em):
        self.em = em

    def tail(self, e):
        return self.em.mtail(e, self)

    def fall(self):
        fail(self.em.where + ": a block in tail position of the function ends without a value")

    def ret(self, e):
        if e is None:
            fail(self.em.where + ": `return;`")
        return self.em.mtail(e, self)

    def ret_pure(self, txt):
        if self.em.f.state:
            fail(self.em.where + ": `return` inside a loop of a method of an iterator struct")
        return ["pure " + txt]


class CtxValue:
    """`{ …; e }` used as a value (`let x = { … };`, a branch of `let x = if c { … } else { … };`);
    the tail may be `call?` or a tuple with `call?` components"""
    def __init__(self, em):
        self.em = em
        self.ty = None
        self.widths = None

    def tail(self, e):
        em = self.em
        if e[0] == "try":
            lines, self.ty = em.mex(e[1])
            if isinstance(self.ty, tuple) and self.ty[0] == "sres":
                # a piece struct returned by a call as the value of the block: all its fields
                _s, name, rf, _om, omtxt = self.ty
                omtxt = dict(omtxt)
                tv = {fld: "tryVal" + ("" if i == 0 else str(i + 1)) for i, fld in enumerate(rf)}
                vals = []
                for fld, _fc in IO_STRUCTS[name]["fields"]:
                    if fld in tv:
                        vals.append(tv[fld])
                    elif omtxt.get(fld) is not None:
                        vals.append(omtxt[fld])
                    else:
                        fail("%s: the field `%s` of the `%s` returned by the call has no value here" % (em.where, fld, name))
                self.ty = ("struct", name)
                pt = tv[rf[0]] if len(rf) == 1 else "(" + ", ".join(tv[x] for x in rf) + ")"
                return io_attach("let %s ← " % pt, lines) + ["pure (" + ", ".join(vals) + ")"]
            if lines[0] == "do":
                return [x[2:] for x in lines[1:]]
            return lines
        if e[0] == "if":
            lines, self.ty = em.value_if(e)
            return lines
        if e[0] == "match":
            lines, self.ty = em.cmp_match(e)
            return lines
        if em.is_struct_expr(e) and e[0] == "path":
            # a piece struct variable as the value of the block: all its fields
            name, sv = em.px_struct(e)
            for fld, _fc in IO_STRUCTS[name]["fields"]:
                if fld not in sv:
                    fail("%s: the field `%s` of `%s` has no value here" % (em.where, fld, e[1][0]))
            self.ty = ("struct", name)
            return ["pure (" + ", ".join(sv[fld][0] for fld, _fc in IO_STRUCTS[name]["fields"]) + ")"]
        if em.guards is None and not (e[0] == "tuple" and any(x[0] == "try" for x in e[1])):
            pre, t, self.ty = em.px_guarded(e)
            return pre + ["pure " + io_atom(t)]
        pre, t, self.ty = em.px_lift(e)
        return pre + ["pure " + io_atom(t)]

    def fall(self):
        fail(self.em.where + ": a block used as a value ends without a value")

    def ret(self, e):
        fail(self.em.where + ": `return` inside a block that is used as a value")

    ret_pure = ret


class CtxBranch:
    """branch of an `if` in statement position: yields the variables the `if` assigns"""
    def __init__(self, em, tup):
        self.em = em
        self.tup = tup

    def tail(self, e):
        fail(self.em.where + ": value of an `if` branch in statement position")

    def fall(self):
        return ["pure " + self.tup]

    def ret(self, e):
        fail(self.em.where + ": `return` inside a conditional that is not the last statement of its block")

    ret_pure = ret


class CtxLoop:
    """body of a `while`: the end of the body is the next round, `return Ok(x)` is `.inl x`"""
    def __init__(self, em, reccall, has_ret):
        self.em = em
        self.reccall = reccall
        self.has_ret = has_ret

    def tail(self, e):
        fail(self.em.where + ": `while` body with a value")

    def fall(self):
        return [self.reccall]

    def ret(self, e):
        if not (e is not None and e[0] == "call" and e[1] == ["Ok"] and len(e[2]) == 1):
            fail(self.em.where + ": `return` inside a loop must be `return Ok(e)`")
        t, ty = self.em.px(e[2][0])
        self.em.check_ret(ty)
        return ["pure (.inl %s)" % io_atom(t)]

    def ret_pure(self, txt):
        return ["pure (.inl %s)" % txt]


class CtxForever:
    """body of a `loop { … }` that is the last statement of the function: the end of the body is the next
    round, `return e` is the value of the function"""
    def __init__(self, em, reccall):
        self.em = em
        self.reccall = reccall
        self.fn = CtxFn(em)

    def tail(self, e):
        fail(self.em.where + ": `loop` body with a value")

    def fall(self):
        return [self.reccall]

    def ret(self, e):
        return self.fn.ret(e)

    def ret_pure(self, txt):
        return self.fn.ret_pure(txt)


class EmitIO:
    """translates the body of one method to the lines of a Lean `do` block"""

    def __init__(self, f, table):
        self.f = f
        self.where = f.where
        self.table = table            # (owner, rust method name) -> IoFn (translated before this one)
        self.vt = {}                  # rust variable (or `var.field` of a flattened struct) -> type class
        self.names = {}               # rust variable -> Lean name
        self.lean_used = {}           # Lean name -> rust variable (injectivity of the renaming)
        self.order = []               # rust variables in order of declaration
        self.facts = []               # (Lean text a, Lean text b): `a ≥ b` holds here (enclosing `if a > b`)
        self.alias = {}               # immutable local -> the variable whose Lean name (and value) it shares
        self.width = {}               # rust variable -> `u8`/`u32`/`u64`/`usize` where the source says so
        self.pending = {}             # `var.field` that is not an input: (class, Lean name), declared by its first assignment
        self.pristine = set()         # parameters (and input fields) that have not been assigned
        self.notes = []
        self.aux = []                 # auxiliary loop definitions (doc, text)
        self.in_loop = False
        self.nloops = 0
        self.guards = None            # list that collects the underflow guards of `a - b`, where the statement can emit them
        self.vf_texts = set(f.vf_texts)
        self.handles = {}             # engine: `locked_key` (of `let mut locked_key = self.key_file.0.borrow_mut();`) -> "key"
        self.arrlen = {}              # local byte array `let mut v = [0u8, …];` -> its length (the `n` of `read_exact(&mut v)`)
        self.caches = {}              # local cache struct around the VarFile (IO_CACHE_CTORS) -> (struct, key of its data or None)
        # the names of the context parameters are reserved where the function has that parameter (of the iterator
        # functions none has one: `let buckets_size = self.buckets_size;` is an ordinary local there)
        self.reserved = IO_RESERVED + (tuple(x for x in IO_RESERVED_ENGINE if x in f.needs or f.eng_self) if f.engine else ()) \
            + tuple(io_const_name(x) for x in f.consts.values())
        for txt, (ln, cls, wd) in f.field_params.items():
            # `locked.buckets_size`: a field of the cache struct that is a context parameter
            self.vt[txt], self.names[txt] = cls, ln
            self.order.append(txt)
            self.pristine.add(txt)
            self.width[txt] = wd
        for p in f.params:
            if p.cls in ("vfile", "dbmap", "piecea", "unused") or (p.cls == "dbparams" and p.lean is None):
                continue
            if p.fields is not None:
                self.vt[p.rust] = p.cls
                for fld, fc, ln, inp in p.fields:
                    key = p.rust + "." + fld
                    if inp:
                        self.declare(key, fc, lean=ln)
                        self.pristine.add(key)
                    else:
                        self.pending[key] = (fc, ln)
            else:
                self.declare(p.rust, p.cls, lean=p.lean)
                self.pristine.add(p.rust)
                if p.width:
                    self.width[p.rust] = p.width

    # ---- variables
    def declare(self, v, ty, lean=None, alias_of=None):
        if v == "_":
            return "_"
        for a, r in self.alias.items():
            if r == v and a != v and a in self.vt:
                fail("%s: `%s` is re-bound while `%s` still stands for its old value" % (self.where, v, a))
        if alias_of is not None:
            ln = self.names[alias_of]
            self.alias[v] = self.alias.get(alias_of, alias_of)
        else:
            ln = lean or io_ident(v)
            if ln in self.reserved or re.match(r"^tryVal\d*$", ln):
                fail("%s: the variable `%s` would get the reserved Lean name `%s`" % (self.where, v, ln))
            if self.lean_used.get(ln, v) != v:
                fail("%s: the variables `%s` and `%s` would both be called `%s` in Lean"
                     % (self.where, self.lean_used[ln], v, ln))
            self.lean_used[ln] = v
            self.alias.pop(v, None)
        self.names[v] = ln
        self.vt[v] = ty
        if v in self.order:
            self.order.remove(v)
        self.order.append(v)
        self.width.pop(v, None)
        self.arrlen.pop(v, None)
        self.pristine.discard(v)
        self.forget(v)
        return ln

    def forget(self, v):
        ln = self.names.get(v)
        if ln:
            self.facts = [f for f in self.facts if not (mentions(f[0], ln) or mentions(f[1], ln))]

    def snapshot(self):
        return (dict(self.vt), dict(self.names), list(self.order), list(self.facts), dict(self.alias),
                dict(self.width), dict(self.pending), set(self.pristine))

    def restore(self, s, keep_assigned=()):
        """leave a block: its declarations end; facts about variables it assigned are dropped"""
        self.vt, self.names, self.order, facts = dict(s[0]), dict(s[1]), list(s[2]), list(s[3])
        self.alias, self.width, self.pending, self.pristine = dict(s[4]), dict(s[5]), dict(s[6]), set(s[7])
        self.facts = facts
        for v in keep_assigned:
            self.forget(v)
            self.pristine.discard(v)
            self.width.pop(v, None)

    def bind_pat(self, pat, ty, widths=None):
        if pat[0] == "pvar":
            if isinstance(ty, tuple) and ty[0] != "option" and pat[1] != "_":
                fail("%s: a tuple bound to the single variable `%s`" % (self.where, pat[1]))
            if ty == "unit" and pat[1] != "_":
                fail("%s: `()` bound to the variable `%s`" % (self.where, pat[1]))
            ln = self.declare(pat[1], ty)
            if widths and pat[1] != "_":
                self.width[pat[1]] = widths
            return ln
        if not (isinstance(ty, tuple) and ty[0] == "tuple" and len(ty[1]) == len(pat[1])):
            fail("%s: tuple pattern against a value of type %r" % (self.where, ty))
        ws = widths if isinstance(widths, list) and len(widths) == len(pat[1]) else [None] * len(pat[1])
        return "(" + ", ".join(self.bind_pat(p, t, w) for p, t, w in zip(pat[1], ty[1], ws)) + ")"

    def check_ret(self, ty):
        if isinstance(ty, tuple) and ty[0] == "sres":
            _s, name, rf, omitted = ty[:4]
            if self.f.ret != ("struct", name) or list(rf) != list(self.f.ret_fields):
                fail("%s: a `%s` with the fields (%s) is returned, the configuration says %r with (%s)"
                     % (self.where, name, ", ".join(rf), self.f.ret, ", ".join(self.f.ret_fields or [])))
            om = {}
            for fld, root in omitted:
                if root is None or root not in self.pristine:
                    fail("%s: the field `%s` of the returned `%s` is not among the returned fields (%s) and is "
                         "not an unchanged parameter of the function" % (self.where, fld, name, ", ".join(rf)))
                om[fld] = root
            if self.f.ret_omitted is not None and self.f.ret_omitted != om:
                fail("%s: the fields of the returned `%s` that are left out come from different parameters "
                     "at different `return`s" % (self.where, name))
            self.f.ret_omitted = om
            return
        if not io_ty_eq(ty, self.f.ret):
            fail("%s: a value of class %r is returned, the signature says %r" % (self.where, ty, self.f.ret))

    def text(self, e):
        return io_text(e)

    def as_try(self, e):
        """`call?` -> call; in a function that does not return a `Result` also `call.unwrap()` of a `Result`:
        the panic on `Err` is the failure of the monad"""
        if e[0] == "try":
            return e[1]
        if e[0] == "mcall" and e[2] == "unwrap" and not e[3] and self.f.unwrap_fails and self.is_monadic(e[1]):
            self.notes_unwrap = True
            return e[1]
        return None

    # ---- the `&mut self` of an iterator struct, threaded through as a tuple
    def state_tuple(self):
        st = IO_STRUCTS[self.f.state]
        return "(" + ", ".join(self.names["self." + fld] for fld, _fc in st["fields"]) + ")"

    def with_state(self, lines):
        """the value of the function: `pure v` -> `pure (v, state)`; a call in tail position is bound first"""
        if not self.f.state:
            return lines
        if len(lines) == 1 and lines[0].startswith("pure "):
            return ["pure (%s, %s)" % (lines[0][len("pure "):], self.state_tuple())]
        return io_attach("let tryVal ← ", lines) + ["pure (tryVal, %s)" % self.state_tuple()]

    def state_call(self, e):
        """`self.m(..)` where `self` is the iterator struct and `m` a translated method of it:
        (do-items that run it and re-bind the state fields, Lean text of its value, class) or None"""
        if not (self.f.state and e[0] == "mcall" and e[1] == ("path", ["self"])):
            return None
        g = self.table.get((self.f.state, ALIASES.src_to_cfg(self.f.state, e[2])))
        if g is None or not g.state:
            return None
        if e[3] or g.needs or [p_ for p_ in g.params if not getattr(p_, "state", False)]:
            fail("%s: call of `self.%s(..)` with arguments / context parameters" % (self.where, e[2]))
        if g.monad != self.f.monad:
            fail("%s: call of `self.%s(..)` of another monad" % (self.where, e[2]))
        tup = self.state_tuple()
        hp = "".join(" " + hl for hl, _ht in g.params[0].handles)
        for fld, _fc in IO_STRUCTS[self.f.state]["fields"]:
            k = "self." + fld
            self.forget(k)
            self.pristine.discard(k)
        return ["let (tryVal, %s) ← %s%s %s" % (tup, g.lean, hp, tup)], "tryVal", g.ret

    # ---- flattened structs
    def field_key(self, e):
        """`v.f` where `v` is a flattened struct variable -> the key `v.f`"""
        if (e[0] == "field" and e[1][0] == "path" and len(e[1][1]) == 1
                and isinstance(self.vt.get(e[1][1][0]), tuple) and self.vt[e[1][1][0]][0] == "struct"):
            st = IO_STRUCTS[self.vt[e[1][1][0]][1]]
            if e[2] not in [x[0] for x in st["fields"]]:
                fail("%s: `%s` has no field `%s`" % (self.where, e[1][1][0], e[2]))
            return e[1][1][0] + "." + e[2]
        return None

    def var_of(self, e):
        """the variable an expression stands for: `v`, `v.f`, through `&` (dropped by the parser) and
        the identities on byte sequences"""
        while e[0] == "mcall" and e[2] in IO_BYTES_IDENTITY and not e[3]:
            e = e[1]
        if e[0] == "path" and len(e[1]) == 1 and e[1][0] in self.vt and not isinstance(self.vt[e[1][0]], tuple):
            return e[1][0]
        k = self.field_key(e)
        if k is not None and k in self.vt:
            return k
        if e[0] == "field" and io_text(e) in self.f.field_params:
            return io_text(e)
        return None

    def root_of(self, v):
        return self.alias.get(v, v) if v is not None else None

    def px_struct(self, e):
        """a piece struct as a value: (struct name, {field: (Lean text, class, root variable or None)});
        a field that has no value yet (not an input, not assigned) is missing"""
        w = self.where
        if e[0] == "path" and len(e[1]) == 1 and isinstance(self.vt.get(e[1][0]), tuple) and self.vt[e[1][0]][0] == "struct":
            name = self.vt[e[1][0]][1]
            out = {}
            for fld, fc in IO_STRUCTS[name]["fields"]:
                key = e[1][0] + "." + fld
                if key in self.vt:
                    out[fld] = (self.names[key], self.vt[key], self.root_of(key))
            return name, out
        if e[0] == "call" and len(e[1]) == 2 and e[1][0] in IO_STRUCTS and e[1][1] in IO_STRUCTS[e[1][0]]["ctors"]:
            name = e[1][0]
            _txt, how = IO_STRUCTS[name]["ctors"][e[1][1]]
            if len(e[2]) != len(how):
                fail("%s: %s::%s takes %d argument(s), %d given" % (w, name, e[1][1], len(how), len(e[2])))
            out = {}
            for fld, fc in IO_STRUCTS[name]["fields"]:
                if fld in how:
                    a = e[2][how[fld]]
                    t, ty = self.px(a)
                    if (ty in NUMERIC) != (fc in NUMERIC) or (fc not in NUMERIC and ty != fc):
                        fail("%s: %s::%s: field `%s` of class %r gets a value of class %r" % (w, name, e[1][1], fld, fc, ty))
                    out[fld] = (t, fc, self.root_of(self.var_of(a)))
                else:
                    out[fld] = ("0" if fc in NUMERIC else "[]", fc, None)     # `..Default::default()` (pinned)
            return name, out
        if e[0] == "structlit" and e[1] == "Self" and self.f.owner in IO_STRUCTS and IO_STRUCTS[self.f.owner].get("state"):
            # `Self { h, a, b: e }` of an iterator struct: every field once; a handle field is the handle parameter
            name = self.f.owner
            st = IO_STRUCTS[name]
            given = [x[0] for x in e[2]]
            if sorted(given) != sorted(list(st["handles"]) + [fld for fld, _fc in st["fields"]]):
                fail("%s: the struct literal does not give every field of `%s` exactly once" % (w, name))
            vals = dict((x[0], x[1]) for x in e[2])
            for h, kind in st["handles"].items():
                a = vals[h]
                if not (a[0] == "path" and len(a[1]) == 1 and self.f.handle_params.get(a[1][0]) == kind):
                    fail("%s: the field `%s` of the `%s` is not the parameter of the function" % (w, h, name))
            out = {}
            for fld, fc in st["fields"]:
                t, ty = self.px(vals[fld])
                if ty != fc:
                    fail("%s: field `%s` of class %r gets a value of class %r" % (w, fld, fc, ty))
                out[fld] = (t, fc, self.root_of(self.var_of(vals[fld])))
            return name, out
        fail("%s: a piece struct is expected here (a struct variable or one of the pinned constructors)" % w)

    def is_struct_expr(self, e):
        if e[0] == "path" and len(e[1]) == 1:
            t = self.vt.get(e[1][0])
            return isinstance(t, tuple) and t[0] == "struct"
        if e[0] == "structlit":
            return True
        return e[0] == "call" and len(e[1]) == 2 and e[1][0] in IO_STRUCTS and e[1][1] in IO_STRUCTS[e[1][0]]["ctors"]

    def trait_handle(self, recv):
        """`file_a` (parameter) / `self.file_a` (field of the iterator struct) of type `Box<dyn PieceA<T>>`: its Lean name"""
        if recv[0] == "path" and len(recv[1]) == 1 and self.f.handle_params.get(recv[1][0]) == "piecea":
            return IO_HANDLE_LEAN["piecea"][0]
        if (self.f.state and recv[0] == "field" and recv[1] == ("path", ["self"])
                and IO_STRUCTS[self.f.state]["handles"].get(recv[2]) == "piecea"):
            return IO_HANDLE_LEAN["piecea"][0]
        return None

    # ---- who is called
    def resolve(self, recv, name):
        """(`prim`, entry) | (`fn`, IoFn) | (`dropped`, note) | (`pure`, struct name) | None"""
        rt = self.text(recv)
        th = self.trait_handle(recv)
        if th is not None:
            # a method of the trait object `dyn PieceA<T>`: a field of the Lean structure `PieceA`
            return ("trait", IO_PIECEA[name], th) if name in IO_PIECEA else ("unknown-self", None)
        if rt in self.vf_texts:
            if name in IO_DROPPED_CALLS:
                return ("dropped", IO_DROPPED_CALLS[name])
            if name in IO_PRIMS:
                return ("prim", IO_PRIMS[name])
            if name == "seek":
                return ("seek", None)
            if name == "read_exact":
                return ("readexact", None)
            if ("VarFile", ALIASES.src_to_cfg("VarFile", name)) in self.table:
                return ("fn", self.table[("VarFile", ALIASES.src_to_cfg("VarFile", name))])
            return ("unknown-vf", None)
        if recv[0] == "field" and recv[2] == "buf_file" and self.text(recv[1]) in self.vf_texts:
            if name in IO_BUF_PRIMS:
                return ("prim", IO_BUF_PRIMS[name])
            return None
        if rt == "self" and self.f.owner in ("VarFileValueCache", "VarFileKeyCache"):
            if (self.f.owner, ALIASES.src_to_cfg(self.f.owner, name)) in self.table:
                return ("fn", self.table[(self.f.owner, ALIASES.src_to_cfg(self.f.owner, name))])
            return ("unknown-self", None)
        if self.f.engine:
            # the wrapper layers around the three files, the key file held open, the engine itself
            tgt = io_call_target(self.f, ("mcall", recv, name, []), self.handles)
            if tgt is not None:
                key, via, argspec = tgt
                if key not in self.table:
                    return ("unknown-self", None)
                return ("fn", self.table[key], via, argspec)
        if recv[0] == "path" and len(recv[1]) == 1 and isinstance(self.vt.get(recv[1][0]), tuple) \
                and self.vt[recv[1][0]][0] == "struct":
            sn = self.vt[recv[1][0]][1]
            if (sn, ALIASES.src_to_cfg(sn, name)) in self.table:
                return ("fn", self.table[(sn, ALIASES.src_to_cfg(sn, name))])
            if name in IO_STRUCTS[sn]["pure"]:
                return ("pure", sn)
        return None

    # ---- pure expressions: (Lean text, type class)
    def leaves_width(self, e):
        """the common width of the variables of an arithmetic expression, None if one is unknown"""
        if e[0] == "bin" and e[1] in ("+", "*"):
            a, b = self.leaves_width(e[2]), self.leaves_width(e[3])
            return a if a == b else None
        if e[0] == "path" and len(e[1]) == 1:
            return self.width.get(e[1][0])
        return None

    def px(self, e):
        k = e[0]
        w = self.where
        if k == "num":
            return str(e[1]), "int"
        if k == "path":
            if len(e[1]) == 1 and e[1][0] in ("true", "false") and e[1][0] not in self.vt:
                return e[1][0], "bool"
            if len(e[1]) == 1 and e[1][0] in self.vt:
                if isinstance(self.vt[e[1][0]], tuple) and self.vt[e[1][0]][0] == "struct":
                    fail("%s: the piece struct `%s` is used where a plain value is expected" % (w, e[1][0]))
                return self.names[e[1][0]], self.vt[e[1][0]]
            if len(e[1]) == 1 and e[1][0] in self.f.consts:
                # a constant of Consts.lean (checked to be this one; the name is reserved)
                return io_const_name(self.f.consts[e[1][0]]), io_const_cls(self.f.consts[e[1][0]])
            if e[1] == ["None"]:
                return "none", ("option", None)
            fail("%s: `%s` is not a local variable or parameter" % (w, "::".join(e[1])))
        if k == "field":
            if io_text(e) in self.f.field_params:
                return self.names[io_text(e)], self.vt[io_text(e)]
            key = self.field_key(e)
            if key is not None:
                if key in self.vt:
                    return self.names[key], self.vt[key]
                fail("%s: the field `%s` is read before it is assigned (it is configured as not being an input "
                     "of the function)" % (w, key))
            if io_text(e) in self.vt and e[1][0] == "path" and e[1][1][0] in self.caches:
                return self.names[io_text(e)], self.vt[io_text(e)]     # `file_nc.buckets_size`: the data of a local cache struct
            fail("%s: field access `%s` is outside the imperative I/O subset" % (w, self.text(e)))
        if k in ("array", "repeat"):
            # `[0u8, 0u8, …]` / `[0u8; N]`: a byte array (only literals that fit a `u8`; the element type is that of the
            # `&[u8]` / `[u8; N]` it is used as)
            items = e[1] if k == "array" else [e[1]]
            if not items or any(x[0] != "num" or x[1] >= 256 for x in items):
                fail("%s: an array expression whose elements are not `u8` literals" % w)
            if k == "array":
                return "[" + ", ".join(str(x[1]) for x in items) + "]", "bytes"
            if e[2][0] != "num":
                fail("%s: `[x; n]` with a length that is not a literal" % w)
            return "(List.replicate %d %d)" % (e[2][1], items[0][1]), "bytes"
        if k == "tuple":
            if not e[1]:
                return "()", "unit"
            xs = [self.px(x) for x in e[1]]
            return "(" + ", ".join(x[0] for x in xs) + ")", ("tuple", [x[1] for x in xs])
        if k == "call":
            p = e[1]
            if len(p) == 2 and p[1] == "new" and p[0] in IO_NEWTYPES and len(e[2]) == 1:
                t, ty = self.px(e[2][0])
                if ty != "int":
                    fail("%s: %s::new(..) of something that is not a plain integer" % (w, p[0]))
                cls = IO_NEWTYPES[p[0]]
                wd = IO_NEWTYPE_WIDTH[cls]
                if e[2][0][0] == "bin" and self.leaves_width(e[2][0]) == "u%d" % wd:
                    # `u32 + u32` as the argument of `new(val: u32)`: computed in `u32`, which wraps in a release build
                    t = "(%s %% 2^%d)" % (t, wd)
                return t, cls                                    # newtype constructor erased
            if len(p) == 2 and p[1] == "from" and p[0] in WIDTH and len(e[2]) == 1:
                # `u64::from(x)` (lossless, by the type checker) is `x as u64`; of a newtype it is `.into()`
                t, ty = self.px(e[2][0])
                if ty in NUMERIC and ty != "int":
                    return t, "int"
                return self.px(("cast", e[2][0], p[0]))
            if p == ["vu64", "decoded_len"] and len(e[2]) == 1:
                t, ty = self.px(e[2][0])
                if ty != "int":
                    fail("%s: vu64::decoded_len(..) of something that is not a plain integer" % w)
                return "(Abyss.Vu64.decodedLen %s)" % io_atom(t), "int"
            if p == ["Some"] and len(e[2]) == 1:
                t, ty = self.px(e[2][0])
                return "(some %s)" % io_atom(t), ("option", ty)
            if p == ["std", "mem", "size_of_val"] and len(e[2]) == 1:
                # `std::mem::size_of_val(&v)` of an integer variable: the number of bytes of its type
                a = e[2][0]
                if not (a[0] == "path" and len(a[1]) == 1 and self.vt.get(a[1][0]) == "int"):
                    fail("%s: std::mem::size_of_val(..) of something that is not a plain integer variable" % w)
                return str(WIDTH[self.decl_width(a[1][0])] // 8), "int"
            if len(p) == 2 and p[1] == "default" and p[0] in IO_STATS and not e[2]:
                return "[]", IO_STATS[p[0]][0]                  # `#[derive(Default)]` of the tuple struct around a `Vec` (pinned)
            if p == ["Vec", "new"] and not e[2]:
                # the element type is that of the `push`es and of the `return` (each checked to be `(u32, u64)`)
                return "[]", "pairs"
            if p == ["KT", "from_bytes"] and len(e[2]) == 1:
                t, ty = self.px(e[2][0])
                if ty != "bytes":
                    fail("%s: KT::from_bytes(..) of something that is not a byte sequence" % w)
                return t, "bytes"                                # a key is its bytes
            fail("%s: call of `%s` is outside the imperative I/O subset" % (w, "::".join(p)))
        if k == "mcall":
            recv, name, args = e[1], e[2], e[3]
            rt = self.text(recv)
            pm = recv[0] == "field" and recv[2] == "piece_mgr" and self.text(recv[1]) in self.vf_texts
            if pm and name == "free_piece_list_offset_of_header" and len(args) == 1:
                t, ty = self.px(args[0])
                if ty != "Size":
                    fail("%s: free_piece_list_offset_of_header(..) of something that is not a PieceSize" % w)
                return "(freePieceListOffsetOfHeader c.freeOffsets c.sizeAry %s)" % io_atom(t), "int"
            if pm and name == "roundup" and len(args) == 1:
                t, ty = self.px(args[0])
                if ty != "Size":
                    fail("%s: roundup(..) of something that is not a PieceSize" % w)
                return "(roundup c.sizeAry %s)" % io_atom(t), "Size"
            if name == "is_large_piece_size" and len(args) == 1 and args[0][0] == "field" \
                    and args[0][2] == "piece_mgr" and self.text(args[0][1]) in self.vf_texts:
                t, ty = self.px(recv)
                if ty != "Size":
                    fail("%s: .is_large_piece_size(..) on something that is not a PieceSize" % w)
                return "(isLargePieceSize c.sizeAry %s)" % io_atom(t), "bool"
            r = self.resolve(recv, name)
            if r is not None and r[0] == "pure":
                lean, argspec, rcls, _rw = IO_STRUCTS[r[1]]["pure"][name]
                if args:
                    fail("%s: %s.%s(..) takes no arguments" % (w, rt, name))
                _n, sv = self.px_struct(recv)
                out = lean
                for a in argspec:
                    fld = a.split(".")[0]
                    if fld not in sv:
                        fail("%s: %s.%s() reads the field `%s`, which has no value here" % (w, rt, name, fld))
                    out += " " + (sv[fld][0] + ".length" if a.endswith(".len") else io_atom(sv[fld][0]))
                return "(%s)" % out, rcls
            if r is not None or (self.field_key(recv) is None and
                                 any(n[0] == "path" and n[1] == ["self"] for n in io_walk(recv))):
                fail("%s: `%s.%s(..)`: only methods of the VarFile that are translated functions or bottom primitives, "
                     "`<vf>.buf_file.write_zero(..)`/`read_u8()`, `<vf>.piece_mgr.free_piece_list_offset_of_header(..)`/"
                     "`roundup(..)` are supported, and a `Result` must be consumed by `?`, `let … = …?`, or the tail position"
                     % (w, rt, name))
            if name in ("into", "as_value") and not args:
                t, ty = self.px(recv)
                if ty not in NUMERIC:
                    fail("%s: .%s() on a value of class %r" % (w, name, ty))
                return t, "int"                                  # `From` between a newtype / integer and a wider integer
            if name == "is_zero" and not args:
                t, ty = self.px(recv)
                if ty not in ("Offset", "Size", "Length"):
                    fail("%s: .is_zero() on a value of class %r" % (w, ty))
                return "(%s == 0)" % t, "bool"
            if name == "clone" and not args and self.var_of(recv) is not None and (
                    self.vt.get(self.var_of(recv)) in NUMERIC or self.vt.get(self.var_of(recv)) == "bool"):
                return self.px(recv)                             # `.clone()` of a `Copy` value (an integer / newtype / bool)
            if name in IO_BYTES_IDENTITY and not args:
                t, ty = self.px(recv)
                if ty != "bytes":
                    fail("%s: .%s() on a value of class %r (only on a byte sequence / key)" % (w, name, ty))
                return t, "bytes"
            if name == "len" and not args:
                t, ty = self.px(recv)
                if ty != "bytes":
                    fail("%s: .len() on a value of class %r" % (w, ty))
                return "%s.length" % io_atom(t), "int"
            fail("%s: method `.%s(..)` is outside the imperative I/O subset" % (w, name))
        if k == "not":
            t, ty = self.px(e[1])
            if ty != "bool":
                fail("%s: `!` on something that is not a condition" % w)
            return "(!%s)" % t, "bool"
        if k == "cast":
            t, ty = self.px(e[1])
            if ty != "int" or e[2] not in WIDTH:
                fail("%s: unsupported cast `as %s` of a value of class %r" % (w, e[2], ty))
            if (e[1][0] == "num" and e[1][1] < 2 ** WIDTH[e[2]]) or (re.match(r"^\d+$", t) and int(t) < 2 ** WIDTH[e[2]]):
                return t, "int"
            # all integers of this subset are unsigned: `as uN` is `% 2^N` (the identity when widening)
            return "(%s %% 2^%d)" % (t, WIDTH[e[2]]), "int"
        if k == "bin":
            op = e[1]
            if op in ("&", "|", "^", "<<", ">>"):
                fail("%s: bit operator `%s` outside `v &= e;` / `v |= e;` on a `u8` variable (the width of the operands "
                     "is not known here)" % (w, op))
            if op in ("&&", "||"):
                # the right operand is not always evaluated: no guard can be put in front of the statement
                g, self.guards = self.guards, None
                (a, ta), (b, tb) = self.px(e[2]), self.px(e[3])
                self.guards = g
                if ta != "bool" or tb != "bool":
                    fail("%s: `%s` on something that is not a condition" % (w, op))
                return "(%s %s %s)" % (a, op, b), "bool"
            (a, ta), (b, tb) = self.px(e[2]), self.px(e[3])
            if op in ("==", "!=") and ta == "bytes" and tb == "bytes":
                # `[u8; N] == [u8; N]` (arrays of one length, the type checker sees to that): equality of the lists
                return "(%s %s %s)" % (a, op, b), "bool"
            if op in ("<", ">", "<=", ">=", "==", "!="):
                if ta != tb or ta not in NUMERIC:
                    fail("%s: comparison `%s` of values of classes %r and %r" % (w, op, ta, tb))
                if op in ("==", "!="):
                    return "(%s %s %s)" % (a, op, b), "bool"
                return "(decide (%s %s %s))" % (a, {"<": "<", ">": ">", "<=": "≤", ">=": "≥"}[op], b), "bool"
            if op == "+":
                if (ta, tb) == ("Offset", "Size"):
                    return "(%s + %s)" % (a, b), "Offset"        # semtype.rs `Add<PieceSize<T>> for Offset<T>` (pinned)
                if (ta, tb) == ("int", "int"):
                    return "(%s + %s)" % (a, b), "int"
            if op == "-":
                if (ta, tb) in (("Offset", "Offset"), ("int", "int")):
                    if (a, b) not in self.facts and (ta, tb) == ("int", "int") and self.guards is not None:
                        # unsigned `a - b` without a guard in the source: a debug build panics when `a < b`, a
                        # release build wraps; the translation fails (= outside the model) in front of the statement
                        self.guards.append("(if (decide (%s < %s)) then %s else pure ())" % (a, b, self.f.failtxt))
                        return "(%s - %s)" % (a, b), "int"
                    if (a, b) not in self.facts:
                        fail("%s: `%s - %s` without an enclosing `if %s > %s` / `>=`: truncated subtraction "
                             "would not be exact" % (w, a, b, a, b))
                    if ta == "Offset":
                        # semtype.rs `Sub<Offset<T>> for Offset<T>`: `(self.val - rhs.val) as u32` (pinned)
                        return "((%s - %s) %% 2^32)" % (a, b), "Size"
                    return "(%s - %s)" % (a, b), "int"
            if op == "/" and (ta, tb) == ("int", "int") and not re.match(r"^[1-9]\d*$", b):
                # division by something that is not a positive literal: Rust panics when it is 0 (`Nat` gives 0)
                if self.guards is None:
                    fail("%s: `%s / %s` where no guard against a zero divisor can be emitted" % (w, a, b))
                self.guards.append("(if (%s == 0) then %s else pure ())" % (b, self.f.failtxt))
            if op in ("*", "/", "%") and (ta, tb) == ("int", "int"):
                return "(%s %s %s)" % (a, op, b), "int"
            fail("%s: operator `%s` on values of classes %r and %r" % (w, op, ta, tb))
        if k == "try":
            fail("%s: `?` inside an expression (supported: `let x = call?;`, `v = call?;`, `call?;`, `(call?, x)` as the value of a block)" % w)
        if k == "neg":
            fail("%s: unary minus (supported only as `seek(SeekFrom::Current(-(n as i64)))` with `n: u32`)" % w)
        fail("%s: expression kind `%s` is outside the imperative I/O subset" % (w, k))

    def px_guarded(self, e):
        """a pure expression whose unguarded subtractions are guarded by do-items: (do-items, Lean text, class)"""
        if self.guards is not None:
            return [], *self.px(e)
        self.guards = []
        try:
            t, ty = self.px(e)
            pre = self.guards
        finally:
            self.guards = None
        return pre, t, ty

    def px_bits(self, e, wd):
        """an expression of the integer type `wd` (only `u8`) built from `!`, `&`, `|`, `<<`: Lean text.
        `!x` = `u8Not x`, `x << n` = `u8Shl x n` (prelude of FileOps.lean), `&`/`|` = `Nat.land`/`Nat.lor`."""
        w = self.where
        if wd != "u8":
            fail("%s: bit operations on a `%s` (only `u8` is supported)" % (w, wd))
        k = e[0]
        if k == "num":
            if e[1] >= 2 ** WIDTH[wd]:
                fail("%s: the literal %d does not fit `%s`" % (w, e[1], wd))
            return str(e[1])
        if k == "path" and len(e[1]) == 1 and self.vt.get(e[1][0]) == "int":
            if self.width.get(e[1][0]) != wd:
                fail("%s: `%s` in a bit operation on `%s`: its width is %s" % (w, e[1][0], wd, self.width.get(e[1][0]) or "unknown"))
            return self.names[e[1][0]]
        if k == "not":
            return "(u8Not %s)" % self.px_bits(e[1], wd)
        if k == "bin" and e[1] in ("&", "|"):
            return "(Nat.%s %s %s)" % ("land" if e[1] == "&" else "lor", self.px_bits(e[2], wd), self.px_bits(e[3], wd))
        if k == "bin" and e[1] == "<<":
            n, tn = self.px(e[3])
            if tn != "int":
                fail("%s: shift by something that is not a plain integer" % w)
            return "(u8Shl %s %s)" % (self.px_bits(e[2], wd), io_atom(n))
        fail("%s: unsupported operand of a bit operation on `%s` (kind `%s`)" % (w, wd, k if k != "bin" else "`%s`" % e[1]))

    def decl_width(self, v):
        """the integer type of the local `v`, declared once as `let mut v = <literal>;` and assigned only
        `v = <bottom primitive>()?` (the primitive's result type)"""
        w = self.where
        lets = [n for n in io_walk(self.f.body) if n[0] == "let" and v in pat_vars(n[1])]
        if len(lets) != 1 or lets[0][1] != ("pvar", v):
            fail("%s: the integer type of `%s` is not evident (%d declarations)" % (w, v, len(lets)))
        if lets[0][2] in WIDTH:
            return lets[0][2]
        if lets[0][3][0] != "num":
            fail("%s: the integer type of `%s` is not evident (no annotation, not a literal)" % (w, v))
        ws = set()
        for n in io_walk(self.f.body):
            if n[0] == "assign" and n[2] == ("path", [v]):
                if n[1] != "=":
                    continue                                         # `v += e` does not change the type
                wd = self.mex_width(n[3][1]) if n[3][0] == "try" else None
                if wd is None:
                    fail("%s: the integer type of `%s` is not evident (an assignment that is not `%s = <primitive>()?`)" % (w, v, v))
                ws.add(wd)
        if len(ws) != 1:
            fail("%s: the integer type of `%s` is not evident (%s)" % (w, v, ", ".join(sorted(ws)) or "never assigned"))
        return ws.pop()

    def px_lift(self, e):
        """a value whose tuple components may be `call?`: (do-items that run the calls, Lean text, class)"""
        if e[0] == "tuple" and any(x[0] == "try" for x in e[1]):
            pre, xs = [], []
            for x in e[1]:
                if x[0] == "try":
                    lines, ty = self.mex(x[1])
                    if isinstance(ty, tuple) or ty == "unit":
                        fail("%s: `call?` of class %r as a tuple component" % (self.where, ty))
                    n = sum(1 for l in pre if l.startswith("let tryVal"))
                    tv = "tryVal" + ("" if n == 0 else str(n + 1))
                    pre += io_attach("let %s ← " % tv, lines)
                    xs.append((tv, ty))
                else:
                    if any(n[0] == "try" for n in io_walk(x)):
                        fail("%s: `?` nested inside a tuple component" % self.where)
                    xs.append(self.px(x))
            return pre, "(" + ", ".join(x[0] for x in xs) + ")", ("tuple", [x[1] for x in xs])
        t, ty = self.px(e)
        return [], t, ty

    def cond(self, e):
        t, ty = self.px(e)
        if ty != "bool":
            fail("%s: condition of class %r" % (self.where, ty))
        return t

    def cond_facts(self, c):
        """`a ≥ b` facts that hold in the then-branch of `if c` (sides: plain variables or literals)"""
        def side(x):
            if x[0] == "path" and len(x[1]) == 1 and x[1][0] in self.vt and self.vt[x[1][0]] in NUMERIC:
                return self.names[x[1][0]]
            if x[0] == "field" and self.field_key(x) in self.vt and self.vt[self.field_key(x)] in NUMERIC:
                return self.names[self.field_key(x)]         # `self.remaining_item_count > 0`
            if x[0] == "num":
                return str(x[1])
            return None
        if c[0] == "bin" and c[1] in (">", ">=", "<", "<="):
            a, b = side(c[2]), side(c[3])
            if a is not None and b is not None:
                out = [(a, b)] if c[1] in (">", ">=") else [(b, a)]
                if c[1] == ">" and c[3][0] == "num":
                    out.append((a, str(c[3][1] + 1)))                # `a > k` is `a ≥ k + 1`
                return out
        return []

    # ---- monadic expressions (`Result`-typed): (lines of a Lean term, class of the value)
    def is_monadic(self, e):
        k = e[0]
        if k == "call":
            return e[1] == ["Ok"] or self.free_fn(e) is not None
        if k == "mcall":
            if e[2] == "map":
                return self.is_monadic(e[1])
            r = self.resolve(e[1], e[2])
            return r is not None and r[0] in ("prim", "fn", "dropped", "seek", "trait", "readexact")
        if k == "block":
            return e[2] is not None and self.is_monadic(e[2])
        if k == "if":
            return self.is_monadic(e[2]) or (e[3] is not None and self.is_monadic(e[3]))
        return False

    def free_fn(self, e):
        """`f(..)` with `f` a translated free function of the file of this function: its IoFn"""
        if e[0] == "call" and len(e[1]) == 1 and self.f.rel in IO_FREE_OWNER:
            return self.table.get((IO_FREE_OWNER[self.f.rel], ALIASES.src_to_cfg(IO_FREE_OWNER[self.f.rel], e[1][0])))
        return None

    def handle_value(self, e):
        """`Self(Rc::new(RefCell::new(c)))` with `c` a local cache struct around the VarFile: the handle (`KeyFile<KT>`,
        `ValueFile`, `HtxFile`; definitions pinned) is represented by the data of its cache struct (the file is the state of
        the monad): (Lean text, class) = `()` / the `buckets_size` of the `VarFileHtxCache`"""
        if not (e[0] == "call" and e[1] == ["Self"] and len(e[2]) == 1 and e[2][0][0] == "call" and e[2][0][1] == ["Rc", "new"]
                and len(e[2][0][2]) == 1 and e[2][0][2][0][0] == "call" and e[2][0][2][0][1] == ["RefCell", "new"]
                and len(e[2][0][2][0][2]) == 1 and e[2][0][2][0][2][0][0] == "path" and len(e[2][0][2][0][2][0][1]) == 1):
            return None
        c = e[2][0][2][0][2][0][1][0]
        if c not in self.caches:
            return None
        sname, key = self.caches[c]
        if self.f.open_kind is None or IO_OPEN[self.f.open_kind][1] != sname:
            fail("%s: `Self(Rc::new(RefCell::new(%s)))` of a `%s`: not the cache struct of this handle" % (self.where, c, sname))
        if key is None:
            return "()", "unit"
        return self.names[key], self.vt[key]

    def args(self, args, classes, what):
        if len(args) != len(classes):
            fail("%s: %s takes %d argument(s), %d given" % (self.where, what, len(classes), len(args)))
        out = ""
        for a, cls in zip(args, classes):
            t, ty = self.px(a)
            if (cls in NUMERIC and ty not in NUMERIC) or (cls not in NUMERIC and ty != cls):
                fail("%s: argument of class %r in the call of %s (%r expected)" % (self.where, ty, what, cls))
            out += " " + io_atom(t)
        return out

    def call_fn(self, g, recv, args, what, via=None, argspec=None):
        """call of a translated function: (Lean term, class of its value).  `via`: the file of the engine the
        function works on (`key`/`val`/`htx`: lifted into `DbM`); `argspec`: the call goes through a pinned
        wrapper `fn m(&self, p…) { let mut locked = self.0.borrow_mut(); locked.g(a…) }`, a… = parameters / literals"""
        w = self.where
        if argspec is not None:
            nparams, spec = argspec
            if len(args) != nparams:
                fail("%s: %s takes %d argument(s), %d given" % (w, what, nparams, len(args)))
            args = [args[x[1]] if x[0] == "param" else x[1] for x in spec]
        out = g.lean + "".join(" " + io_map_ctx(x, via) for x in g.needs)
        params = list(g.params)
        passed = {}                    # key of a parameter of `g` -> root variable of the argument
        passed_txt = {}                # key of a parameter of `g` -> Lean text of the argument
        def struct_arg(p, e):
            nonlocal out
            name, sv = self.px_struct(e)
            if ("struct", name) != p.cls:
                fail("%s: a `%s` is passed where %s expects %r" % (w, name, what, p.cls))
            for fld, fc, _ln, inp in p.fields:
                if inp:
                    if fld not in sv:
                        fail("%s: %s reads the field `%s` of its `%s`, which has no value here" % (w, what, fld, name))
                    out += " " + io_atom(sv[fld][0])
                    passed[p.rust + "." + fld] = sv[fld][2]
                    passed_txt[p.rust + "." + fld] = sv[fld][0]
        if g.recv_struct:
            struct_arg(params[0], recv)
            params = params[1:]
        if len(args) != len(params):
            fail("%s: %s takes %d argument(s), %d given" % (w, what, len(params), len(args)))
        for p, a in zip(params, args):
            if p.cls == "vfile":
                if self.text(a) not in self.vf_texts:
                    fail("%s: %s: the `&mut VarFile` argument is not the VarFile of this function" % (w, what))
            elif p.cls == "unused" or (p.cls == "dbparams" and p.lean is None):
                pass
            elif p.fields is not None:
                struct_arg(p, a)
            else:
                at = self.args([a], [p.cls], what)
                out += at
                passed[p.rust] = self.root_of(self.var_of(a))
                passed_txt[p.rust] = at.strip()
        ret = g.ret
        if isinstance(ret, tuple) and ret[0] == "struct":
            ret = ("sres", ret[1], tuple(g.ret_fields),
                   tuple((fld, passed.get(pk)) for fld, pk in sorted(g.ret_omitted.items())),
                   tuple((fld, passed_txt.get(pk)) for fld, pk in sorted(g.ret_omitted.items())))
        if via in ("key", "val", "htx"):
            out = "%s %s" % ({"key": "liftKey", "val": "liftVal", "htx": "liftHtx"}[via], io_atom(out))
        elif self.f.engine and via != "self":
            fail("%s: %s: a function of one file is called without saying of which" % (w, what))
        return out, ret

    def mex(self, e):
        k = e[0]
        w = self.where
        if k == "call" and self.free_fn(e) is not None:
            t, ty = self.call_fn(self.free_fn(e), None, e[2], e[1][0])
            return [t], ty
        if k == "call" and e[1] == ["Ok"] and len(e[2]) == 1 and e[2][0][0] == "try" and self.is_monadic(e[2][0][1]):
            return self.mex(e[2][0][1])                          # `Ok(call?)` is `call` (the error type is the same `io::Error`)
        if k == "call" and e[1] == ["Ok"] and len(e[2]) == 1 and self.handle_value(e[2][0]) is not None:
            t, ty = self.handle_value(e[2][0])
            return ["pure " + t], ty
        if k == "call" and e[1] == ["Ok"] and len(e[2]) == 1:
            if self.is_struct_expr(e[2][0]):
                name, sv = self.px_struct(e[2][0])
                rf = self.f.ret_fields or []
                for fld in rf:
                    if fld not in sv:
                        fail("%s: the field `%s` of the returned `%s` has no value here" % (w, fld, name))
                txt = "(" + ", ".join(sv[fld][0] for fld in rf) + ")" if len(rf) != 1 else sv[rf[0]][0]
                omitted = tuple((fld, sv[fld][2] if fld in sv else None)
                                for fld, _fc in IO_STRUCTS[name]["fields"] if fld not in rf)
                omitted_txt = tuple((fld, sv[fld][0] if fld in sv else None)
                                    for fld, _fc in IO_STRUCTS[name]["fields"] if fld not in rf)
                return ["pure " + io_atom(txt)], ("sres", name, tuple(rf), omitted, omitted_txt)
            pre, t, ty = self.px_guarded(e[2][0])
            if pre:
                return ["do"] + ind(pre + ["pure " + io_atom(t)]), ty
            return ["pure " + io_atom(t)], ty
        if k == "mcall":
            recv, name, args = e[1], e[2], e[3]
            rt = self.text(recv)
            if name == "map" and len(args) == 1 and self.is_monadic(recv):
                lines, ty = self.mex(recv)
                f = args[0]
                if f[0] == "path" and len(f[1]) == 2 and f[1][1] == "new" and f[1][0] in IO_NEWTYPES:
                    if ty != "int":
                        fail("%s: .map(%s::new) of a value that is not a plain integer" % (w, f[1][0]))
                    return lines, IO_NEWTYPES[f[1][0]]           # `.map(Newtype::new)`: erased
                if f == ("path", ["Some"]):
                    if isinstance(ty, tuple) and ty[0] == "sres":
                        fail("%s: .map(Some) of a piece struct" % w)
                    if len(lines) != 1:
                        fail("%s: `.map(Some)` on a compound expression" % w)
                    return ["do", "  let tryVal ← %s" % lines[0], "  pure (some tryVal)"], ("option", ty)
                if f[0] == "closure" and len(f[1]) == 1 and f[1][0][0] == "pvar":
                    snap = self.snapshot()
                    used = dict(self.lean_used)
                    v = self.bind_pat(f[1][0], ty)
                    bt, bty = self.px(f[2])
                    self.restore(snap)
                    self.lean_used = used
                    if bt == v:
                        return lines, bty                        # `.map(|v| Newtype::new(v))`: erased
                    if len(lines) != 1:
                        fail("%s: `.map(|..| ..)` on a compound expression" % w)
                    return ["do", "  let %s ← %s" % (v, lines[0]), "  pure %s" % io_atom(bt)], bty
                fail("%s: unsupported argument of `.map(..)`" % w)
            r = self.resolve(recv, name)
            if r is not None and r[0] == "seek":
                a = args[0] if len(args) == 1 else None
                if a is not None and a[0] == "call" and a[1] == ["SeekFrom", "Start"]:
                    return ["FileM.seek" + self.args(a[2], ["int"], "SeekFrom::Start")], "int"
                if a is not None and a[0] == "call" and a[1] == ["SeekFrom", "End"] and a[2] == [("num", 0)]:
                    return ["FileM.seekEnd"], "int"
                if (a is not None and a[0] == "call" and a[1] == ["SeekFrom", "Current"] and len(a[2]) == 1
                        and a[2][0][0] == "cast" and a[2][0][2] == "i64" and a[2][0][1][0] == "path"
                        and len(a[2][0][1][1]) == 1 and self.width.get(a[2][0][1][1][0]) in ("u8", "u16", "u32")):
                    # a `u32` widened to `i64` is not negative: a forward seek
                    return ["FileM.seekCur" + self.args([a[2][0][1]], ["int"], "SeekFrom::Current")], "int"
                if (a is not None and a[0] == "call" and a[1] == ["SeekFrom", "Current"] and len(a[2]) == 1
                        and a[2][0][0] == "neg" and a[2][0][1][0] == "cast" and a[2][0][1][2] == "i64"
                        and a[2][0][1][1][0] == "path" and len(a[2][0][1][1][1]) == 1
                        and self.width.get(a[2][0][1][1][1][0]) in ("u8", "u16", "u32")):
                    # `-(n as i64)` with `n: u32`: a backward seek by `n`; before the start of the file it is an error
                    return ["FileM.seekBack" + self.args([a[2][0][1][1]], ["int"], "SeekFrom::Current")], "int"
                fail("%s: only `seek(SeekFrom::Start(x))`, `seek(SeekFrom::End(0))`, `seek(SeekFrom::Current(n as i64))`, "
                     "`seek(SeekFrom::Current(-(n as i64)))` with `n: u32` are supported" % w)
            if r is not None and r[0] == "readexact":
                fail("%s: `%s.read_exact(..)` is only supported as the statement `%s.read_exact(&mut buf)?;` with `buf` a local "
                     "byte array declared as `let mut buf = [0u8, …];` (its length is the number of bytes read)" % (w, rt, rt))
            if r is not None and r[0] == "prim":
                lean, classes, ty, _wd = r[1]
                return [lean + self.args(args, classes, "%s.%s" % (rt, name))], ty
            if r is not None and r[0] == "trait":
                (classes, ty, lfield), hl = r[1], r[2]
                return ["%s.%s%s" % (hl, lfield, self.args(args, classes, "%s.%s" % (rt, name)))], ty
            if r is not None and r[0] == "fn":
                t, ty = self.call_fn(r[1], recv, args, "%s.%s" % (rt, name), *r[2:])
                return [t], ty
            if r is not None and r[0] == "unknown-self" and rt in ("self.key_file", "self.val_file"):
                fail("%s: call of `%s.%s(..)`: the method `%s` of the wrapper layer is not exactly `{ let mut locked = "
                     "self.0.borrow_mut(); locked.g(args) }` (args: its parameters / boolean literals) around a translated "
                     "function `g`" % (w, rt, name, name))
            if r is not None and r[0] in ("unknown-vf", "unknown-self"):
                fail("%s: call of `%s.%s(..)`: not one of the translated functions or bottom primitives" % (w, rt, name))
        fail("%s: unsupported expression where a `Result` is expected (kind `%s`)" % (w, k))

    def mex_width(self, e):
        """width of the value of a bottom primitive, where it is known"""
        if e[0] == "mcall":
            r = self.resolve(e[1], e[2])
            if r is not None and r[0] == "prim":
                return r[1][3]
        return None

    def scoped(self, stmts, tail, ctx, facts=()):
        snap = self.snapshot()
        self.facts = self.facts + list(facts)
        lines = self.seq(stmts, tail, ctx)
        self.restore(snap, io_assigned(stmts, self.where))
        return lines

    def mtail(self, e, ctx):
        """a `Result`-typed expression in tail position of the function (the last item of a do block)"""
        if io_option_match(e) is not None:
            e = io_option_match(e)
        if e[0] == "if":
            if e[3] is None:
                fail(self.where + ": `if` without `else` as a value")
            c = self.cond(e[1])
            a = self.scoped(e[2][1], e[2][2], ctx, self.cond_facts(e[1]))
            b = self.mtail(e[3], ctx) if e[3][0] == "if" else self.scoped(e[3][1], e[3][2], ctx)
            return ["if %s then" % c] + ind(a) + ["else"] + ind(b)
        if e[0] == "block":
            return self.scoped(e[1], e[2], ctx)
        if e[0] == "iflet":
            return self.iflet(e, [], None, ctx, False)
        if self.f.plain:
            # the function does not return a `Result`: a plain value
            if any(n[0] == "try" for n in io_walk(e)):
                fail(self.where + ": `?` in a function that does not return a `Result`")
            t, ty = self.px(e)
            self.check_ret(ty)
            return self.with_state(["pure " + io_atom(t)])
        lines, ty = self.mex(e)
        self.check_ret(ty)
        if lines[0] == "do":
            lines = [x[2:] for x in lines[1:]]      # `do` block as the last item of a do block: spliced
            if self.f.state:
                if not lines[-1].startswith("pure "):
                    fail(self.where + ": a compound expression as the value of a method of an iterator struct")
                return lines[:-1] + self.with_state(lines[-1:])
            return lines
        return self.with_state(lines)

    def value_if(self, e):
        """`if c { …; v } else { …; v' }` as a value: (lines of the monadic term, class, widths)"""
        w = self.where
        if e[3] is None or e[3][0] != "block":
            fail(w + ": `if` as a value needs `else { … }`")
        c = self.cond(e[1])
        ca, cb = CtxValue(self), CtxValue(self)
        a = self.scoped(e[2][1], e[2][2], ca, self.cond_facts(e[1]))
        b = self.scoped(e[3][1], e[3][2], cb)
        if ca.ty != cb.ty:
            fail("%s: the branches of an `if` used as a value have the classes %r and %r" % (w, ca.ty, cb.ty))
        return ["if %s then do" % c] + ind(a) + ["else do"] + ind(b), ca.ty

    def cmp_match(self, e):
        """exactly `match <key>.cmp_u8(<bytes>) { Ordering::Equal => a, Ordering::Greater => b, Ordering::Less => c }`
        (arms in any order, pure values): (lines of the monadic term, class).  `KT::cmp_u8` is the context
        parameter `cmp` (`Funcs.lean` `cmpU8…`); `none` = the comparison panics."""
        w = self.where
        sc = e[1]
        if not (self.f.engine and sc[0] == "mcall" and sc[2] == "cmp_u8" and len(sc[3]) == 1):
            fail("%s: `match` is only supported as `match k.cmp_u8(bytes) { Ordering::Equal => …, Ordering::Greater => …, "
                 "Ordering::Less => … }` and as the error recovery around `dat_write_piece_one`" % w)
        (kt, kty), (bt, bty) = self.px(sc[1]), self.px(sc[3][0])
        if kty != "bytes" or bty != "bytes":
            fail("%s: `.cmp_u8(..)` on values of classes %r and %r (a key and a byte sequence expected)" % (w, kty, bty))
        ctor = {"Equal": ".eq", "Greater": ".gt", "Less": ".lt"}
        if sorted(tuple(a[0]) for a in e[2]) != sorted(("Ordering", x) for x in ctor) or any(a[1] is not None for a in e[2]):
            fail("%s: the arms of the `match` on `cmp_u8` are not exactly `Ordering::Equal`, `Ordering::Greater`, `Ordering::Less`" % w)
        lines = ["match cmp %s %s with" % (io_atom(kt), io_atom(bt))]
        ty = None
        for path, _b, body in e[2]:
            if any(n[0] in ("try", "return", "returnx", "block", "if", "match") for n in io_walk(body)):
                fail("%s: an arm of the `match` on `cmp_u8` is not a plain value" % w)
            t, aty = self.px(body)
            if ty is not None and aty != ty:
                fail("%s: the arms of the `match` on `cmp_u8` have the classes %r and %r" % (w, ty, aty))
            ty = aty
            lines.append("| some %s => pure %s" % (ctor[path[1]], io_atom(t)))
        lines.append("| none => %s" % self.f.failtxt)
        return lines, ty

    def bind_struct(self, v, name, bound, others):
        """`let v = <a piece struct>`: the flattened variable `v`; the fields `bound` are bound by the pattern
        that is returned, the fields in `others` (field -> Lean text) by the `let`s returned second"""
        w = self.where
        if v == "_" or v in self.vt or v in self.handles:
            fail("%s: the piece struct `%s` hides a variable" % (w, v))
        self.vt[v] = ("struct", name)
        names = {}
        post = []
        for fld, fc in IO_STRUCTS[name]["fields"]:
            ln = io_ident(v + "_" + fld)
            if fld in bound:
                names[fld] = self.declare(v + "." + fld, fc, lean=ln)
            elif others.get(fld) is not None:
                txt = others[fld]
                post.append("let %s := %s" % (self.declare(v + "." + fld, fc, lean=ln), txt))
            else:
                fail("%s: the field `%s` of `%s` has no value (the call leaves it out and it is not an argument)" % (w, fld, v))
        pt = names[bound[0]] if len(bound) == 1 else "(" + ", ".join(names[x] for x in bound) + ")"
        return pt, post

    def iflet(self, e, rest, tail, ctx, stmt):
        """`if let Some(p) = opt { A } else { B }`: a `match` on the option.  In tail position of the function the
        branches are its value; in statement position the branches may only have effects (no assignment to an outer
        variable, no `return`)"""
        w = self.where
        _, pat, scrut, then, els = e
        if not (pat[0] == "pctor" and pat[1] == "Some" and len(pat[2]) == 1):
            fail("%s: `if let` with a pattern that is not `Some(p)`" % w)
        if els is None:
            fail("%s: `if let` without `else`" % w)
        sc = self.state_call(scrut)
        pre = []
        if sc is not None:
            pre, t, ty = sc                # `if let Some(p) = self.next_piece_offset()`: the call runs first
        else:
            t, ty = self.px(scrut)
        if not (isinstance(ty, tuple) and ty[0] == "option" and ty[1] is not None):
            fail("%s: `if let Some(..) = e` on a value of class %r" % (w, ty))
        if stmt:
            if then[2] is not None or els[2] is not None:
                fail("%s: `if let` in statement position whose branches have values" % w)
            if io_contains_return(then) or io_contains_return(els):
                fail("%s: `return` inside an `if let` in statement position" % w)
            asg = io_assigned(list(then[1]) + list(els[1]), w)
            if asg:
                fail("%s: an `if let` in statement position assigns `%s`" % (w, "`, `".join(asg)))
            bctx = CtxBranch(self, "()")
        else:
            bctx = ctx
        snap = self.snapshot()
        pt = self.bind_pat(pat[2][0], ty[1])
        a = self.seq(then[1], then[2], bctx)
        self.restore(snap, io_assigned(then[1], w))
        b = self.scoped(els[1], els[2], bctx)
        if stmt:
            lines = ["match %s with" % t, "| some %s => do" % pt] + ind(a) + ["| none => do"] + ind(b)
            return pre + io_attach("", lines) + self.seq(rest, tail, ctx)
        return pre + ["match %s with" % t, "| some %s =>" % pt] + ind(a) + ["| none =>"] + ind(b)

    def is_recovery_match(self, e):
        """exactly `match <call> { Ok(()) => (), Err(err) => { let _ = <vf>.set_file_length(x); return Err(err); } }`"""
        if e[0] != "match" or len(e[2]) != 2:
            return False
        (p1, b1, body1), (p2, b2, body2) = e[2]
        if not (p1 == ["Ok"] and b1 == "()" and body1 == ("tuple", [])):
            return False
        if not (p2 == ["Err"] and b2 not in (None, "()", "_") and body2[0] == "block" and body2[2] is None and len(body2[1]) == 2):
            return False
        s1, s2 = body2[1]
        if not (s1[0] == "let" and s1[1] == ("pvar", "_") and s1[2] is None and s1[3][0] == "mcall"
                and self.text(s1[3][1]) in self.vf_texts and s1[3][2] == "set_file_length" and len(s1[3][3]) == 1
                and s1[3][3][0][0] == "path"):
            return False
        return s2 == ("return", ("call", ["Err"], [("path", [b2])])) and not io_mentions_var(s1, b2)

    # ---- statements
    def seq(self, stmts, tail, ctx):
        """statement list + tail -> the items of a Lean `do` block"""
        w = self.where
        if not stmts:
            return ctx.tail(tail) if tail is not None else ctx.fall()
        st, rest = stmts[0], stmts[1:]
        k = st[0]
        if k == "dassert":
            self.notes.append("`%s(..)`" % st[1])
            return self.seq(rest, tail, ctx)
        if k == "assert":
            # `assert!(c)`: a panic is a failure of the monad
            t = self.cond(st[1])
            neg = t[2:-1] if (t.startswith("(!") and t.endswith(")") and io_atom(t[2:-1]) == t[2:-1]) else "(!%s)" % t
            return ["(if %s then %s else pure ())" % (neg, self.f.failtxt)] + self.seq(rest, tail, ctx)
        if k == "return":
            if rest or tail is not None:
                fail(w + ": statements after `return`")
            return ctx.ret(st[1])
        if k == "let":
            _, pat, ty, e, _mut = st
            ann = None
            if ty is not None:
                ann = io_sig_type(ty, w)
            annw = ty if ty in WIDTH else None

            def check_ann(vty):
                if ann is not None and ann != vty:
                    fail("%s: `let %s: %s` bound to a value of class %r" % (w, " ".join(pat_vars(pat)), ty, vty))
            if (self.f.engine and pat[0] == "pvar" and ty is None
                    and e == ("mcall", ("field", ("field", ("path", ["self"]), "key_file"), "0"), "borrow_mut", [])):
                # `let mut locked_key = self.key_file.0.borrow_mut();`: the key file (its `VarFileKeyCache`) held open
                if pat[1] in self.vt or pat[1] in self.handles:
                    fail("%s: `%s` is already a variable" % (w, pat[1]))
                self.handles[pat[1]] = "key"
                self.notes.append("`let mut %s = self.key_file.0.borrow_mut();` (`%s.m(..)` is the function `m` of the key file)"
                                  % (pat[1], pat[1]))
                return self.seq(rest, tail, ctx)
            pl = io_plumbing(self.f, st, self.handles)
            if pl is not None:
                # the `RefCell` plumbing around the map / its files / the file of a handle: nothing to emit
                h, kind, txt = pl
                if h in self.vt or h in self.handles:
                    fail("%s: `%s` is already a variable" % (w, h))
                if kind != "lock":
                    self.handles[h] = kind
                self.notes.append("`%s` (%s)" % (txt, {
                    "eng": "`%s` is the map: the three files of `DbM`" % h,
                    "key": "`%s.m(..)` is the function `m` of the key file" % h,
                    "htx": "`%s.file.m(..)` is the function `m` of the hash-table file" % h,
                    "lock": "`%s.0` is the file" % h}[kind]))
                return self.seq(rest, tail, ctx)
            if (e[0] == "call" and tuple(e[1]) in IO_CACHE_CTORS and pat[0] == "pvar" and ty is None and e[2]
                    and e[2][0][0] == "path" and self.text(e[2][0]) in self.vf_texts):
                # `let file_rc = VarFileKeyCache(file, PhantomData);` / `let mut file_nc = VarFileHtxCache::new(file);`: the cache
                # struct around the VarFile as a local: `c.0` / `c.file` is the file, its data field a local variable
                sname, fld = IO_CACHE_CTORS[tuple(e[1])]
                c = pat[1]
                if e[2][1:] != ([] if fld else [("path", ["PhantomData"])]):
                    fail("%s: unsupported arguments of the constructor of `%s`" % (w, sname))
                if c in self.vt or c in self.handles or c in self.caches or c != self.f.caches.get(sname):
                    fail("%s: the cache struct `%s` hides a variable / is not the one found when the function was read" % (w, c))
                if fld is None:
                    self.caches[c] = (sname, None)
                    self.notes.append("`let %s = %s(%s, PhantomData);` (the cache struct of the handle: it holds the file and no data)"
                                      % (c, sname, self.text(e[2][0])))
                    return self.seq(rest, tail, ctx)
                key = c + "." + fld
                ln = self.declare(key, "int", lean=io_ident(c + "_" + fld))
                self.width[key] = "u64"
                self.caches[c] = (sname, key)
                self.vf_texts.add(c + ".file")
                self.notes.append("`let mut %s = %s::new(%s);` (`%s.file` is the file; `%s.%s` is the local `%s`, 0 at first: `new` is pinned)"
                                  % (c, sname, self.text(e[2][0]), c, c, fld, ln))
                return ["let %s := 0" % ln] + self.seq(rest, tail, ctx)
            if (e[0] == "match" and e[1][0] == "field" and e[1][2] == "buckets_size" and e[1][1][0] == "path"
                    and len(e[1][1][1]) == 1 and self.vt.get(e[1][1][1][0]) == "dbparams"):
                # `let buckets_size = match params.buckets_size { … };` of `HtxFile::open_with_params`: this statement is what the
                # pure function `bucketsOf` of Funcs.lean is the translation of (`pick_let`: the first `let buckets_size = …` of
                # the function; io_build_fn checks that there is one only); `none` = it panics (`capacity 0`)
                if pat[0] != "pvar" or pat[1] == "_" or ty is not None or not self.f.buckets_of:
                    fail("%s: a `match` on `%s` that is not the statement `let buckets_size = match %s { … };` which `bucketsOf` "
                         "(Funcs.lean) translates" % (w, self.text(e[1]), self.text(e[1])))
                ln = self.declare(pat[1], "int")
                self.width[pat[1]] = "u64"
                self.f.remarks.append("`let buckets_size = match %s { … };` is `bucketsOf %s` of Funcs.lean (the translation of this "
                                      "statement); `none` (`capacity_to_buckets_size(0)` panics) is the failure of the monad"
                                      % (self.text(e[1]), self.names[e[1][1][1][0]]))
                return ["let %s ← (match bucketsOf %s with | some tryVal => pure tryVal | none => %s)"
                        % (ln, self.names[e[1][1][1][0]], self.f.failtxt)] + self.seq(rest, tail, ctx)
            inner_try = self.as_try(e)
            if inner_try is not None:
                e = ("try", inner_try)
            if e[0] == "try":
                lines, vty = self.mex(e[1])
                check_ann(vty)
                if isinstance(vty, tuple) and vty[0] == "sres":
                    # `let piece = call?;`: the returned fields are bound, the others are the arguments they come from
                    if pat[0] != "pvar" or ty is not None:
                        fail("%s: a piece struct returned by a call is bound to a pattern" % w)
                    pt, post = self.bind_struct(pat[1], vty[1], vty[2], dict(vty[4]))
                    return io_attach("let %s ← " % pt, lines) + post + self.seq(rest, tail, ctx)
                return io_attach("let %s ← " % self.bind_pat(pat, vty, annw or self.mex_width(e[1])), lines) + self.seq(rest, tail, ctx)
            if self.is_monadic(e):
                # `let r = <Result>; r`: the call is the value of the function
                if not (not rest and pat[0] == "pvar" and tail == ("path", [pat[1]])):
                    fail("%s: a `Result` bound to `%s` without `?` and not returned at once" % (w, " ".join(pat_vars(pat))))
                return ctx.tail(e)
            if e[0] == "block":
                cv = CtxValue(self)
                lines = ["do"] + ind(self.scoped(e[1], e[2], cv))
                check_ann(cv.ty)
                return io_attach("let %s ← " % self.bind_pat(pat, cv.ty, annw), lines) + self.seq(rest, tail, ctx)
            if e[0] == "if":
                lines, vty = self.value_if(e)
                check_ann(vty)
                if isinstance(vty, tuple) and vty[0] == "struct":
                    if pat[0] != "pvar" or ty is not None:
                        fail("%s: a piece struct is bound to a pattern" % w)
                    pt, _post = self.bind_struct(pat[1], vty[1], [x for x, _c in IO_STRUCTS[vty[1]]["fields"]], {})
                    return io_attach("let %s ← " % pt, lines) + self.seq(rest, tail, ctx)
                return io_attach("let %s ← " % self.bind_pat(pat, vty, annw), lines) + self.seq(rest, tail, ctx)
            if self.is_struct_expr(e):
                # `let piece = Struct::with(a, b, c);`: the fields stand for the variables given
                if _mut or pat[0] != "pvar" or e[0] != "call" or ty is not None:
                    fail("%s: only `let v = <pinned constructor>(variables);` (not `mut`) binds a piece struct" % w)
                name, sv = self.px_struct(e)
                v = pat[1]
                if v in self.vt:
                    fail("%s: the piece struct `%s` hides a variable" % (w, v))
                self.vt[v] = ("struct", name)
                for fld, fc in IO_STRUCTS[name]["fields"]:
                    t, _fc, root = sv[fld]
                    if root is None or self.names.get(root) != t:
                        fail("%s: the argument for the field `%s` of `let %s = %s::…` is not a plain variable" % (w, fld, v, name))
                    self.declare(v + "." + fld, fc, alias_of=root)
                return self.seq(rest, tail, ctx)
            if pat[0] == "pvar" and not _mut and pat[1] != "_":
                r = self.var_of(e)
                if r is not None and self.names[r] == io_ident(pat[1]) and r != pat[1]:
                    # `let value = &self.value;`: the same value under the same Lean name, nothing to emit
                    t, vty = self.px(e)
                    check_ann(vty)
                    self.declare(pat[1], vty, alias_of=r)
                    return self.seq(rest, tail, ctx)
            pre, t, vty = self.px_guarded(e)
            check_ann(vty)
            widths = annw
            if e[0] == "mcall":
                r = self.resolve(e[1], e[2])
                if r is not None and r[0] == "pure":
                    widths = IO_STRUCTS[r[1]]["pure"][e[2]][3]
            if isinstance(vty, tuple) and vty[0] == "option" and vty[1] is None:
                fail("%s: `None` bound to a variable (its type is not evident)" % w)
            bound = self.bind_pat(pat, vty, widths)
            if e[0] in ("array", "repeat") and pat[0] == "pvar" and pat[1] != "_":
                self.arrlen[pat[1]] = len(e[1]) if e[0] == "array" else e[2][1]      # a `[u8; N]`: its length is fixed
            return pre + ["let %s := %s" % (bound, t)] + self.seq(rest, tail, ctx)
        if k == "assign":
            _, op, lhs, rhs = st
            v = io_target(lhs, w)
            if v in IO_DROPPED_ASSIGN:
                if not (self.f.engine and op == "=" and rhs == ("path", ["true"])):
                    fail("%s: assignment to `%s` that is not `%s = true;`" % (w, v, v))
                self.notes.append(IO_DROPPED_ASSIGN[v])
                return self.seq(rest, tail, ctx)
            if v in self.pending and v not in self.vt and op == "=" and isinstance(self.vt.get(v.split(".")[0]), tuple):
                fc, ln = self.pending[v]
                t, vty = self.px(rhs)
                if vty != fc:
                    fail("%s: `%s` of class %r is assigned a value of class %r" % (w, v, fc, vty))
                return ["let %s := %s" % (self.declare(v, fc, lean=ln), t)] + self.seq(rest, tail, ctx)
            if v not in self.vt or isinstance(self.vt[v], tuple):
                fail("%s: unsupported assignment target" % w)
            self.arrlen.pop(v, None)
            if v in self.alias:
                fail("%s: assignment to `%s`, which stands for `%s`" % (w, v, self.alias[v]))
            for a, r in self.alias.items():
                if r == v and a in self.vt:
                    fail("%s: `%s` is assigned while `%s` still stands for its old value" % (w, v, a))
            if op == "=" and self.as_try(rhs) is not None:
                # `v = call?;`
                rhs = ("try", self.as_try(rhs))
                lines, vty = self.mex(rhs[1])
                if vty != self.vt[v]:
                    fail("%s: `%s` of class %r is assigned a value of class %r" % (w, v, self.vt[v], vty))
                wd = self.mex_width(rhs[1])
                self.forget(v)
                self.pristine.discard(v)
                self.width.pop(v, None)
                if wd:
                    self.width[v] = wd
                return io_attach("let %s ← " % self.names[v], lines) + self.seq(rest, tail, ctx)
            if op in ("&=", "|="):
                # `byte &= e;` / `byte |= e;` on a `u8`: both operands are `u8`, so is the result
                wd = self.width.get(v)
                if self.vt[v] != "int" or wd is None:
                    fail("%s: `%s %s …`: the integer type of `%s` is not known" % (w, v, op, v))
                t = self.px_bits(("bin", op[:-1], lhs, rhs), wd)
                self.forget(v)
                self.pristine.discard(v)
                return ["let %s := %s" % (self.names[v], t)] + self.seq(rest, tail, ctx)
            if op not in ("=", "+=", "-=", "*=", "/=", "%="):
                fail("%s: assignment operator `%s` is outside the imperative I/O subset" % (w, op))
            pre, t, vty = self.px_guarded(rhs if op == "=" else ("bin", op[:-1], lhs, rhs))
            if vty != self.vt[v]:
                fail("%s: `%s` of class %r is assigned a value of class %r" % (w, v, self.vt[v], vty))
            self.forget(v)
            self.pristine.discard(v)
            self.width.pop(v, None)
            return pre + ["let %s := %s" % (self.names[v], t)] + self.seq(rest, tail, ctx)
        if k == "while":
            return self.while_(st, rest, tail, ctx)
        if k == "loop":
            return self.loop_(st, rest, tail, ctx)
        if k == "for":
            return self.for_(st, rest, tail, ctx)
        if k == "expr" and st[1][0] == "mcall" and st[1][2] in IO_MUT_METHODS and st[1][1][0] == "path" \
                and len(st[1][1][1]) == 1 and st[1][1][1][0] in self.vt:
            # `v.push((a, b));` / `v.touch_size(x);` / `v.touch_length(x);` on a local vector: `v` is re-bound
            e = st[1]
            v, m, args = e[1][1][0], e[2], e[3]
            cls = self.vt[v]
            if v in self.alias or any(r == v and a in self.vt for a, r in self.alias.items()):
                fail("%s: `%s.%s(..)` on a variable that shares its value with another" % (w, v, m))
            if m == "push":
                if cls != "pairs" or len(args) != 1:
                    fail("%s: `%s.push(..)` on a value of class %r (only on a `Vec` of pairs)" % (w, v, cls))
                pre, t, ty = self.px_guarded(args[0])
                if ty != ("tuple", ["int", "int"]):
                    fail("%s: `%s.push(..)` of a value of class %r (a pair of plain integers expected)" % (w, v, ty))
                new = "(%s ++ [%s])" % (self.names[v], t)
            else:
                sn = [x for x in IO_STATS if IO_STATS[x][1] == m and IO_STATS[x][0] == cls]
                if len(sn) != 1 or len(args) != 1:
                    fail("%s: `%s.%s(..)` on a value of class %r" % (w, v, m, cls))
                pre, t, ty = self.px_guarded(args[0])
                if ty != IO_STATS[sn[0]][2]:
                    fail("%s: `%s.%s(..)` of a value of class %r (%r expected)" % (w, v, m, ty, IO_STATS[sn[0]][2]))
                new = "(%s %s %s)" % (IO_STATS[sn[0]][3], self.names[v], io_atom(t))
            self.forget(v)
            self.pristine.discard(v)
            return pre + ["let %s := %s" % (self.names[v], new)] + self.seq(rest, tail, ctx)
        if k == "expr":
            e = st[1]
            if self.f.engine and e == ("call", [IO_COLD[0]], []):
                self.notes.append("`_cold()` (a hint for the branch predictor: an empty `#[cold]` function, pinned)")
                return self.seq(rest, tail, ctx)
            if io_option_match(e) is not None and all(x[2] is None for x in io_option_match(e)[3:5]):
                e = io_option_match(e)
            if e[0] == "iflet":
                return self.iflet(e, rest, tail, ctx, True)
            if self.as_try(e) is not None:
                inner = self.as_try(e)
                if inner[0] == "mcall":
                    r = self.resolve(inner[1], inner[2])
                    if r is not None and r[0] == "dropped":
                        self.notes.append(r[1])
                        return self.seq(rest, tail, ctx)
                    if r is not None and r[0] == "readexact":
                        # `file.read_exact(&mut buf)?;`: the whole array is overwritten by the next `buf.len()` bytes (IO_READ_EXACT)
                        a = inner[3][0] if len(inner[3]) == 1 else None
                        v = a[1][0] if (a is not None and a[0] == "path" and len(a[1]) == 1) else None
                        if v is None or self.vt.get(v) != "bytes" or v not in self.arrlen:
                            fail("%s: `%s.read_exact(..)`: the argument is not a local byte array declared as `let mut buf = "
                                 "[0u8, …];` (its length is the number of bytes read)" % (w, self.text(inner[1])))
                        if v in self.alias or any(r_ == v and a_ in self.vt for a_, r_ in self.alias.items()):
                            fail("%s: `read_exact` into `%s`, which shares its value with another variable" % (w, v))
                        self.forget(v)
                        self.pristine.discard(v)
                        return ["let %s ← %s %d" % (self.names[v], IO_READ_EXACT, self.arrlen[v])] + self.seq(rest, tail, ctx)
                lines, vty = self.mex(inner)
                return io_attach("" if vty == "unit" else "let _ ← ", lines) + self.seq(rest, tail, ctx)
            if e[0] == "match":
                if not self.is_recovery_match(e):
                    fail("%s: `match` is only supported as `match <call> { Ok(()) => (), Err(err) => { let _ = "
                         "<vf>.set_file_length(x); return Err(err); } }`" % w)
                lines, vty = self.mex(e[1])
                if vty != "unit":
                    fail("%s: the call under the error-recovery `match` has a value of class %r" % (w, vty))
                s1 = e[2][1][2][1][0]
                self.notes.append("the error-recovery arm `Err(err) => { let _ = %s.set_file_length(%s); return Err(err); }` "
                                  "of the `match` around the call of `%s` (in the monad a failure is a failure; the recovery "
                                  "only matters for I/O errors, which the flat file does not have)"
                                  % (self.text(s1[3][1]), self.text(s1[3][3][0]), e[1][2]))
                return lines + self.seq(rest, tail, ctx)
            if self.is_monadic(e):
                fail("%s: a `Result` is computed and ignored" % w)
            if e[0] == "block":
                # plain block `{ … }`: its statements are spliced in; its locals must not hide a
                # variable that is used after the block
                if e[2] is not None:
                    fail(w + ": nested block with a value in statement position")
                self.check_splice(e[1], rest, tail)
                return self.seq(list(e[1]) + list(rest), tail, ctx)
            if e[0] == "if":
                return self.if_stmt(e, rest, tail, ctx)
            fail("%s: unsupported expression statement (kind `%s`)" % (w, e[0]))
        fail("%s: statement `%s` is outside the imperative I/O subset" % (w, k))

    def check_splice(self, stmts, rest, tail):
        """the statements of a block are continued by `rest`/`tail` in one Lean scope: a local of the
        block must not be visible to what follows"""
        for s2 in stmts:
            if s2[0] == "let":
                for v in pat_vars(s2[1]):
                    if v != "_" and (io_mentions_var(list(rest), v) or (tail is not None and io_mentions_var(tail, v))):
                        fail("%s: the block-local `%s` would be visible to the code after its block" % (self.where, v))

    def if_stmt(self, e, rest, tail, ctx):
        w = self.where
        c, then, els = e[1], e[2], e[3]
        if then[2] is not None or (els is not None and (els[0] != "block" or els[2] is not None)):
            fail(w + ": `if` in statement position whose branches have values / `else if`")
        if io_contains_return(then) or (els is not None and io_contains_return(els)):
            # a branch returns: the code after the `if` is the continuation of every branch that does not
            #   `if c { …; return Ok(x); } rest`            ->  if c then (… x) else (rest)
            #   `if c { A } else { B } rest`, returns inside  ->  if c then (A; rest) else (B; rest)
            if self.in_loop and not (then[1] and then[1][-1][0] == "return"):
                fail(w + ": `return` inside a loop must be the last statement of the then-block of its `if`")
            cc = self.cond(c)

            def branch(stmts, facts):
                if stmts and stmts[-1][0] == "return":
                    return self.scoped(stmts, None, ctx, facts)
                self.check_splice(stmts, rest, tail)
                return self.scoped(list(stmts) + list(rest), tail, ctx, facts)
            a = branch(then[1], self.cond_facts(c))
            b = branch(els[1] if els is not None else [], [])
            return ["if %s then" % cc] + ind(a) + ["else"] + ind(b)
        body = list(then[1]) + (list(els[1]) if els is not None else [])
        vs = [v for v in self.order if v in io_assigned(body, w)]
        for v in io_assigned(body, w):
            if v not in self.vt:
                fail("%s: assignment to the unknown variable `%s`" % (w, v))
        for v in vs:
            if v in io_declared(body):
                fail("%s: `%s` is assigned and also re-declared inside the same `if`" % (w, v))
        tup = "()" if not vs else (self.names[vs[0]] if len(vs) == 1 else "(" + ", ".join(self.names[v] for v in vs) + ")")
        cc = self.cond(c)
        cb = CtxBranch(self, tup)
        snap0 = self.snapshot()
        a = self.scoped(then[1], None, cb, self.cond_facts(c))
        self.restore(snap0)                # the else-branch starts from the state before the `if`
        b = self.scoped(els[1], None, cb) if els is not None else ["pure " + tup]
        self.restore(snap0, vs)
        for v in vs:
            self.forget(v)
        lines = ["if %s then do" % cc] + ind(a) + ["else do"] + ind(b)
        return io_attach("let %s ← " % tup if vs else "", lines) + self.seq(rest, tail, ctx)

    def loop_frame(self, what, node, asg, vectors=False):
        """what a loop needs: (state variables, fixed variables, context parameters)"""
        w = self.where
        for v in asg:
            if v not in self.vt:
                fail("%s: assignment to the unknown variable `%s`" % (w, v))
            if self.vt[v] not in NUMERIC and self.vt[v] != "bool" and not (vectors and self.vt[v] in ("pairs", "sizestats", "lenstats")):
                fail("%s: loop variable `%s` of class %r" % (w, v, self.vt[v]))
        vs = [v for v in self.order if v in asg]
        for v in vs:
            if v in io_declared(node):
                fail("%s: the loop variable `%s` is also re-declared inside the loop" % (w, v))
        used = set(n[1][0] for n in io_walk(node) if n[0] == "path" and len(n[1]) == 1)
        for v in used:
            if isinstance(self.vt.get(v), tuple) and self.vt[v][0] == "struct" and v not in io_declared(node):
                fail("%s: the piece struct `%s` is used inside a %s and declared outside" % (w, v, what))
        extra = [v for v in self.order if v in used and v not in vs]
        for v in extra:
            if self.vt[v] not in NUMERIC and self.vt[v] not in ("bool", "bytes"):
                fail("%s: variable `%s` of class %r used inside a %s" % (w, v, self.vt[v], what))
        return vs, extra, io_needs(node, self.f, self.table, self.handles)

    def loop_sig(self, vs, extra, needs):
        """(binders of the fixed part, arguments of the fixed part, state pattern, state type)"""
        binders = io_group_params([(x, CTX_TYPES[x]) for x in needs] + [(self.names[v], io_lean_ty(self.vt[v])) for v in extra])
        fixed = "".join(" " + x for x in needs) + "".join(" " + self.names[v] for v in extra)
        state = self.names[vs[0]] if len(vs) == 1 else "(" + ", ".join(self.names[v] for v in vs) + ")"
        sty = " × ".join(io_lean_ty(self.vt[v]) for v in vs)
        return (binders + " " if binders else ""), fixed, state, ("(" + sty + ")" if len(vs) > 1 else sty)

    def while_(self, st, rest, tail, ctx):
        w = self.where
        _, c, body = st
        if body[2] is not None:
            fail(w + ": `while` body with a value")
        has_ret = io_contains_return(body)
        if self.in_loop and has_ret:
            fail(w + ": `return` inside a nested loop")
        vs, extra, needs = self.loop_frame("`while` loop", (c, body), io_assigned(body[1], w))
        if not vs:
            fail(w + ": `while` loop that assigns no variable")
        self.nloops += 1
        name = self.f.lean + "Loop" + ("" if self.nloops == 1 else str(self.nloops))
        binders, fixed, state, sty = self.loop_sig(vs, extra, needs)
        rty = io_lean_ty(self.f.ret)
        res_ty = "Sum %s %s" % (io_atom(rty), sty) if has_ret else (sty[1:-1] if len(vs) > 1 else sty)
        # ---- the auxiliary function
        snap = self.snapshot()
        for v in vs:
            self.forget(v)                 # the body sees the state after any number of rounds
        outer = self.in_loop
        self.in_loop = True
        cl = CtxLoop(self, "%s%s fuel %s" % (name, fixed, state), has_ret)
        cc = self.cond(c)
        blines = self.scoped(body[1], None, cl, self.cond_facts(c))
        self.in_loop = outer
        self.restore(snap, vs)
        done = "pure (.inr %s)" % state if has_ret else "pure %s" % state
        text = ["def %s %s: Nat → %s → %s (%s)" % (name, binders, sty, self.f.monad, res_ty),
                "  | 0, _ => " + self.f.failtxt,
                "  | fuel+1, %s =>" % state,
                "    if %s then do" % cc] + ind(blines, 6) + ["    else", "      " + done]
        doc = ("the `while` loop of %s; state %s = the variables it assigns (`%s`); one round per unit of `fuel`, "
               "`fuel = 0` fails; %s"
               % (self.f.src, state, "`, `".join(vs),
                  "`.inl x` = `return Ok(x)` inside the loop, `.inr state` = the condition became false"
                  if has_ret else "the result is the state when the condition became false"))
        self.aux.append((doc, "\n".join(text)))
        # ---- the call
        out = ["let loopFuel ← " + self.f.fueltxt]
        call = "%s%s (loopFuel + 1) %s" % (name, fixed, state)
        if not has_ret:
            return out + ["let %s ← %s" % (state, call)] + self.seq(rest, tail, ctx)
        return out + ["let loopRes ← " + call, "match loopRes with", "| .inl loopRet =>"] + ind(ctx.ret_pure("loopRet")) + [
            "| .inr %s =>" % state] + ind(self.seq(rest, tail, ctx))

    def for_(self, st, rest, tail, ctx):
        """`for x in <source> { … }` (no `return` / `break` / `continue` inside): an auxiliary function over the
        variables the body assigns.  Sources: `0..n` and a constant array (structural recursion over the list
        `List.range n` / the array); in the engine `self.key_piece_offset_iter()` / `self.value_piece_offset_iter()`
        (the walk over all pieces of a record file, chain of wrappers pinned in io_pin_piece_iters: `PieceOffsetIter::new`
        once, `next_piece_offset` per round, each `.unwrap()`ed = failure of the monad; recursion on `fuel`)."""
        w = self.where
        _, pat, it, body = st
        if body[2] is not None:
            fail(w + ": `for` body with a value")
        if io_contains_return(body):
            fail(w + ": `return` inside a `for` loop")
        if any(n[0] == "path" and n[1] in (["break"], ["continue"]) for n in io_walk(body)):
            fail(w + ": `break` / `continue`")
        if self.in_loop:
            fail(w + ": `for` inside a loop")
        if pat[0] != "pvar" or pat[1] == "_":
            fail(w + ": `for` with a pattern that is not a variable")
        walk = None
        if it[0] == "range":
            if it[1] != ("num", 0):
                fail(w + ": `for` over a range that does not start at 0")
            ht, hty = self.px(it[2])
            if hty != "int":
                fail("%s: `for` over `0..e` with `e` of class %r" % (w, hty))
            src, icls = "(List.range %s)" % io_atom(ht), "int"
            iw = self.width.get(it[2][1][0]) if (it[2][0] == "path" and len(it[2][1]) == 1) else None
        elif it[0] == "path":
            src, sty_ = self.px(it)
            if sty_ != "intlist":
                fail("%s: `for` over a value of class %r" % (w, sty_))
            icls, iw = "int", None
        elif (self.f.engine and self.f.eng_self and it[0] == "mcall" and it[1] == ("path", ["self"]) and not it[3]
              and it[2] in (IO_PIECE_ITERS["key"], IO_PIECE_ITERS["val"])):
            via = "key" if it[2] == IO_PIECE_ITERS["key"] else "val"
            g_new, g_next = self.table.get(("PieceOffsetIter", "new")), self.table.get(("PieceOffsetIter", "next_piece_offset"))
            if g_new is None or g_next is None:
                fail(w + ": the walk over the pieces (`PieceOffsetIter`) is not translated")
            walk = (via,) + IO_PIECEA_INST[via]
            icls, iw = "Offset", None
        else:
            fail("%s: `for` over something that is not `0..n`, a constant array, `self.key_piece_offset_iter()` / "
                 "`self.value_piece_offset_iter()`" % w)
        vs, extra, needs = self.loop_frame("`for` loop", body, io_assigned(body[1], w), vectors=True)
        if not vs:
            fail(w + ": `for` loop that assigns no variable")
        if pat[1] in vs or pat[1] in extra:
            fail("%s: the loop variable `%s` hides a variable used in the loop" % (w, pat[1]))
        self.nloops += 1
        name = self.f.lean + "Loop" + ("" if self.nloops == 1 else str(self.nloops))
        binders, fixed, state, sty = self.loop_sig(vs, extra, needs)
        res_ty = sty[1:-1] if len(vs) > 1 else sty
        snap = self.snapshot()
        used = dict(self.lean_used)
        for v in vs:
            self.forget(v)
        self.in_loop = True
        item = self.declare(pat[1], icls)
        if iw:
            self.width[pat[1]] = iw
        if walk is None:
            reccall = "%s%s loopRest %s" % (name, fixed, state)
        else:
            reccall = "%s%s fuel (loopIter, %s)" % (name, fixed, state)
        blines = self.scoped(body[1], None, CtxLoop(self, reccall, False))
        self.in_loop = False
        self.restore(snap, vs)
        self.lean_used = used
        if walk is None:
            text = ["def %s %s: List Nat → %s → %s (%s)" % (name, binders, sty, self.f.monad, res_ty),
                    "  | [], %s => pure %s" % (state, state),
                    "  | %s :: loopRest, %s => do" % (item, state)] + ind(blines, 4)
            doc = ("the `for` loop of %s over %s; state %s = the variables it assigns (`%s`); one round per element "
                   "(structural recursion over the list); the result is the state after the last round"
                   % (self.f.src, "`0..n` = `List.range n`" if it[0] == "range" else "the array `%s`" % io_text(it),
                      state, "`, `".join(vs)))
            self.aux.append((doc, "\n".join(text)))
            return ["let %s ← %s%s %s %s" % (state, name, fixed, src, state)] + self.seq(rest, tail, ctx)
        via, inst, lift = walk
        ity = io_lean_ty(("tuple", [fc for _f, fc in IO_STRUCTS["PieceOffsetIter"]["fields"]]))
        text = ["def %s %s: Nat → (%s) × %s → %s (%s)" % (name, binders, ity, io_atom(sty), self.f.monad, res_ty),
                "  | 0, _ => " + self.f.failtxt,
                "  | fuel+1, (loopIter, %s) => do" % state,
                "    let (loopItem, loopIter) ← %s (%s %s loopIter)" % (lift, g_next.lean, inst),
                "    match loopItem with",
                "    | none => pure %s" % state,
                "    | some %s =>" % item] + ind(blines, 6)
        doc = ("the `for` loop of %s over `self.%s()`: the walk over all pieces of the %s file (`%s`); `loopIter` = the "
               "`PieceOffsetIter` (`Iterator::next` = `next_piece_offset().unwrap()`: `Err` is the failure of the monad); state %s "
               "= the variables the body assigns (`%s`); one round per unit of `fuel`, `fuel = 0` fails; the result is the state "
               "when the walk is over" % (self.f.src, it[2], "key" if via == "key" else "value", inst, state, "`, `".join(vs)))
        self.aux.append((doc, "\n".join(text)))
        return ["let loopIter ← %s (%s %s)" % (lift, g_new.lean, inst),
                "let loopFuel ← " + self.f.fueltxt,
                "let %s ← %s%s (loopFuel + 1) (loopIter, %s)" % (state, name, fixed, state)] + self.seq(rest, tail, ctx)

    def loop_(self, st, rest, tail, ctx):
        """`loop { … }` as the last statement of the function, left only by `return`: an auxiliary function
        over the variables the body assigns whose value is the value of the function"""
        w = self.where
        body = st[1]
        if rest or tail is not None or not isinstance(ctx, CtxFn):
            fail(w + ": `loop` that is not the last statement of the function")
        if self.in_loop:
            fail(w + ": `loop` inside a loop")
        if body[2] is not None:
            fail(w + ": `loop` body with a value")
        if not io_contains_return(body):
            fail(w + ": `loop` without `return`")
        if any(n[0] == "path" and n[1] in (["break"], ["continue"]) for n in io_walk(body)):
            fail(w + ": `break` / `continue`")
        vs, extra, needs = self.loop_frame("`loop`", body, io_assigned(body[1], w))
        if not vs:
            fail(w + ": `loop` that assigns no variable")
        self.nloops += 1
        name = self.f.lean + "Loop" + ("" if self.nloops == 1 else str(self.nloops))
        binders, fixed, state, sty = self.loop_sig(vs, extra, needs)
        snap = self.snapshot()
        for v in vs:
            self.forget(v)
        self.in_loop = True
        blines = self.scoped(body[1], None, CtxForever(self, "%s%s fuel %s" % (name, fixed, state)))
        self.in_loop = False
        self.restore(snap, vs)
        text = ["def %s %s: Nat → %s → %s %s" % (name, binders, sty, self.f.monad, io_atom(io_lean_ty(self.f.ret))),
                "  | 0, _ => " + self.f.failtxt,
                "  | fuel+1, %s => do" % state] + ind(blines, 4)
        doc = ("the `loop` of %s; state %s = the variables it assigns (`%s`); one round per unit of `fuel`, `fuel = 0` "
               "fails; the value is that of the `return` that leaves the loop" % (self.f.src, state, "`, `".join(vs)))
        self.aux.append((doc, "\n".join(text)))
        return ["let loopFuel ← " + self.f.fueltxt, "%s%s (loopFuel + 1) %s" % (name, fixed, state)]


def io_call_target(f, n, handles=None):
    """the translated function a method call of the body of `f` can refer to:
    ((owner, method), file of the engine it works on | "self" | None, wrapper argument spec | None); the method under its
    configured name (a private function that the source has renamed: ALIASES)"""
    t = io_call_target_src(f, n, handles)
    if t is not None:
        t = ((t[0][0], ALIASES.src_to_cfg(t[0][0], t[0][1])),) + t[1:]
    return t


def io_call_target_src(f, n, handles=None):
    rt = io_text(n[1])
    if rt in f.vf_texts:
        return (("VarFile", n[2]), None, None)
    if rt == "self" and f.owner in ("VarFileValueCache", "VarFileKeyCache"):
        return ((f.owner, n[2]), None, None)
    if n[1][0] == "path" and len(n[1][1]) == 1 and n[1][1][0] in f.struct_params:
        return ((f.struct_params[n[1][1][0]], n[2]), "self" if f.state else None, None)
    if f.engine:
        hs = handles if handles is not None else f.handles
        # the map (`FileDbXxxInner`) is `self` in its own methods, a handle `h = RefCell::borrow(&db_map)` in an iterator
        root = n[1]
        while root[0] == "field":
            root = root[1]
        rt = None
        if root[0] == "path" and len(root[1]) == 1:
            if root[1][0] == "self" and f.eng_self:
                rt = io_text(n[1])
            elif hs.get(root[1][0]) == "eng":
                rt = "self" + io_text(n[1])[len(root[1][0]):]
        if rt in ("self.key_file", "self.val_file"):
            owner, via, wr = f.wrappers[rt[len("self."):]]
            if n[2] not in wr:
                # not a plain wrapper: a method of the handle that is translated itself (`count_of_free_key_piece`)
                return (({"key": "KeyFile", "val": "ValueFile"}[via], n[2]), via, None)
            inner, nparams, spec = wr[n[2]]
            return ((owner, inner), via, (nparams, spec))
        if rt == "self.htx_file":
            return (("HtxFile", n[2]), "htx", None)
        if n[1][0] == "path" and len(n[1][1]) == 1 and hs.get(n[1][1][0]) == "key":
            return (("VarFileKeyCache", n[2]), "key", None)
        if (n[1][0] == "field" and n[1][2] == "file" and n[1][1][0] == "path" and len(n[1][1][1]) == 1
                and hs.get(n[1][1][1][0]) == "htx"):
            return (("VarFile", n[2]), "htx", None)                 # `<VarFileHtxCache>.file`
        if rt == "self":
            return (("Engine", n[2]), "self", None)
    return None


def io_callee_key(f, n):
    t = io_call_target(f, n)
    return t[0] if t is not None else None


def io_map_ctx(x, via):
    """the context parameter `x` of a callee, as the caller names it: the piece manager of a function of the
    key / value file is `kc` / `vc` in the engine"""
    if x == "c" and via == "key":
        return "kc"
    if x == "c" and via == "val":
        return "vc"
    return x


def io_needs(node, f, table, handles=None):
    """the context parameters the code refers to, directly or through a callee"""
    out = set()
    for n in io_walk(node):
        if n[0] == "field" and n[2] == "piece_mgr":
            out.add("c")
        if n[0] == "field" and io_text(n) in f.field_params:
            out.add(f.field_params[io_text(n)][0])
        if n[0] == "mcall":
            if f.engine and n[2] == "cmp_u8":
                out.add("cmp")
            t = io_call_target(f, n, handles)
            if t is not None and t[0] in table:
                out.update(io_map_ctx(x, t[1]) for x in table[t[0]].needs)
        if n[0] == "call" and len(n[1]) == 1 and f.rel in IO_FREE_OWNER:
            k = (IO_FREE_OWNER[f.rel], ALIASES.src_to_cfg(IO_FREE_OWNER[f.rel], n[1][0]))
            if k in table:
                out.update(table[k].needs)
    return [x for x in CTX_ORDER if x in out]


VFO, VPO, VCO, KPO, KCO = "VarFile", "ValuePiece", "VarFileValueCache", "KeyPiece", "VarFileKeyCache"
_VP = {"offset": "off", "size": "size", "value": "value"}
_KP = {"offset": "off", "size": "size", "key": "key", "value_offset": "valueOffset",
       "bucket_next_offset": "bucketNextOffset"}
# `-name`: the field is not an input of the function (it is assigned before it is read; checked)
_VP_W = dict(_VP, size="-size")
_KP_W = dict(_KP, size="-size")

_PI_ST = "Nat × Nat × Nat"
_IO_HS = "(file: &mut VarFile, signature2: HeaderSignature) -> Result<()>"
_IO_OS = "(path: P, ks_name: &str, sig2: HeaderSignature, params: &FileDbParams,) -> Result<Self>"
# the functions of FileOps.lean: (owner, rust name, file, Lean name, signature without the generic
# parameter list, Lean names of the parameters [a piece struct: {field: Lean name}; the `&self` of a
# piece struct comes first; `None` for the `&mut VarFile`], expected Lean signature,
# fields of a returned piece struct that make up the Lean value)
IO_FUNCS = [
    (VFO, "seek_from_start", IO_VF, "seekFromStart", "(&mut self, offset: Offset<T>) -> Result<Offset<T>>",
     ["off"], "(off : Nat) : M Nat"),
    (VFO, "seek_position", IO_VF, "seekPosition", "(&mut self) -> Result<Offset<T>>", [], ": M Nat"),
    (VFO, "write_zero_to_offset", IO_VF, "writeZeroToOffset", "(&mut self, offset: Offset<T>) -> Result<()>",
     ["off"], "(off : Nat) : M Unit"),
    (VFO, "read_vu64_u32", IO_VF, "readVu64U32", "(&mut self) -> Result<u32>", [], ": M Nat"),
    (VFO, "write_vu64_u32", IO_VF, "writeVu64U32", "(&mut self, value: u32) -> Result<()>", ["value"], "(value : Nat) : M Unit"),
    (VFO, "_read_vu64_u64", IO_VF, "readVu64U64", "(&mut self) -> Result<u64>", [], ": M Nat"),
    (VFO, "_write_vu64_u64", IO_VF, "writeVu64U64", "(&mut self, value: u64) -> Result<()>", ["value"], "(value : Nat) : M Unit"),
    (VFO, "read_free_piece_offset", IO_VF, "readFreePieceOffset", "(&mut self) -> Result<Offset<T>>", [], ": M Nat"),
    (VFO, "write_free_piece_offset", IO_VF, "writeFreePieceOffset", "(&mut self, offset: Offset<T>) -> Result<()>",
     ["off"], "(off : Nat) : M Unit"),
    (VFO, "read_piece_size", IO_VF, "readPieceSize", "(&mut self) -> Result<PieceSize<T>>", [], ": M Nat"),
    (VFO, "write_piece_size", IO_VF, "writePieceSize", "(&mut self, piece_size: PieceSize<T>) -> Result<()>",
     ["size"], "(size : Nat) : M Unit"),
    (VFO, "read_key_len", IO_VF, "readKeyLen", "(&mut self) -> Result<KeyLength>", [], ": M Nat"),
    (VFO, "write_key_len", IO_VF, "writeKeyLen", "(&mut self, key_len: KeyLength) -> Result<()>", ["len"], "(len : Nat) : M Unit"),
    (VFO, "write_piece_clear", IO_VF, "writePieceClear",
     "(&mut self, offset: PieceOffset<T>, size: PieceSize<T>) -> Result<()>", ["off", "size"], "(off size : Nat) : M Unit"),
    (VFO, "read_free_piece_offset_on_header", IO_PI, "readFreePieceOffsetOnHeader",
     "(&mut self, piece_size: PieceSize<T>) -> Result<PieceOffset<T>>", ["pieceSize"], "(c : FileCfg) (pieceSize : Nat) : M Nat"),
    (VFO, "write_free_piece_offset_on_header", IO_PI, "writeFreePieceOffsetOnHeader",
     "(&mut self, piece_size: PieceSize<T>, offset: PieceOffset<T>) -> Result<()>", ["pieceSize", "off"],
     "(c : FileCfg) (pieceSize off : Nat) : M Unit"),
    (VFO, "read_free_piece_size_next", IO_PI, "readFreePieceSizeNext",
     "(&mut self, curr_free_piece: PieceOffset<T>) -> Result<(PieceSize<T>, PieceOffset<T>)>", ["off"],
     "(off : Nat) : M (Nat × Nat)"),
    (VFO, "count_of_free_piece_list", IO_PI, "countOfFreePieceList",
     "(&mut self, new_piece_size: PieceSize<T>) -> Result<u64>", ["pieceSize"], "(c : FileCfg) (pieceSize : Nat) : M Nat"),
    (VFO, "push_free_piece_list", IO_PI, "pushFreePieceList",
     "(&mut self, old_piece_offset: PieceOffset<T>, old_piece_size: PieceSize<T>) -> Result<()>", ["off", "size"],
     "(c : FileCfg) (off size : Nat) : M Unit"),
    (VFO, "pop_free_piece_list_large", IO_PI, "popFreePieceListLarge",
     "(&mut self, new_piece_size: PieceSize<T>, free_1st: PieceOffset<T>) -> Result<PieceOffset<T>>",
     ["size", "free1st"], "(c : FileCfg) (size free1st : Nat) : M Nat"),
    (VFO, "pop_free_piece_list", IO_PI, "popFreePieceList",
     "(&mut self, new_piece_size: PieceSize<T>) -> Result<PieceOffset<T>>", ["size"], "(c : FileCfg) (size : Nat) : M Nat"),
    # ---- vfile.rs, second batch (used by key.rs / val.rs)
    (VFO, "seek_skip_length", IO_VF, "seekSkipLength", "(&mut self, length: Length<T>,) -> Result<Offset<T>>",
     ["len"], "(len : Nat) : M Nat"),
    (VFO, "seek_to_end", IO_VF, "seekToEnd", "(&mut self) -> Result<Offset<T>>", [], ": M Nat"),
    (VFO, "read_piece_offset", IO_VF, "readPieceOffset", "(&mut self) -> Result<PieceOffset<T>>", [], ": M Nat"),
    (VFO, "write_piece_offset", IO_VF, "writePieceOffset", "(&mut self, piece_offset: PieceOffset<T>) -> Result<()>",
     ["off"], "(off : Nat) : M Unit"),
    (VFO, "read_value_len", IO_VF, "readValueLen", "(&mut self) -> Result<ValueLength>", [], ": M Nat"),
    (VFO, "write_value_len", IO_VF, "writeValueLen", "(&mut self, value_len: ValueLength) -> Result<()>",
     ["len"], "(len : Nat) : M Unit"),
    (VFO, "seek_skip_to_piece_key", IO_VF, "seekSkipToPieceKey",
     "(&mut self, offset: PieceOffset<T>,) -> Result<PieceOffset<T>>", ["off"], "(off : Nat) : M Nat"),
    (VFO, "seek_skip_to_piece_value", IO_VF, "seekSkipToPieceValue",
     "(&mut self, offset: PieceOffset<T>,) -> Result<PieceOffset<T>>", ["off"], "(off : Nat) : M Nat"),
    # ---- value file (val.rs)
    (VPO, "dat_write_piece_one", IO_VAL, "valDatWritePieceOne", "(&self, file: &mut VarFile) -> Result<()>",
     [_VP, None], "(off size : Nat) (value : List Nat) : M Unit"),
    (VCO, "delete_piece", IO_VAL, "valDeletePiece", "(&mut self, offset: ValuePieceOffset) -> Result<ValuePieceSize>",
     ["off"], "(c : FileCfg) (off : Nat) : M Nat"),
    (VCO, "write_piece", IO_VAL, "valWritePiece", "(&mut self, mut piece: ValuePiece, is_new: bool) -> Result<ValuePiece>",
     [_VP_W, "isNew"], "(c : FileCfg) (off : Nat) (value : List Nat) (isNew : Bool) : M (Nat × Nat)", ["offset", "size"]),
    (VCO, "add_value_piece", IO_VAL, "valAddPiece", "(&mut self, value: &[u8]) -> Result<ValuePiece>",
     ["value"], "(c : FileCfg) (value : List Nat) : M (Nat × Nat)", ["offset", "size"]),
    (VCO, "read_piece", IO_VAL, "valReadPiece", "(&mut self, offset: ValuePieceOffset) -> Result<ValuePiece>",
     ["off"], "(off : Nat) : M (Nat × List Nat)", ["size", "value"]),
    (VCO, "read_piece_only_size", IO_VAL, "valReadPieceOnlySize",
     "(&mut self, offset: ValuePieceOffset) -> Result<ValuePieceSize>", ["off"], "(off : Nat) : M Nat"),
    (VCO, "read_piece_only_value_length", IO_VAL, "valReadPieceOnlyValueLength",
     "(&mut self, offset: ValuePieceOffset) -> Result<ValueLength>", ["off"], "(off : Nat) : M Nat"),
    (VCO, "read_piece_only_value", IO_VAL, "valReadPieceOnlyValue",
     "(&mut self, offset: ValuePieceOffset) -> Result<Vec<u8>>", ["off"], "(off : Nat) : M (List Nat)"),
    # ---- key file (key.rs); a key `KT` is its bytes
    (KPO, "dat_write_piece_one", IO_KEY, "keyDatWritePieceOne", "(&self, file: &mut VarFile) -> Result<()>",
     [_KP, None], "(off size : Nat) (key : List Nat) (valueOffset bucketNextOffset : Nat) : M Unit"),
    (KCO, "delete_piece", IO_KEY, "keyDeletePiece", "(&mut self, offset: KeyPieceOffset) -> Result<KeyPieceSize>",
     ["off"], "(c : FileCfg) (off : Nat) : M Nat"),
    (KCO, "write_piece", IO_KEY, "keyWritePiece", "(&mut self, mut piece: KeyPiece<KT>, is_new: bool) -> Result<KeyPiece<KT>>",
     [_KP_W, "isNew"],
     "(c : FileCfg) (off : Nat) (key : List Nat) (valueOffset bucketNextOffset : Nat) (isNew : Bool) : M (Nat × Nat)",
     ["offset", "size"]),
    (KCO, "add_key_piece", IO_KEY, "keyAddPiece",
     "(&mut self, key: &KT, value_offset: ValuePieceOffset, bucket_next_offset: KeyPieceOffset,) -> Result<KeyPiece<KT>>",
     ["key", "valueOffset", "bucketNextOffset"],
     "(c : FileCfg) (key : List Nat) (valueOffset bucketNextOffset : Nat) : M (Nat × Nat)", ["offset", "size"]),
    (KCO, "read_piece", IO_KEY, "keyReadPiece", "(&mut self, offset: KeyPieceOffset) -> Result<KeyPiece<KT>>",
     ["off"], "(off : Nat) : M (Nat × List Nat × Nat × Nat)", ["size", "key", "value_offset", "bucket_next_offset"]),
    (KCO, "read_piece_only_size", IO_KEY, "keyReadPieceOnlySize",
     "(&mut self, offset: KeyPieceOffset) -> Result<KeyPieceSize>", ["off"], "(off : Nat) : M Nat"),
    (KCO, "read_piece_only_key_length", IO_KEY, "keyReadPieceOnlyKeyLength",
     "(&mut self, offset: KeyPieceOffset) -> Result<KeyLength>", ["off"], "(off : Nat) : M Nat"),
    (KCO, "read_piece_only_key_maybeslice", IO_KEY, "keyReadPieceOnlyKeyMaybeslice",
     "(&mut self, offset: KeyPieceOffset,) -> Result<rabuf::MaybeSlice>", ["off"], "(off : Nat) : M (List Nat)"),
    (KCO, "read_piece_only_key", IO_KEY, "keyReadPieceOnlyKey",
     "(&mut self, offset: KeyPieceOffset) -> Result<KT>", ["off"], "(off : Nat) : M (List Nat)"),
    (KCO, "read_piece_only_value_offset", IO_KEY, "keyReadPieceOnlyValueOffset",
     "(&mut self, offset: KeyPieceOffset) -> Result<ValuePieceOffset>", ["off"], "(off : Nat) : M Nat"),
    (KCO, "read_piece_only_bucket_next_offset", IO_KEY, "keyReadPieceOnlyBucketNextOffset",
     "(&mut self, offset: KeyPieceOffset,) -> Result<KeyPieceOffset>", ["off"], "(off : Nat) : M Nat"),
    # ---- the hash-table file (htx.rs): `impl VarFile` and the handle `HtxFile`
    (VFO, "seek_back_size", IO_VF, "seekBackSize", "(&mut self, size: Size<T>) -> Result<Offset<T>>", ["size"], "(size : Nat) : M Nat"),
    (VFO, "read_hash_buckets_size", IO_HTX, "htxReadHashBucketsSize", "(&mut self) -> Result<u64>", [], ": M Nat"),
    (VFO, "read_item_count", IO_HTX, "htxReadItemCount", "(&mut self) -> Result<u64>", [], ": M Nat"),
    (VFO, "write_item_count", IO_HTX, "htxWriteItemCount", "(&mut self, val: u64) -> Result<()>", ["val"], "(val : Nat) : M Unit"),
    (VFO, "read_key_piece_offset", IO_HTX, "htxReadKeyPieceOffsetIdx", "(&mut self, idx: u64) -> Result<KeyPieceOffset>",
     ["idx"], "(idx : Nat) : M Nat"),
    (VFO, "write_key_piece_offset", IO_HTX, "htxWriteKeyPieceOffsetIdx",
     "(&mut self, bucket_size: u64, idx: u64, offset: KeyPieceOffset,) -> Result<()>", ["bucketSize", "idx", "off"],
     "(bucketSize idx off : Nat) : M Unit"),
    (VFO, "next_key_piece_offset", IO_HTX, "htxNextKeyPieceOffset",
     "(&mut self, buckets_size: u64, idx: u64,) -> Result<(u64, KeyPieceOffset)>", ["bucketsSize", "idx"],
     "(bucketsSize idx : Nat) : M (Nat × Nat)"),
    ("HtxFile", "read_hash_buckets_size", IO_HTX, "htxReadHashBucketsSizeH", "(&self) -> Result<u64>", [], ": M Nat"),
    ("HtxFile", "read_key_piece_offset", IO_HTX, "htxReadKeyPieceOffset", "(&self, hash: HashValue) -> Result<KeyPieceOffset>",
     ["hash"], "(bucketsSize hash : Nat) : M Nat"),
    ("HtxFile", "write_key_piece_offset", IO_HTX, "htxWriteKeyPieceOffset",
     "(&self, hash: HashValue, offset: KeyPieceOffset) -> Result<()>", ["hash", "off"], "(bucketsSize hash off : Nat) : M Unit"),
    ("HtxFile", "read_item_count", IO_HTX, "htxReadItemCountH", "(&self) -> Result<u64>", [], ": M Nat"),
    ("HtxFile", "write_item_count_up", IO_HTX, "htxWriteItemCountUp", "(&mut self) -> Result<()>", [], ": M Unit"),
    ("HtxFile", "write_item_count_down", IO_HTX, "htxWriteItemCountDown", "(&mut self) -> Result<()>", [], ": M Unit"),
    # ---- statistics (`CheckFileDbMap`): the trait `PieceA` of the two record files, the walk over all pieces
    #      (piece.rs `PieceOffsetIter<T>`: the struct is the state tuple (piece_offset_start, piece_offset_end, piece_offset),
    #      its `file_a: Box<dyn PieceA<T>>` the parameter `fileA : PieceA`), the free-list counts, the filling rate
    ("KeyFilePieceA", "piece_offset_start", IO_KEY, "keyPieceOffsetStart", "(&self) -> Result<PieceOffset<Key>>", [], ": M Nat"),
    ("KeyFilePieceA", "piece_offset_end", IO_KEY, "keyPieceOffsetEnd", "(&self) -> Result<PieceOffset<Key>>", [], ": M Nat"),
    ("KeyFilePieceA", "piece_size", IO_KEY, "keyPieceSize", "(&self, offset: PieceOffset<Key>) -> Result<PieceSize<Key>>",
     ["off"], "(off : Nat) : M Nat"),
    ("ValueFilePieceA", "piece_offset_start", IO_VAL, "valPieceOffsetStart", "(&self) -> Result<PieceOffset<Value>>", [], ": M Nat"),
    ("ValueFilePieceA", "piece_offset_end", IO_VAL, "valPieceOffsetEnd", "(&self) -> Result<PieceOffset<Value>>", [], ": M Nat"),
    ("ValueFilePieceA", "piece_size", IO_VAL, "valPieceSize", "(&self, offset: PieceOffset<Value>) -> Result<PieceSize<Value>>",
     ["off"], "(off : Nat) : M Nat"),
    ("PieceOffsetIter", "new", IO_PI, "pieceOffsetIterNew", "(file_a: Box<dyn PieceA<T>>) -> Result<Self>", [None],
     "(fileA : PieceA) : M (%s)" % _PI_ST, {"assoc": True}),
    ("PieceOffsetIter", "next_piece_offset", IO_PI, "pieceOffsetIterNextPieceOffset", "(&mut self) -> Result<Option<PieceOffset<T>>>",
     [], "(fileA : PieceA) (st : %s) : M (Option Nat × (%s))" % (_PI_ST, _PI_ST)),
    ("KeyFile", "count_of_free_key_piece", IO_KEY, "keyCountOfFreeKeyPiece", "(&self) -> Result<Vec<(u32, u64)>>", [],
     "(c : FileCfg) : M (List (Nat × Nat))"),
    ("ValueFile", "count_of_free_value_piece", IO_VAL, "valCountOfFreeValuePiece", "(&self) -> Result<Vec<(u32, u64)>>", [],
     "(c : FileCfg) : M (List (Nat × Nat))"),
    ("HtxFile", "htx_filling_rate_per_mill", IO_HTX, "htxFillingRatePerMillH", "(&self) -> Result<(u64, u32)>", [],
     "(bucketsSize : Nat) : M (Nat × Nat)"),
    # ---- create / open: `set_file_length`, the header functions (free functions of key.rs / val.rs / htx.rs), the part of
    #      `open_with_params` of the three handles after the buffer is built (IO_OPEN)
    (VFO, "set_file_length", IO_VF, "setFileLength", "(&mut self, file_length: Offset<T>) -> Result<()>", ["len"], "(len : Nat) : M Unit"),
    ("KeyFree", "write_keyrecf_init_header", IO_KEY, "keyWriteInitHeader", _IO_HS, [None, "signature2"],
     "(signature2 : List Nat) : M Unit", {"assoc": True}),
    ("KeyFree", "check_keyrecf_header", IO_KEY, "keyCheckHeader", _IO_HS, [None, "signature2"],
     "(signature2 : List Nat) : M Unit", {"assoc": True}),
    ("ValFree", "write_valrecf_init_header", IO_VAL, "valWriteInitHeader", _IO_HS, [None, "signature2"],
     "(signature2 : List Nat) : M Unit", {"assoc": True}),
    ("ValFree", "check_valrecf_header", IO_VAL, "valCheckHeader", _IO_HS, [None, "signature2"],
     "(signature2 : List Nat) : M Unit", {"assoc": True}),
    ("HtxFree", "write_htxf_init_header", IO_HTX, "htxWriteInitHeader",
     "(file: &mut VarFile, signature2: HeaderSignature, buckets_size: u64,) -> Result<()>", [None, "signature2", "bucketsSize"],
     "(signature2 : List Nat) (bucketsSize : Nat) : M Unit", {"assoc": True}),
    ("HtxFree", "check_htxf_header", IO_HTX, "htxCheckHeader", _IO_HS, [None, "signature2"],
     "(signature2 : List Nat) : M Unit", {"assoc": True}),
    ("KeyFileOpen", "open_with_params", IO_KEY, "keyOpen", _IO_OS, [None, None, "sig2", None], "(sig2 : List Nat) : M Unit",
     {"assoc": True, "open": "key"}),
    ("ValueFileOpen", "open_with_params", IO_VAL, "valOpen", _IO_OS, [None, None, "sig2", None], "(sig2 : List Nat) : M Unit",
     {"assoc": True, "open": "val"}),
    ("HtxFileOpen", "open_with_params", IO_HTX, "htxOpen", _IO_OS, [None, None, "sig2", "p"],
     "(sig2 : List Nat) (p : HashBucketsParam) : M Nat", {"assoc": True, "open": "htx"}),
    # ---- `read_fill_buffer`: the `VarFile` (= `buf_file.read_fill_buffer()`, the bottom primitive `FileM.readFill`) and the
    #      three handles above it
    (VFO, "read_fill_buffer", IO_VF, "vfReadFillBuffer", "(&mut self) -> Result<()>", [], ": M Unit"),
    ("KeyFile", "read_fill_buffer", IO_KEY, "keyReadFillBuffer", "(&self) -> Result<()>", [], ": M Unit"),
    ("ValueFile", "read_fill_buffer", IO_VAL, "valReadFillBuffer", "(&self) -> Result<()>", [], ": M Unit"),
    ("HtxFile", "read_fill_buffer", IO_HTX, "htxReadFillBufferH", "(&self) -> Result<()>", [], ": M Unit"),
]

# the engine (dbxxx.rs `FileDbXxxInner<KT>`) -> Engine.lean, monad `DbM` over the three files.
# (owner, rust name, file, Lean name, signature, Lean names of the parameters, expected Lean signature,
#  {impl header, does the body open with the computation of the hash})
ENG = "Engine"
_ENG_I = "impl<KT: DbMapKeyType> FileDbXxxInner<KT>"
_ENG_B = "impl<KT: DbMapKeyType> DbXxxBase for FileDbXxxInner<KT>"
_ENG_O = "impl<KT: DbMapKeyType> DbXxxObjectSafe<KT> for FileDbXxxInner<KT>"
_CMP = "(cmp : List Nat → List Nat → Option Ordering)"
_ENG_C = "impl<KT: DbMapKeyType + std::fmt::Display> CheckFileDbMap for FileDbXxxInner<KT>"
_IT = "DbXxxIterMut"
_IT_I = "impl<KT: DbMapKeyType> DbXxxIterMut<KT>"
_IT_ST = "Nat × Nat × Nat × Nat"
# functions of a block that are not translated but pinned / named by the translation
IO_PINNED_NAMES = {(IO_DBX, _ENG_I): ("open_with_params", "is_dirty", "key_piece_offset_iter", "value_piece_offset_iter")}
ENG_FUNCS = [
    (ENG, "load_value", IO_DBX, "loadValue", "(&self, piece_offset: KeyPieceOffset) -> Result<Vec<u8>>", ["off"],
     "(off : Nat) : DbM (List Nat)", {"impl": _ENG_I}),
    (ENG, "store_value_on_insert", IO_DBX, "storeValueOnInsert",
     "(&mut self, piece_offset: KeyPieceOffset, value: &[u8],) -> Result<KeyPieceOffset>", ["off", "value"],
     "(kc vc : FileCfg) (off : Nat) (value : List Nat) : DbM Nat", {"impl": _ENG_I}),
    (ENG, "relink_moved_key_piece", IO_DBX, "relinkMovedKeyPiece",
     "(&mut self, hash: HashValue, old_offset: KeyPieceOffset, new_offset: KeyPieceOffset,) -> Result<()>",
     ["hash", "oldOffset", "newOffset"], "(kc : FileCfg) (bucketsSize hash oldOffset newOffset : Nat) : DbM Unit", {"impl": _ENG_I}),
    (ENG, "find_in_hash_buckets_kt", IO_DBX, "findInHashBucketsKt",
     "(&mut self, hash: HashValue, key_kt: &KT,) -> Result<Option<(KeyPieceOffset, KeyPieceOffset)>>", ["hash", "key"],
     "(bucketsSize : Nat) %s (hash : Nat) (key : List Nat) : DbM (Option (Nat × Nat))" % _CMP, {"impl": _ENG_I}),
    (ENG, "len", IO_DBX, "lenKt", "(&self) -> Result<u64>", [], ": DbM Nat", {"impl": _ENG_B}),
    (ENG, "get_kt", IO_DBX, "getKt", "(&mut self, key_kt: &KT) -> Result<Option<Vec<u8>>>", ["key"],
     "(bucketsSize : Nat) %s (hash : Nat) (key : List Nat) : DbM (Option (List Nat))" % _CMP, {"impl": _ENG_O, "hash": True}),
    (ENG, "put_kt", IO_DBX, "putKt", "(&mut self, key_kt: &KT, value: &[u8]) -> Result<()>", ["key", "value"],
     "(kc vc : FileCfg) (bucketsSize : Nat) %s (hash : Nat) (key value : List Nat) : DbM Unit" % _CMP,
     {"impl": _ENG_O, "hash": True}),
    (ENG, "del_kt", IO_DBX, "delKt", "(&mut self, key_kt: &KT) -> Result<Option<Vec<u8>>>", ["key"],
     "(kc vc : FileCfg) (bucketsSize : Nat) %s (hash : Nat) (key : List Nat) : DbM (Option (List Nat))" % _CMP,
     {"impl": _ENG_O, "hash": True}),
    (ENG, "includes_key_kt", IO_DBX, "includesKeyKt", "(&mut self, key_kt: &KT) -> Result<bool>", ["key"],
     "(bucketsSize : Nat) %s (hash : Nat) (key : List Nat) : DbM Bool" % _CMP, {"impl": _ENG_O, "hash": True}),
    # ---- the iterator state machine `DbXxxIterMut<KT>`: the struct is the explicit state tuple
    #      (remaining_item_count, buckets_size, buckets_idx, key_offset); the map behind it is the state of `DbM`
    (ENG, "load_key_data", IO_DBX, "loadKeyData", "(&self, piece_offset: KeyPieceOffset) -> Result<KT>", ["off"],
     "(off : Nat) : DbM (List Nat)", {"impl": _ENG_I}),
    (_IT, "new", IO_DBX, "iterNew", "(db_map: Rc<RefCell<FileDbXxxInner<KT>>>) -> Result<Self>", [None],
     ": DbM (%s)" % _IT_ST, {"impl": _IT_I, "assoc": True}),
    (_IT, "next_piece_offset", IO_DBX, "iterNextPieceOffset", "(&mut self) -> Option<KeyPieceOffset>", [],
     "(st : %s) : DbM (Option Nat × (%s))" % (_IT_ST, _IT_ST), {"impl": _IT_I, "plain": True, "fuel": "DbM.htxLen"}),
    (_IT, "next", IO_DBX, "iterNext", "(&mut self) -> Option<(KT, Vec<u8>)>", [],
     "(st : %s) : DbM (Option (List Nat × List Nat) × (%s))" % (_IT_ST, _IT_ST),
     {"impl": "impl<KT: DbMapKeyType> Iterator for DbXxxIterMut<KT>", "plain": True}),
    # ---- statistics (`impl CheckFileDbMap for FileDbXxxInner`)
    (ENG, "load_key_piece_size", IO_DBX, "loadKeyPieceSize", "(&self, piece_offset: KeyPieceOffset) -> Result<KeyPieceSize>", ["off"],
     "(off : Nat) : DbM Nat", {"impl": _ENG_I}),
    (ENG, "load_key_length", IO_DBX, "loadKeyLength", "(&self, piece_offset: KeyPieceOffset) -> Result<KeyLength>", ["off"],
     "(off : Nat) : DbM Nat", {"impl": _ENG_I}),
    (ENG, "load_value_piece_size", IO_DBX, "loadValuePieceSize", "(&self, piece_offset: ValuePieceOffset) -> Result<ValuePieceSize>",
     ["off"], "(off : Nat) : DbM Nat", {"impl": _ENG_I}),
    (ENG, "load_value_length", IO_DBX, "loadValueLength", "(&self, piece_offset: ValuePieceOffset) -> Result<ValueLength>", ["off"],
     "(off : Nat) : DbM Nat", {"impl": _ENG_I}),
    (ENG, "key_piece_size_stats", IO_DBX, "keyPieceSizeStats", "(&self) -> Result<RecordSizeStats<Key>>", [],
     ": DbM (List (Nat × Nat))", {"impl": _ENG_C}),
    (ENG, "value_piece_size_stats", IO_DBX, "valuePieceSizeStats", "(&self) -> Result<RecordSizeStats<Value>>", [],
     ": DbM (List (Nat × Nat))", {"impl": _ENG_C, "fuel": "DbM.valLen"}),
    (ENG, "key_length_stats", IO_DBX, "keyLengthStats", "(&self) -> Result<LengthStats<Key>>", [],
     ": DbM (List (Nat × Nat))", {"impl": _ENG_C}),
    (ENG, "value_length_stats", IO_DBX, "valueLengthStats", "(&self) -> Result<LengthStats<Value>>", [],
     ": DbM (List (Nat × Nat))", {"impl": _ENG_C, "fuel": "DbM.valLen"}),
    (ENG, "count_of_free_key_piece", IO_DBX, "countOfFreeKeyPiece", "(&self) -> Result<CountOfPerSize>", [],
     "(kc : FileCfg) : DbM (List (Nat × Nat))", {"impl": _ENG_C}),
    (ENG, "count_of_free_value_piece", IO_DBX, "countOfFreeValuePiece", "(&self) -> Result<CountOfPerSize>", [],
     "(vc : FileCfg) : DbM (List (Nat × Nat))", {"impl": _ENG_C}),
    (ENG, "htx_filling_rate_per_mill", IO_DBX, "htxFillingRatePerMill", "(&self) -> Result<(u64, u32)>", [],
     "(bucketsSize : Nat) : DbM (Nat × Nat)", {"impl": _ENG_C}),
    # ---- `read_fill_buffer` of the map: the three files, in the order of the source
    (ENG, "read_fill_buffer", IO_DBX, "readFillBuffer", "(&mut self) -> Result<()>", [], ": DbM Unit", {"impl": _ENG_B}),
]


def lean_let_alpha(term):
    """a term of the pure translator, `let x := e\n  let y := e'\n  r`, with the `let`-bound names numbered in order (each
    `let` a new number; a name refers to its latest `let`, the right-hand side is read first): equal for two terms that
    differ in the names of their locals"""
    env, out, n = {}, [], 0

    def sub(line):
        return re.sub(r"(?<![A-Za-z0-9_.'])([A-Za-z_][A-Za-z0-9_']*)", lambda m: env.get(m.group(1), m.group(1)), line)
    for line in term.split("\n"):
        m = re.match(r"^(\s*)let ([A-Za-z_][A-Za-z0-9_']*) := (.*)$", line)
        if m:
            rhs = sub(m.group(3))
            n += 1
            env[m.group(2)] = "x%d" % n
            out.append("%slet x%d := %s" % (m.group(1), n, rhs))
        else:
            out.append(sub(line))
    return "\n".join(out)


def io_pin_semtype(repo, feats):
    """the operators of the erased newtypes are built into EmitIO.px; here the source of
    semtype.rs is translated with the pure-function translator and must give exactly these terms"""
    ab = {"self.val": ("a", "u64"), "rhs.val": ("b", "u64")}
    ab32 = {"self.val": ("a", "u64"), "rhs.val": ("b", "u32")}
    pins = [
        ("sub", "std::ops::Sub<Offset<T>> for Offset<T>", "(self, rhs: Offset<T>) -> Self::Output", ab,
         "let val := (a - b)\n  let val := (val % 2^32)\n  val"),
        ("add", "std::ops::Add<PieceSize<T>> for Offset<T>", "(self, rhs: PieceSize<T>) -> Self::Output", ab32, "(a + b)"),
        ("add", "std::ops::Add<Size<T>> for Offset<T>", "(self, rhs: Size<T>) -> Self::Output", ab32, "(a + b)"),
        ("is_zero", "Offset<T>", "(&self) -> bool", {"self.val": ("a", "u64")}, "(decide (a = 0))"),
        ("is_zero", "Size<T>", "(&self) -> bool", {"self.val": ("a", "u32")}, "(decide (a = 0))"),
        ("is_zero", "Length<T>", "(&self) -> bool", {"self.val": ("a", "u32")}, "(decide (a = 0))"),
        ("as_value", "Offset<T>", "(&self) -> u64", {"self.val": ("a", "u64")}, "a"),
        ("as_value", "Size<T>", "(&self) -> u32", {"self.val": ("a", "u32")}, "a"),
        ("from", "From<Offset<T>> for u64", "(value: Offset<T>) -> Self", {"value.val": ("a", "u64")}, "a"),
        ("from", "From<Size<T>> for u32", "(value: Size<T>) -> Self", {"value.val": ("a", "u32")}, "a"),
        ("from", "From<Length<T>> for u32", "(value: Length<T>) -> Self", {"value.val": ("a", "u32")}, "a"),
        # `val_len.into()` as the `usize` argument of `read_exact_maybeslice` (64-bit target)
        ("from", "From<Length<T>> for usize", "(value: Length<T>) -> Self", {"value.val": ("a", "u32")}, "a"),
    ]
    for rust, impl, sig, subst, want in pins:
        partial, term, _notes = translate_fn(repo, feats, IO_ST, rust, None, [], subst, {}, {}, impl=impl,
                                             impl_generics="<T>", expect_sig=sig)
        if partial or lean_let_alpha(term) != lean_let_alpha(want):
            fail("%s::<impl<T> %s>::%s translates to `%s`, the imperative I/O subset assumes `%s`"
                 % (IO_ST, impl, rust, term.replace("\n", " "), want.replace("\n", " ")))
    # comparisons are the derived ones: `val` is the first field, the second is PhantomData;
    # `Default` (the fields a piece constructor leaves out) is the derived one: 0
    src = strip_comments(open(os.path.join(repo, IO_ST)).read())
    for ty_, w_ in (("Offset", "u64"), ("Size", "u32"), ("Length", "u32")):
        if not re.search(r"#\[derive\(([^)]*,\s*)?Default,[^)]*\bPartialEq,\s*PartialOrd\b[^)]*\)\]\s*pub\s+struct\s+%s<T>\s*\{\s*val:\s*%s,"
                         r"\s*_phantom:\s*PhantomData<fn\(\)\s*->\s*T>,\s*\}" % (ty_, w_), src):
            fail("%s: struct %s<T> is not `#[derive(.. Default, .. PartialEq, PartialOrd ..)] { val: %s, _phantom }`" % (IO_ST, ty_, w_))
    # the type aliases used in key.rs / val.rs
    for alias, target in (("PieceOffset<T>", "Offset<Piece<T>>"), ("PieceSize<T>", "Size<Piece<T>>"),
                          ("KeyPieceOffset", "PieceOffset<Key>"), ("ValuePieceOffset", "PieceOffset<Value>"),
                          ("KeyPieceSize", "PieceSize<Key>"), ("ValuePieceSize", "PieceSize<Value>"),
                          ("KeyLength", "Length<Key>"), ("ValueLength", "Length<Value>")):
        if not re.search(r"pub\s+type\s+%s\s*=\s*%s\s*;" % (re.escape(alias), re.escape(target)), src):
            fail("%s: `pub type %s = %s;` not found" % (IO_ST, alias, target))
    # `new(val: uN)`: the width in which an arithmetic argument of a constructor is computed
    for ty_, w_ in (("Offset", "u64"), ("Size", "u32"), ("Length", "u32")):
        if not re.search(r"impl<T>\s+%s<T>\s*\{\s*(#\[inline\]\s*)?pub\s+fn\s+new\(val:\s*%s\)\s*->\s*Self\s*\{\s*Self\s*\{\s*val,"
                         r"\s*_phantom:\s*PhantomData,\s*\}\s*\}" % (ty_, w_), src):
            fail("%s: `%s<T>::new(val: %s)` is not the plain constructor" % (IO_ST, ty_, w_))


def io_pin_structs(repo, feats, pure_names):
    """the definitions of the piece structs, of the constructors used, of the wrappers around the VarFile"""
    for name, st in IO_STRUCTS.items():
        lead = st.get("lead", "pub struct " + name)
        got = io_find_item_tokens(repo, st["file"], lead)
        want = [v for _k, v in tokenize(st["decl"])]
        if got != want:
            fail("%s: the definition of `%s` is `%s`, the translation is configured for `%s`"
                 % (st["file"], name, " ".join(got), " ".join(want)))
        if st.get("state"):
            inner = " ".join(want[want.index("{") + 1:])
            if list(st["handles"]) + [f for f, _c in st["fields"]] != re.findall(r"(?:^|, )(\w+) :", inner) \
                    or sorted(st["lean"]) != sorted(f for f, _c in st["fields"]):
                fail("%s: configuration error: fields of `%s`" % (st["file"], name))
        elif [f for f, _c in st["fields"]] != re.findall(r"pub (\w+) :", " ".join(want)):
            fail("%s: configuration error: fields of `%s`" % (st["file"], name))
        methods = io_find_methods(repo, feats, st["file"], st["impl"])
        for ctor, (txt, _how) in st["ctors"].items():
            cands = methods.get(ctor, [])
            if len(cands) != 1:
                fail("%s::<%s>::%s: %d definitions (exactly one expected)" % (st["file"], st["impl"], ctor, len(cands)))
            got = [v for _k, v in cands[0][0]]
            want = [v for _k, v in tokenize(txt)]
            if got != want:
                # (the parameters of these constructors are the fields of a struct literal in shorthand: `Self { offset, … }`;
                # a renamed parameter needs `offset: off`, another token sequence: compared as they are)
                fail("%s::<%s>::%s is `%s`, the translation is configured for `%s`"
                     % (st["file"], st["impl"], ctor, " ".join(got), " ".join(want)))
        for m, (lean, _a, _r, _w) in st["pure"].items():
            if lean not in pure_names:
                fail("%s::<%s>::%s: its translation `%s` is not in Funcs.lean" % (st["file"], st["impl"], m, lean))
    for owner, (_h, _vf, pin) in IO_OWNERS.items():
        if pin is not None:
            src = strip_comments(open(os.path.join(repo, pin[0])).read())
            if len(re.findall(pin[1], src)) != 1:
                fail("%s: `%s` is not the tuple struct around the VarFile the translation is configured for" % (pin[0], owner))


def io_pin_stats(repo, feats, pure_names):
    """piece.rs: the trait `PieceA<T>` (IO_PIECEA); src/filedb/mod.rs: the statistics vectors (IO_STATS) and `CountOfPerSize`"""
    io_pin_tokens(repo, IO_PI, "pub(crate) trait PieceA",
                  "pub(crate) trait PieceA<T> { fn piece_offset_start(&self) -> Result<PieceOffset<T>>; "
                  "fn piece_offset_end(&self) -> Result<PieceOffset<T>>; "
                  "fn piece_size(&self, offset: PieceOffset<T>) -> Result<PieceSize<T>>; }", "the definition of the trait `PieceA`")
    io_pin_tokens(repo, IO_MOD_RS, "pub struct RecordSizeStats",
                  "#[derive(Debug, Default)] pub struct RecordSizeStats<T>(Vec<(PieceSize<T>, u64)>);",
                  "the definition of `RecordSizeStats`")
    io_pin_tokens(repo, IO_MOD_RS, "pub struct LengthStats",
                  "#[derive(Debug, Default)] pub struct LengthStats<T: Default>(Vec<(Length<T>, u64)>);",
                  "the definition of `LengthStats`")
    io_pin_tokens(repo, IO_MOD_RS, "pub type CountOfPerSize", "pub type CountOfPerSize = Vec<(u32, u64)>;",
                  "the definition of `CountOfPerSize`")
    for sn, (_cls, m, _ac, lean) in IO_STATS.items():
        if lean not in pure_names:
            fail("%s: `%s::%s`: its translation `%s` is not in Funcs.lean" % (IO_MOD_RS, sn, m, lean))


def io_pin_piece_iters(repo, feats, methods):
    """`for off in self.key_piece_offset_iter()` / `self.value_piece_offset_iter()` (dbxxx.rs): the layers between the
    `for` and `PieceOffsetIter<T>` are plain wrappers (pinned token-wise): the loop is `PieceOffsetIter::new(<the file as
    dyn PieceA>).unwrap()` once and `next_piece_offset().unwrap()` per round"""
    def pin(rel, header, name, want):
        if (rel, header) not in methods:
            methods[(rel, header)] = io_find_methods(repo, feats, rel, header)
        cands = methods[(rel, header)].get(name, [])
        got = [v for _k, v in cands[0][0]] if len(cands) == 1 else None
        if got is None or toks_eq_renamed(got, [v for _k, v in tokenize(want)]) is None:
            fail("%s::<%s>::%s is `%s`, the translation of the `for` loops over the pieces is configured for `%s`"
                 % (rel, header, name, " ".join(got) if got else "(%d definitions)" % len(cands), want))
    for rel, eng_m, it, hdr_file, file_ty, gen, arg, tag in (
            (IO_KEY, "key_piece_offset_iter", "KeyPieceOffsetIter", "impl<KT: DbMapKeyType> KeyFile<KT>", "&KeyFile<KT>",
             "<KT: DbMapKeyType>", "key_file", "Key"),
            (IO_VAL, "value_piece_offset_iter", "ValuePieceOffsetIter", "impl ValueFile", "&ValueFile", "", "val_file", "Value")):
        # (a private wrapper: under another name it is the one private method of the block with exactly this body)
        if (IO_DBX, _ENG_I) not in methods:
            methods[(IO_DBX, _ENG_I)] = io_find_methods(repo, feats, IO_DBX, _ENG_I)
        if eng_m not in methods[(IO_DBX, _ENG_I)]:
            same = [m_ for m_, c_ in sorted(methods[(IO_DBX, _ENG_I)].items())
                    if len(c_) == 1 and c_[0].vis != "pub" and m_ not in io_configured_names(IO_DBX, _ENG_I, True)
                    and [v for _k, v in c_[0][0]] == [v for _k, v in tokenize(
                        "fn %s(&self) -> %s { self.%s.piece_offset_iter() }" % (m_, it, arg))]]
            if len(same) == 1:
                IO_PIECE_ITERS["key" if tag == "Key" else "val"] = same[0]
        eng_m = IO_PIECE_ITERS["key" if tag == "Key" else "val"]
        pin(IO_DBX, _ENG_I, eng_m, "fn %s(&self) -> %s { self.%s.piece_offset_iter() }" % (eng_m, it, arg))
        pin(rel, hdr_file, "piece_offset_iter", "fn piece_offset_iter(&self) -> %s { %s::new(self).unwrap() }" % (it, it))
        io_pin_tokens(repo, rel, "pub(crate) struct " + it,
                      "#[derive(Debug)] pub(crate) struct %s { piece_iter: PieceOffsetIter<%s>, }" % (it, tag),
                      "the definition of `%s`" % it)
        pin(rel, "impl " + it, "new", "fn new%s(%s: %s) -> Result<Self> { let piece_iter = PieceOffsetIter::<%s>::new(Box::new(%s.clone()))?; "
            "Ok(Self { piece_iter }) }" % (gen, arg, file_ty, tag, arg))
        pin(rel, "impl " + it, "next_piece_offset", "fn next_piece_offset(&mut self) -> Result<Option<PieceOffset<%s>>> "
            "{ self.piece_iter.next_piece_offset() }" % tag)
        pin(rel, "impl Iterator for " + it, "next", "fn next(&mut self) -> Option<%sPieceOffset> { self.next_piece_offset().unwrap() }" % tag)


def io_struct_fields(owner_where, sname, cfg):
    """configuration `{field: Lean name | -Lean name}` of a flattened struct parameter -> fields of IoParam"""
    st = IO_STRUCTS[sname]
    if not isinstance(cfg, dict) or sorted(cfg) != sorted(f for f, _c in st["fields"]):
        fail("%s: configuration error: the fields of the `%s` parameter" % (owner_where, sname))
    return [(f, c, cfg[f].lstrip("-"), not cfg[f].startswith("-")) for f, c in st["fields"]]


def io_strip_tc(ts):
    """a trailing comma of a parameter list (rustfmt, multi-line signatures) is not significant"""
    return [v for j, v in enumerate(ts) if not (v == "," and j + 1 < len(ts) and ts[j + 1] == ")")]


def io_pin_tokens(repo, relpath, lead, want, what):
    got = io_find_item_tokens(repo, relpath, lead)
    want = [v for _k, v in tokenize(want)]
    if toks_eq_renamed(got, want) is None:                  # (equal up to the names bound inside: a definition binds none)
        fail("%s: %s is `%s`, the translation is configured for `%s`" % (relpath, what, " ".join(got), " ".join(want)))


def io_pin_htx(repo, feats, const_srcs):
    """htx.rs: the cache struct around the VarFile (its `file`, its `buckets_size`), the `HtxFile` handle, the
    constants used; semtype.rs: `HashValue`, the `Node…` aliases; `impl SmallRead/SmallWrite for VarFile`"""
    io_pin_tokens(repo, IO_HTX, "pub struct VarFileHtxCache",
                  '#[derive(Debug)] pub struct VarFileHtxCache { pub file: VarFile, buckets_size: u64, '
                  '#[cfg(feature = "htx_print_hits")] hits: u64, #[cfg(feature = "htx_print_hits")] miss: u64, }',
                  "the definition of `VarFileHtxCache`")
    io_pin_tokens(repo, IO_HTX, "pub struct HtxFile",
                  "#[derive(Debug, Clone)] pub struct HtxFile(pub Rc<RefCell<VarFileHtxCache>>);",
                  "the definition of `HtxFile`")
    for rel, names in IO_CONSTS.items():
        for rust, lean in names.items():
            lean = io_const_name(lean)
            if const_srcs.get(lean) != "%s `%s`" % (rel, rust):
                fail("%s: the constant `%s` is not `%s` of Consts.lean" % (rel, rust, lean))
    src = strip_comments(open(os.path.join(repo, IO_ST)).read())
    if not re.search(r"pub\s+struct\s+HashValue\s*\{\s*val:\s*u64,\s*\}\s*impl\s+HashValue\s*\{\s*(#\[inline\]\s*)?pub\s+fn\s+"
                     r"new\(val:\s*u64\)\s*->\s*Self\s*\{\s*Self\s*\{\s*val\s*\}\s*\}\s*(#\[inline\]\s*)?pub\s+fn\s+"
                     r"as_value\(&self\)\s*->\s*u64\s*\{\s*self\.val\s*\}", src):
        fail("%s: `HashValue` is not `{ val: u64 }` with the plain `new` / `as_value`" % IO_ST)
    for alias, target in (("NodePieceOffset", "Offset<Piece<Node>>"), ("NodePieceSize", "Size<Piece<Node>>")):
        if not re.search(r"pub\s+type\s+%s\s*=\s*%s\s*;" % (re.escape(alias), re.escape(target)), src):
            fail("%s: `pub type %s = %s;` not found" % (IO_ST, alias, target))
    # `self.read_u8()` / `self.write_u8(v)` on the VarFile are the primitives of its buffer
    for header, m, body in (("impl rabuf::SmallRead for VarFile", "read_u8", "fn read_u8(&mut self) -> Result<u8> { self.buf_file.read_u8() }"),
                            ("impl rabuf::SmallWrite for VarFile", "write_u8",
                             "fn write_u8(&mut self, val: u8) -> Result<()> { self.buf_file.write_u8(val) }"),
                            ("impl rabuf::SmallRead for VarFile", "read_u64_le",
                             "fn read_u64_le(&mut self) -> Result<u64> { self.buf_file.read_u64_le() }"),
                            ("impl rabuf::SmallWrite for VarFile", "write_u64_le",
                             "fn write_u64_le(&mut self, val: u64) -> Result<()> { self.buf_file.write_u64_le(val) }")):
        cands = io_find_methods(repo, feats, IO_VF, header).get(m, [])
        if len(cands) != 1 or toks_eq_renamed([v for _k, v in cands[0][0]], [v for _k, v in tokenize(body)]) is None:
            fail("%s::<%s>::%s is not `%s`" % (IO_VF, header, m, body))


def io_wrappers(repo, feats, relpath, header, inner_owner, done):
    """the wrapper layer `KeyFile<KT>` / `ValueFile` around the `VarFile…Cache`: every method that is
    exactly `fn m(&self, p…) -> R { let mut locked = self.0.borrow_mut(); locked.g(a…) }` (or with
    `RefCell::borrow_mut(&self.0)`), a… parameters or boolean literals, g a translated function:
    m -> (g, number of parameters, [("param", i) | ("lit", expression)]).  Other methods are not listed
    (a call of one of them fails)."""
    out = {}
    for m, cands in io_find_methods(repo, feats, relpath, header).items():
        if len(cands) != 1:
            continue
        toks = cands[0][0]
        where = "%s::<%s>::%s" % (relpath, header, m)
        try:
            recv, params, ret, ib = io_parse_sig(toks, where)
        except TrError:
            continue
        if recv != "&self":
            continue
        pp = P(toks[ib:], feats, where)
        pp.keep_try = True
        try:
            body = pp.block()
        except TrError:
            continue
        if pp.dropped or len(body[1]) != 1 or body[2] is None:
            continue
        st, tl = body[1][0], body[2]
        lock = st[3] if st[0] == "let" else None
        if not (st[0] == "let" and st[1][0] == "pvar" and st[1][1] != "_" and st[2] is None and st[4]
                and lock in (("mcall", ("field", ("path", ["self"]), "0"), "borrow_mut", []),
                             ("call", ["RefCell", "borrow_mut"], [("field", ("path", ["self"]), "0")]))):
            continue
        names = [x[0] for x in params]
        inner = ALIASES.src_to_cfg(inner_owner, tl[2]) if tl[0] == "mcall" else None
        if not (tl[0] == "mcall" and tl[1] == ("path", [st[1][1]]) and st[1][1] not in names and (inner_owner, inner) in done):
            continue
        spec = []
        for a in tl[3]:
            if a[0] == "path" and len(a[1]) == 1 and a[1][0] in names:
                spec.append(("param", names.index(a[1][0])))
            elif a in (("path", ["true"]), ("path", ["false"])):
                spec.append(("lit", a))
            else:
                spec = None
                break
        if spec is None or sorted(x[1] for x in spec if x[0] == "param") != list(range(len(names))):
            continue
        g = done[(inner_owner, inner)]
        # the wrapper's types are those of the function behind it
        gp = [p_ for p_ in g.params if p_.cls != "vfile"]
        ok = len(gp) == len(spec) and ret == g.ret_text
        for p_, x in zip(gp, spec):
            if x[0] == "param":
                ok = ok and io_sig_type(params[x[1]][1], where) == p_.cls
            else:
                ok = ok and p_.cls == "bool"
        if not ok:
            fail("%s: the types of the wrapper differ from those of `%s`" % (where, tl[2]))
        out[m] = (inner, len(names), spec)
    return out


def io_pin_handles(repo):
    """the handles of the two record files: a shared `RefCell` around the cache struct"""
    io_pin_tokens(repo, IO_KEY, "pub struct KeyFile",
                  "#[derive(Debug, Clone)] pub struct KeyFile<KT: DbMapKeyType>(pub Rc<RefCell<VarFileKeyCache<KT>>>);",
                  "the definition of `KeyFile`")
    io_pin_tokens(repo, IO_VAL, "pub struct ValueFile",
                  "#[derive(Debug, Clone)] pub struct ValueFile(Rc<RefCell<VarFileValueCache>>);",
                  "the definition of `ValueFile`")


def io_pin_open(repo, feats, pure_names):
    """what the translation of the create / open path assumes: `HeaderSignature`, `read_exact` / `write_all` on the VarFile are
    std's default loops over `buf_file.read` / `buf_file.write`, `VarFileHtxCache::new`, `FileDbParams::buckets_size`"""
    for rel in (IO_KEY, IO_VAL, IO_HTX):
        io_pin_tokens(repo, rel, "type HeaderSignature", "type HeaderSignature = [u8; 8];", "the definition of `HeaderSignature`")
    for header, bodies in (
            ("impl Read for VarFile", {"read": "fn read(&mut self, buf: &mut [u8]) -> Result<usize> { self.buf_file.read(buf) }"}),
            ("impl Write for VarFile", {"write": "fn write(&mut self, buf: &[u8]) -> Result<usize> { #[cfg(abyssiniandb_verif)] "
                                                 'super::verif::io_trace(self.buf_file.name(), "write"); self.buf_file.write(buf) }',
                                        "flush": None})):
        ms = io_find_methods(repo, feats, IO_VF, header)
        if sorted(ms) != sorted(bodies):
            fail("%s::<%s>: its methods are `%s`; `read_exact` / `write_all` are translated as std's default loops over "
                 "`read` / `write`, which must be the only methods (%s)" % (IO_VF, header, "`, `".join(sorted(ms)), ", ".join(sorted(bodies))))
        for m, body in bodies.items():
            if body is not None and (len(ms[m]) != 1 or
                                     toks_eq_renamed([v for _k, v in ms[m][0][0]], [v for _k, v in tokenize(body)]) is None):
                fail("%s::<%s>::%s is not `%s`" % (IO_VF, header, m, body))
    ms = io_find_methods(repo, feats, IO_HTX, "impl VarFileHtxCache").get("new", [])
    want = ('fn new(file: VarFile) -> Self { Self { file, buckets_size: 0, #[cfg(feature = "htx_print_hits")] hits: 0, '
            '#[cfg(feature = "htx_print_hits")] miss: 0, } }')
    if len(ms) != 1 or [v for _k, v in ms[0][0]] != [v for _k, v in tokenize(want)]:
        fail("%s::<impl VarFileHtxCache>::new is not `%s`" % (IO_HTX, want))
    io_pin_tokens(repo, IO_MOD_RS, "pub enum HashBucketsParam",
                  "#[derive(Debug, Clone)] pub enum HashBucketsParam { BucketsSize(u64), Capacity(u64), Default, }",
                  "the definition of `HashBucketsParam`")
    src = strip_comments(open(os.path.join(repo, IO_MOD_RS)).read())
    m = re.search(r"pub\s+struct\s+FileDbParams\s*\{(.*?)\}", src, re.S)
    if not m or len(re.findall(r"\bpub\s+buckets_size\s*:\s*HashBucketsParam\s*,", m.group(1))) != 1:
        fail("%s: `FileDbParams` has no field `pub buckets_size: HashBucketsParam`" % IO_MOD_RS)
    io_pin_handles(repo)
    if "bucketsOf" not in pure_names:
        fail("%s::<impl HtxFile>::open_with_params: the translation `bucketsOf` of `let buckets_size = …` is not in Funcs.lean" % IO_HTX)


def io_pin_engine(repo, feats):
    io_pin_tokens(repo, IO_DBX, "pub struct FileDbXxxInner",
                  "#[derive(Debug)] pub struct FileDbXxxInner<KT: DbMapKeyType> { dirty: bool, key_file: key::KeyFile<KT>, "
                  "val_file: val::ValueFile, htx_file: htx::HtxFile, _phantom: std::marker::PhantomData<KT>, }",
                  "the definition of `FileDbXxxInner`")
    io_pin_handles(repo)
    # the empty `#[cold]` function (a hint for the branch predictor), whatever it is called (a private function)
    want = [v for _k, v in tokenize("#[inline] #[cold] fn _cold() {}")]
    toks = tokenize(strip_comments(open(os.path.join(repo, IO_MOD)).read()))
    colds = [toks[s_ + 1][1] for a_, s_, e_ in split_items(toks, 0, len(toks))
             if e_ - a_ == len(want) and toks[s_][1] == "fn" and toks[s_ + 1][0] == "id"
             and [v for _k, v in toks[a_:s_ + 1]] + ["_cold"] + [v for _k, v in toks[s_ + 2:e_]] == want]
    if "_cold" not in colds and len(colds) == 1:
        IO_COLD[0] = colds[0]
    else:
        io_pin_tokens(repo, IO_MOD, "fn _cold", "#[inline] #[cold] fn _cold() {}", "the definition of `_cold`")
    src = strip_comments(open(os.path.join(repo, "src/lib.rs")).read())
    if len(re.findall(r"fn\s+cmp_u8\(&self,\s*other:\s*&\[u8\]\)\s*->\s*std::cmp::Ordering;", src)) != 1:
        fail("src/lib.rs: `DbMapKeyType::cmp_u8(&self, other: &[u8]) -> std::cmp::Ordering` not found")


def io_plumbing(f, st, handles):
    """the `RefCell` plumbing around the shared structs, pinned by shape: a statement
    `let [mut] h = RefCell::borrow(&X);` / `RefCell::borrow_mut(&X)` / `X.borrow()` / `X.borrow_mut()` with
      X = the `db_map` parameter / `self.db_map` of an iterator struct  -> h is the map (`FileDbXxxInner`): kind `eng`
      X = <map>.key_file.0 (borrow_mut)                                 -> h is the key file (`VarFileKeyCache`): `key`
      X = <map>.htx_file.0 (borrow_mut)                                 -> h is the `VarFileHtxCache` (`h.file`): `htx`
      X = self.0 (borrow_mut) in a method of a handle (IO_LOCKS)        -> `h.0` is the VarFile: `lock`
    -> (h, kind, text of the statement) or None.  <map> = a handle of kind `eng`."""
    if st[0] != "let" or st[1][0] != "pvar" or st[2] is not None:
        return None
    h, e = st[1][1], st[3]
    if e[0] == "call" and e[1] in (["RefCell", "borrow"], ["RefCell", "borrow_mut"]) and len(e[2]) == 1:
        x, how = e[2][0], e[1][1]
        txt = "RefCell::%s(&%s)" % (how, io_text(x))
    elif e[0] == "mcall" and e[2] in ("borrow", "borrow_mut") and not e[3]:
        x, how = e[1], e[2]
        txt = "%s.%s()" % (io_text(x), how)
    else:
        return None
    txt = "let %s%s = %s;" % ("mut " if st[4] else "", h, txt)
    if x[0] == "path" and len(x[1]) == 1 and f.handle_params.get(x[1][0]) == "dbmap":
        return (h, "eng", txt)
    if f.state and x[0] == "field" and x[1] == ("path", ["self"]) and IO_STRUCTS[f.state]["handles"].get(x[2]) == "dbmap":
        return (h, "eng", txt)
    if (how == "borrow_mut" and x[0] == "field" and x[2] == "0" and x[1][0] == "field" and x[1][2] in ("key_file", "htx_file")
            and x[1][1][0] == "path" and len(x[1][1][1]) == 1 and handles.get(x[1][1][1][0]) == "eng"):
        return (h, "key" if x[1][2] == "key_file" else "htx", txt)
    if f.lock and how == "borrow_mut" and h == f.lock and st[4] and x == ("field", ("path", ["self"]), "0"):
        return (h, "lock", txt)
    return None


# the statement `let hash = HashValue::new(key_kt.hash_value());` that opens the four API functions
def io_format_parts(where, lit, names):
    """the format string of `format!("…")` with inline arguments only: [("lit", text) | ("var", name)]; `{name}` with `name`
    in `names` (plain `Display` of a `&str`: the string itself) and literal text of printable ASCII; anything else fails"""
    if not (len(lit) >= 2 and lit[0] == '"' and lit[-1] == '"'):
        fail("%s: `format!` without a string literal as its format string" % where)
    body, parts, i = lit[1:-1], [], 0

    def put(ch):
        if parts and parts[-1][0] == "lit":
            parts[-1] = ("lit", parts[-1][1] + ch)
        else:
            parts.append(("lit", ch))

    while i < len(body):
        ch = body[i]
        if ch == "{":
            if body[i + 1:i + 2] == "{":
                fail("%s: format string %s: escaped brace `{{`" % (where, lit))
            j = body.find("}", i)
            if j < 0:
                fail("%s: format string %s: unterminated `{`" % (where, lit))
            arg = body[i + 1:j]
            if arg == "":
                fail("%s: format string %s: positional argument `{}`" % (where, lit))
            if not re.match(r"^[A-Za-z_][A-Za-z0-9_]*$", arg):
                fail("%s: format string %s: argument `{%s}` is not a plain inline `{name}` (format specs / positions / `:?` are "
                     "outside the subset)" % (where, lit, arg))
            if arg not in names:
                fail("%s: format string %s: `{%s}` is not one of the `&str` parameters %s" % (where, lit, arg, sorted(names)))
            parts.append(("var", arg))
            i = j + 1
        elif ch == "}":
            fail("%s: format string %s: `}` outside an argument" % (where, lit))
        elif ch == "\\" or ch == '"' or not (" " <= ch <= "~"):
            fail("%s: format string %s: escape sequence / non-ASCII character %r in the literal text" % (where, lit, ch))
        else:
            put(ch)
            i += 1
    return parts


def io_file_name(where, feats, params, stmts, ext, pb="pb"):
    """the path statements of an `open_with_params` (token lists, each ending with `;`): exactly
    `let mut pb = path.as_ref().to_path_buf();` (the database directory `path: P`, `P: AsRef<Path>`) and
    `pb.push(format!("…{ks_name}…"));` — the formatted string is pushed onto the directory, i.e. it is the NAME of the file
    inside the directory; `pb` is what `OpenOptions::…::open(pb)` opens (pinned with the rest of the prefix; `pb`: the name
    of that local in the source).  `path` / `ks_name` are the parameters of type `P` / `&str`, whatever the source calls them.
    Value: (Lean name, Lean definition text)."""
    if not stmts:
        fail("%s: no statement between `let piece_mgr …;` and `let std_file …;` builds the path of the file" % where)
    strs = dict((n, t) for n, t in params if t == "&str")
    dirs = [n for n, t in params if t == "P"]
    if len(dirs) != 1 or len(strs) != 1:
        fail("%s: the parameters are not `path: P` (the directory) and `ks_name: &str` (the name of the map)" % where)
    path, ks_name = dirs[0], list(strs)[0]
    pp = P([("op", "{")] + [t for st in stmts for t in st] + [("op", "}")], feats, where)
    pp.keep_try = True
    body = pp.block()
    if pp.dropped or pp.kept or body[2] is not None:
        fail("%s: `#[cfg]` / a value among the path statements" % where)

    def show(st):
        if st[0] == "let":
            return "let %s = %s;" % (" ".join(pat_vars(st[1])), rs_show(st[3]))
        if st[0] == "expr":
            return rs_show(st[1]) + ";"
        return st[0] + " …"

    want0 = ("let", ("pvar", pb), None, ("mcall", ("mcall", ("path", [path]), "as_ref", []), "to_path_buf", []), True)
    if body[1][0] != want0:
        fail("%s: the first path statement is `%s`, not `let mut pb = path.as_ref().to_path_buf();`" % (where, show(body[1][0])))
    if len(body[1]) < 2:
        fail("%s: nothing is pushed onto the path `pb` (the directory itself would be opened)" % where)
    for x in body[1][1:]:
        xe = x[1] if x[0] == "expr" else None
        if xe is not None and xe[0] == "mcall" and xe[1] == ("path", [pb]) and xe[2] != "push":
            fail("%s: the path of the file is built with `pb.%s(..)` (`%s`): only `pb.push(format!(\"…\"))` — a file name inside "
                 "the directory — is in the subset (`set_extension` / `set_file_name` / `pop` replace or reinterpret parts of the "
                 "path: `\"a.b\".set_extension(\"val\")` is `a.val`)" % (where, xe[2], show(x)))
    st = body[1][1]
    e = st[1] if st[0] == "expr" else None
    if e is None or e[0] != "mcall" or e[1] != ("path", [pb]):
        fail("%s: the second path statement is `%s`, not `pb.push(format!(\"…\"));`" % (where, show(st)))
    if not (len(e[3]) == 1 and e[3][0][0] == "call" and e[3][0][1] == ["format!"]):
        fail("%s: the argument of `pb.push(..)` is `%s`, not a `format!(\"…\")`" % (where, rs_show(e[3][0]) if e[3] else ""))
    fa = e[3][0][2]
    if len(fa) != 1 or fa[0][0] != "str":
        fail("%s: `format!` with arguments after the format string / without a string literal (`%s`): only inline `{ks_name}` "
             "is in the subset" % (where, show(st)))
    if len(body[1]) > 2:
        x = body[1][2]
        xe = x[1] if x[0] == "expr" else None
        what = "`pb.%s(..)`" % xe[2] if (xe is not None and xe[0] == "mcall" and xe[1] == ("path", [pb])) else "a statement"
        fail("%s: %s after `pb.push(format!(..));` (`%s`): the path statements must be exactly `let mut pb = "
             "path.as_ref().to_path_buf(); pb.push(format!(\"…\"));`" % (where, what, show(x)))
    parts = io_format_parts(where, fa[0][1], strs)
    if [p_ for p_ in parts if p_[0] == "var"] != [("var", ks_name)]:
        fail("%s: format string %s: `{ks_name}` does not occur exactly once" % (where, fa[0][1]))
    term = " ++ ".join('"%s"' % t if k_ == "lit" else "ksName" for k_, t in parts)
    lean = ext + "FileName"
    text = ("/-- %s, the path statements `let mut pb = path.as_ref().to_path_buf(); pb.push(format!(%s));` — `pb` is what "
            "`OpenOptions::new()….open(pb)?` opens (pinned): the NAME of the file inside the database directory `path` (`PathBuf::push` "
            "of a relative name without separators appends one component; a `ks_name` that is absolute or contains `/` leaves the "
            "directory: not modelled).  `{ks_name}` is the `Display` of the `&str` parameter `ks_name`, the string itself. -/\n"
            "def %s (ksName : String) : String := %s\n" % (where, fa[0][1], lean, term))
    return lean, text


def io_build_fn(repo, feats, methods, spec, engine):
    """look up, pin and parse one configured function"""
    owner, rust, rel, lean, sig, pnames, lsig = spec[:7]
    opts = spec[7] if len(spec) > 7 else None
    ret_fields = opts if isinstance(opts, list) else None
    if not isinstance(opts, dict):
        opts = {}
    header, vf_text, _pin = IO_OWNERS[owner][:3] if not engine else (opts["impl"], None, None)
    if "impl" in opts:
        header = opts["impl"]
    state = owner if (owner in IO_STRUCTS and IO_STRUCTS[owner].get("state")) else None
    where = "%s::<%s>::%s" % (rel, header, rust) if header is not None else "%s::%s" % (rel, rust)
    if (rel, header) not in methods:
        methods[(rel, header)] = io_find_methods(repo, feats, rel, header) if header is not None else io_find_free_fns(repo, feats, rel)
    cands = methods[(rel, header)].get(rust, [])
    want = io_strip_tc([v for _k, v in tokenize(sig)])
    if len(cands) == 0:
        # a private function that the source has renamed (all call sites with it)?
        cands = io_find_renamed(methods[(rel, header)], owner, rust, want, io_configured_names(rel, header, engine), where,
                                "%s: %d definitions with a true `#[cfg]` (exactly one expected)" % (where, len(cands)))
    if len(cands) != 1:
        fail("%s: %d definitions with a true `#[cfg]` (exactly one expected)" % (where, len(cands)))
    toks, blockdesc = cands[0]
    recv, params, ret, ib = io_parse_sig(toks, where, assoc=bool(opts.get("assoc")))
    if (recv is None) != bool(opts.get("assoc")):
        fail("%s: configuration error: receiver / associated function" % where)
    got = io_sig_toks(toks)
    pairs = sig_eq_renamed(got, want)
    if pairs is None or [g for _w, g in pairs] != [n for n, _t in params]:
        fail("%s: signature is `%s`, the translation is configured for `%s`" % (where, " ".join(got), " ".join(want)))
    # the names the source gives the parameters; from here on `params` has the configured names (the body is renamed below)
    src_params = params
    params = [(w, t) for (w, _g), (_n, t) in zip(pairs, params)]
    f = IoFn()
    # a function that does not return a `Result` (`next_piece_offset`, `Iterator::next`): its value is the
    # value of the Lean function; a panic inside (`.unwrap()` of an `Err`) is the failure of the monad
    f.plain = bool(opts.get("plain"))
    if not f.plain and not (ret.startswith("Result<") and ret.endswith(">")):
        fail("%s: the return type `%s` is not `Result<..>`" % (where, ret))
    if f.plain and ret.startswith("Result<"):
        fail("%s: configuration error: the function returns a `Result`" % where)
    f.owner, f.rust, f.rel, f.lean, f.where, f.lsig = owner, rust, rel, lean, where, lsig
    f.engine = engine
    f.monad, f.failtxt, f.fueltxt = ("DbM", "DbM.fail", "DbM.keyLen") if engine else ("M", "FileM.fail", "FileM.fileLen")
    if "fuel" in opts:
        f.fueltxt = opts["fuel"]
    f.src = "%s %s, `fn %s`%s" % (rel, blockdesc, rust, ALIASES.note(owner, rust))
    f.ret_text = ret
    rtxt = ret if f.plain else ret[len("Result<"):-1]
    f.state = state if (state and recv is not None) else None     # `&mut self` is threaded through as the tuple `st`
    f.eng_self = engine and state is None                         # `self` is the `FileDbXxxInner`
    f.handle_params = {}                                          # parameter -> kind of handle (`dbmap`, `piecea`)
    f.lock = IO_LOCKS.get(owner)
    f.open_kind = opts.get("open")                                # `open_with_params` of a handle (IO_OPEN)
    f.file_name = None                                            # (Lean name, definition text) of the file name (io_file_name)
    f.caches = {}                                                 # cache struct -> the local that holds it
    f.buckets_of = False
    if rtxt == "Self" and state and recv is None:
        # the constructor of an iterator struct: its value is the state tuple
        f.ret = ("struct", state)
        ret_fields = [x for x, _c in IO_STRUCTS[state]["fields"]]
    elif rtxt == "Self" and f.open_kind:
        # the handle is represented by the data of its cache struct (EmitIO.handle_value)
        f.ret = IO_OPEN[f.open_kind][2]
    else:
        f.ret = io_sig_type(rtxt, where)
    f.ret_fields, f.ret_omitted = None, None
    if isinstance(f.ret, tuple) and f.ret[0] == "struct":
        names = [x for x, _c in IO_STRUCTS[f.ret[1]]["fields"]]
        if not ret_fields or [x for x in names if x in ret_fields] != list(ret_fields):
            fail("%s: configuration error: the returned fields of `%s`" % (where, f.ret[1]))
        f.ret_fields = list(ret_fields)
    elif ret_fields is not None or f.ret == "vfile":
        fail("%s: configuration error: return type" % where)
    f.vf_texts = set([vf_text] if vf_text else [])
    f.struct_params = {}
    f.params = []
    f.handles = {}
    f.wrappers = {}
    f.field_params = {}
    f.consts = dict(IO_CONSTS.get(rel, {}))
    f.pre_notes = []
    f.remarks = []
    f.unwrap_fails = f.plain
    f.recv_struct = owner in IO_STRUCTS and not state
    pn = list(pnames)
    if f.recv_struct:
        if recv != "&self" or not pn:
            fail("%s: the receiver is `%s` (`&self` expected for a method of a piece struct)" % (where, recv))
        f.params.append(IoParam("self", ("struct", owner), fields=io_struct_fields(where, owner, pn.pop(0))))
        f.struct_params["self"] = owner
    elif f.state:
        if recv != "&mut self":
            fail("%s: the receiver is `%s` (`&mut self` expected for a method of an iterator struct)" % (where, recv))
        st_ = IO_STRUCTS[state]
        sp = IoParam("self", ("struct", state), fields=[(fld, fc, st_["lean"][fld], True) for fld, fc in st_["fields"]])
        sp.state = True
        sp.handles = [IO_HANDLE_LEAN[k_] for k_ in st_["handles"].values() if k_ in IO_HANDLE_LEAN]
        f.params.append(sp)
        f.struct_params["self"] = state
    elif recv is None:
        pass
    elif recv != "&mut self" and not (engine or owner == "HtxFile" or f.lock):
        fail("%s: the receiver is not `&mut self`" % where)
    if engine and opts.get("hash"):
        # the hash of the key is computed by the caller
        f.params.append(IoParam("hash", "int", lean="hash", width="u64"))
    if len(pn) != len(params):
        fail("%s: %d parameters, %d configured" % (where, len(params), len(pn)))
    for (prust, pt), ln in zip(params, pn):
        cls = io_sig_type(pt, where)
        if cls == "vfile":
            if ln is not None or vf_text is not None:
                fail("%s: configuration error: `&mut VarFile` parameter `%s`" % (where, prust))
            f.vf_texts.add(prust)
            f.params.append(IoParam(prust, "vfile"))
        elif isinstance(cls, tuple) and cls[0] == "struct":
            f.params.append(IoParam(prust, cls, fields=io_struct_fields(where, cls[1], ln)))
            f.struct_params[prust] = cls[1]
        elif cls in NUMERIC or cls in ("bool", "bytes"):
            if not isinstance(ln, str):
                fail("%s: configuration error: Lean name of `%s`" % (where, prust))
            f.params.append(IoParam(prust, cls, lean=ln, width=pt if pt in WIDTH else None))
        elif cls == "unused":
            # a parameter that only the pinned and dropped part of `open_with_params` reads: no Lean parameter, not a variable
            if ln is not None or not f.open_kind:
                fail("%s: configuration error: parameter `%s`" % (where, prust))
            f.params.append(IoParam(prust, cls))
        elif cls == "dbparams":
            # `params: &FileDbParams`: its field `buckets_size` is the Lean parameter (none where the translated part does
            # not read it)
            if not f.open_kind or not (ln is None or isinstance(ln, str)):
                fail("%s: configuration error: parameter `%s`" % (where, prust))
            f.params.append(IoParam(prust, cls, lean=ln))
        elif cls in ("dbmap", "piecea"):
            # a handle: the map behind the iterator (the state of `DbM`, no Lean parameter), the trait object of a file
            if ln is not None or not state or IO_STRUCTS[state]["handles"].get(prust) != cls:
                fail("%s: configuration error: handle parameter `%s`" % (where, prust))
            f.handle_params[prust] = cls
            f.params.append(IoParam(prust, cls, lean=IO_HANDLE_LEAN[cls][0] if cls in IO_HANDLE_LEAN else None))
        else:
            fail("%s: parameter `%s` of class %r" % (where, prust, cls))
    no_vf = engine or (state is not None)
    if len(f.vf_texts) != (0 if no_vf else 1):
        fail("%s: %d expressions denote the VarFile (exactly one expected)" % (where, len(f.vf_texts)))
    btoks = toks[ib:]
    if f.open_kind:
        # the statements in front of `let file_length …`: compared with the configured text, dropped.  The prefix ends with the
        # statement that builds the buffer, `let mut <file> = match <params>.<ext>_buf_size { … };` (found by its shape, whatever
        # the locals are called); the statement after it is the first one that is translated.
        subst, cache, _cls = IO_OPEN[f.open_kind]
        pname = dict((w, g) for w, g in pairs).get("params", "params")      # the name the source gives `params: &FileDbParams`
        tops, depth, s0 = [], 0, 1                                          # the top-level statements of the body (token ranges)
        for j in range(1, len(btoks) - 1):
            v = btoks[j][1]
            depth += (v in ("{", "(", "[")) - (v in ("}", ")", "]"))
            if depth == 0 and (v == ";" or (v == "}" and btoks[j + 1][1] not in (";", ".", "?", "else", ")", ","))):
                tops.append((s0, j + 1))
                s0 = j + 1
        bufs = [n for n, (a_, b_) in enumerate(tops)
                if [t_[1] for t_ in btoks[a_:a_ + 2]] == ["let", "mut"] and btoks[a_ + 2][0] == "id"
                and [t_[1] for t_ in btoks[a_ + 3:a_ + 8]] == ["=", "match", pname, ".", subst["ext"] + "_buf_size"]]
        if len(bufs) != 1 or bufs[0] + 1 >= len(tops):
            fail("%s: %d statements `let file_length …` at the top of the body (exactly one expected)" % (where, len(bufs)))
        cut = tops[bufs[0] + 1][0]
        # the statements of the prefix; those between `let piece_mgr …;` and `let std_file …;` name the file
        pre = [btoks[a_:b_] for a_, b_ in tops[:bufs[0] + 1]]
        if any(st[-1][1] != ";" for st in pre):
            fail("%s: the statements in front of `let file_length …` do not end with a `;`" % where)

        def opens_with(st, *ts):
            return [v for _k, v in st[:1]] == ["let"] and st[1][0] == "id" and [v for _k, v in st[2:2 + len(ts)]] == list(ts)
        is_pm = [opens_with(st, "=", "PieceMgr", "::", "new", "(") for st in pre]
        is_sf = [opens_with(st, "=", "OpenOptions", "::", "new", "(") for st in pre]
        if is_pm.count(True) != 1 or not is_pm[0] or is_sf.count(True) != 1:
            fail("%s: the statements in front of `let file_length …` do not start with `let piece_mgr …;` / have not exactly one "
                 "`let std_file …;`" % where)
        k_sf = is_sf.index(True)
        got = io_strip_tc([v for st in pre[:1] + pre[k_sf:] for _k, v in st])
        want = io_strip_tc([v for _k, v in tokenize(IO_OPEN_PREFIX % subst)])
        # compared up to the names of the locals (`piece_mgr`, `std_file`, `file`, `val`, …) and of the parameters; `pb` is bound
        # by the path statements, which are not part of the configured text
        pbs = [got[j + 1] for j in range(1, len(got) - 2) if got[j - 1:j + 1] == ["open", "("] and got[j + 2] == ")"]
        pbn = pbs[0] if (len(pbs) == 1 and is_ident(pbs[0])) else "pb"
        hd_g = ["fn", "f", "("] + [x for _w, g in pairs for x in (g, ":", "T", ",")] + [")", "{", "let", pbn, ";"]
        hd_w = ["fn", "f", "("] + [x for w, _g in pairs for x in (w, ":", "T", ",")] + [")", "{", "let", "pb", ";"]
        loc = toks_eq_renamed(hd_g + got, hd_w + want)
        if loc is None:
            k_ = next((i for i, (a_, b_) in enumerate(zip(got, want)) if a_ != b_), min(len(got), len(want)))
            fail("%s: the statements in front of `let file_length …` (piece manager, `OpenOptions`, the `match params.%s_buf_size` "
                 "that builds the buffer; without the path statements) are not the ones the translation is configured for; first "
                 "difference at token %d: "
                 "`… %s` (source) / `… %s` (configured)" % (where, subst["ext"], k_, " ".join(got[max(0, k_ - 3):k_ + 4]),
                                                           " ".join(want[max(0, k_ - 3):k_ + 4])))
        f.file_name = io_file_name(where, feats, src_params, pre[1:k_sf], subst["ext"], loc.get("pb", "pb"))
        # the VarFile is the local that the buffer statement binds
        f.vf_texts = set([loc.get("file", "file")])
        btoks = [btoks[0]] + btoks[cut:]
        f.pre_notes.append("the statements in front of `let file_length …`, compared token-wise with the configured text on every run: "
                           "`let piece_mgr = PieceMgr::new(&%s, &%s);` (the `FileCfg` of the file), "
                           "`OpenOptions::new().read(true).write(true).create(true).truncate(false).open(pb)?`, `let mut file = match "
                           "params.%s_buf_size { … };` (the buffer around the file: `VarFile::with_capacity` / `with_per_mille` / `new`); "
                           "the path statements between the first two (`let mut pb = path.as_ref().to_path_buf(); "
                           "pb.push(format!(…));`) are translated: `%s` of Registry.lean is the name of the file in the directory `path`"
                           % (subst["fo"], subst["sa"], subst["ext"], f.file_name[0]))
    p = P(btoks, feats, where)
    p.keep_try = True
    f.body = p.block()
    if p.i != len(btoks):
        fail("%s: tokens after the body" % where)
    f.dropped = p.dropped
    f.kept = p.kept
    # the parameters under their configured names (a consistent renaming of bound names)
    f.body = rename_params(f.body, [g for _w, g in pairs], [w for w, _g in pairs], where)
    if f.open_kind:
        # the local cache struct around the file: `<c>.file` denotes the VarFile from its declaration on
        for n in io_walk(f.body):
            if n[0] == "let" and n[3][0] == "call" and tuple(n[3][1]) in IO_CACHE_CTORS and n[1][0] == "pvar":
                sname, fld = IO_CACHE_CTORS[tuple(n[3][1])]
                if sname in f.caches or sname != IO_OPEN[f.open_kind][1]:
                    fail("%s: `%s` is built more than once / is not the cache struct of this handle" % (where, sname))
                f.caches[sname] = n[1][1]
                if fld is not None:
                    f.vf_texts.add(n[1][1] + ".file")
        # `bucketsOf` (Funcs.lean) is the translation of the first `let <v> = match params.buckets_size { … }` of this function:
        # there is one only
        nlet = sum(1 for j in range(len(toks) - 6) if toks[j][1] == "let" and toks[j + 1][0] == "id"
                   and [t_[1] for t_ in toks[j + 2:j + 7]] == ["=", "match", pname, ".", "buckets_size"])
        f.buckets_of = f.open_kind == "htx" and nlet == 1
    if owner == "HtxFile":
        # `let mut locked = RefCell::borrow_mut(&self.0);` opens every method (whatever the local is called): the VarFile is
        # `locked.file`, the field `locked.buckets_size` is the context parameter `bucketsSize`
        st = f.body[1][0] if f.body[1] else None
        if not (st is not None and st[0] == "let" and st[1][0] == "pvar" and st[1][1] != "_" and
                st[2:] == (None, ("call", ["RefCell", "borrow_mut"], [("field", ("path", ["self"]), "0")]), True)):
            fail("%s: the body does not start with `let mut locked = RefCell::borrow_mut(&self.0);`" % where)
        h = st[1][1]
        f.body = ("block", f.body[1][1:], f.body[2])
        lk = ("path", [h])
        if sum(1 for n in io_walk(f.body) if n == lk) != \
                sum(1 for n in io_walk(f.body) if n[0] == "field" and n[1] == lk and n[2] in ("file", "buckets_size")):
            fail("%s: `%s` is used other than as `%s.file` / `%s.buckets_size`" % (where, h, h, h))
        if any(n[0] == "assign" and (io_text(n[2]) == h or io_text(n[2]).startswith(h + ".")) for n in io_walk(f.body)):
            fail("%s: a field of `%s` is assigned" % (where, h))
        if h in io_declared(f.body) or any(p_.rust == h for p_ in f.params):
            fail("%s: `%s` is declared more than once" % (where, h))
        f.vf_texts = set([h + ".file"])
        f.field_params = {h + ".buckets_size": ("bucketsSize", "int", "u64")}
        f.pre_notes.append("`let mut %s = RefCell::borrow_mut(&self.0);` (`%s.file` is the file, `%s.buckets_size` "
                           "the parameter `bucketsSize`)" % (h, h, h))
    if f.lock:
        # the handle held open: `let mut <h> = self.0.borrow_mut();` (IO_LOCKS names the usual local; any name will do)
        hs = [n[1][1] for n in io_walk(f.body) if n[0] == "let" and n[1][0] == "pvar" and n[2] is None and n[4]
              and n[3] in (("mcall", ("field", ("path", ["self"]), "0"), "borrow_mut", []),
                           ("call", ["RefCell", "borrow_mut"], [("field", ("path", ["self"]), "0")]))]
        if len(hs) == 1 and hs[0] != f.lock and vf_text == f.lock + ".0":
            f.lock = hs[0]
            f.vf_texts = set([hs[0] + ".0"])
    if engine and opts.get("hash"):
        # the hash of the key is the parameter `hash`: the body opens with `let hash = HashValue::new(key_kt.hash_value());` (any
        # name), or it has this (pure) expression inline wherever it uses the hash
        keyp = params[0][0]
        hexpr = ("call", ["HashValue", "new"], [("mcall", ("path", [keyp]), "hash_value", [])])
        st = f.body[1][0] if f.body[1] else None
        nohash = "%s: the body does not start with `let hash = HashValue::new(key_kt.hash_value());`" % where
        if keyp in io_declared(f.body):
            fail(nohash)
        if st is not None and st[0] == "let" and st[1][0] == "pvar" and st[1][1] != "_" and st[2:] == (None, hexpr, False):
            f.body = rename_params(("block", f.body[1][1:], f.body[2]), [st[1][1]], ["hash"], where,
                                   [p_.rust for p_ in f.params if p_.rust != "hash"])
            f.pre_notes.append("`let hash = HashValue::new(key_kt.hash_value());` (the parameter `hash`: the caller computes it, "
                               "`Abyss.hashValue key`)")
        else:
            if not any(n == hexpr for n in io_walk(f.body)) or "hash" in (ast_names(f.body) | set(n_ for n_, _t in params)):
                fail(nohash)
            f.body = ast_subst(f.body, hexpr, ("path", ["hash"]))
            f.pre_notes.append("`HashValue::new(key_kt.hash_value())`, written inline where the hash is used (the parameter `hash`: "
                               "the caller computes it, `Abyss.hashValue key`)")
    if engine:
        # names that stand for the key file held open
        for n in io_walk(f.body):
            if n[0] == "let" and n[3] == ("mcall", ("field", ("field", ("path", ["self"]), "key_file"), "0"), "borrow_mut", []) \
                    and n[1][0] == "pvar":
                f.handles[n[1][1]] = "key"
    # the other `RefCell` plumbing (io_plumbing): names that stand for the map, its key file, its hash-table file
    for n in io_walk(f.body):
        if n[0] == "let":
            pl = io_plumbing(f, n, f.handles)
            if pl is not None:
                if pl[0] in f.handles:
                    fail("%s: `%s` is declared more than once" % (where, pl[0]))
                if pl[1] != "lock":
                    f.handles[pl[0]] = pl[1]
    for h in list(f.handles) + ([f.lock] if f.lock else []):
        if sum(1 for n in io_walk(f.body) if n[0] in ("let", "iflet") and h in pat_vars(n[1])) > 1 or \
                any(p_.rust == h for p_ in f.params):
            fail("%s: `%s` is declared more than once" % (where, h))
    return f


def io_configured_names(rel, header, engine):
    """the names of the functions of the block `header` of the file `rel` that are configured (translated or pinned): a
    function that was renamed is looked for among the others"""
    out = set(IO_PINNED_NAMES.get((rel, header), ()))
    for spec in IO_FUNCS:
        opts = spec[7] if len(spec) > 7 and isinstance(spec[7], dict) else {}
        if spec[2] == rel and opts.get("impl", IO_OWNERS[spec[0]][0]) == header:
            out.add(spec[1])
    for spec in ENG_FUNCS:
        if spec[2] == rel and spec[7]["impl"] == header:
            out.add(spec[1])
    return out


def io_translate(fns, specs, done, order):
    """translate the functions `fns` (key -> IoFn), callees first; `done` holds the functions translated before"""
    for f in fns.values():
        f.calls = []
        for n in io_walk(f.body):
            if n[0] == "mcall":
                k = io_callee_key(f, n)
                if k in fns and k not in f.calls:
                    f.calls.append(k)
            if n[0] == "call" and len(n[1]) == 1 and f.rel in IO_FREE_OWNER:
                k = (IO_FREE_OWNER[f.rel], ALIASES.src_to_cfg(IO_FREE_OWNER[f.rel], n[1][0]))    # a free function of the same file
                if k in fns and k not in f.calls:
                    f.calls.append(k)

    def visit(key, stack):
        if key in done:
            return
        if key in stack:
            fail("%s: recursion (%s)" % (fns[key].where, " -> ".join("%s::%s" % k for k in stack + [key])))
        for g in fns[key].calls:
            visit(g, stack + [key])
        f = fns[key]
        f.needs = io_needs(f.body, f, done)
        em = EmitIO(f, done)
        body = em.seq(f.body[1], f.body[2], CtxFn(em))
        if f.state:
            # the `&mut self`: the tuple `st` of the data fields, taken apart here, part of every value
            sd = IO_STRUCTS[f.state]
            body = ["let (%s) := st" % ", ".join(sd["lean"][fld] for fld, _fc in sd["fields"])] + body
            f.remarks.append("`&mut self` is the tuple `st` = (%s); the value is (the value of the Rust function, the new `st`)"
                             % ", ".join("`%s`" % fld for fld, _fc in sd["fields"]))
        if getattr(em, "notes_unwrap", False):
            f.remarks.append("`.unwrap()` of a `Result`: the panic on `Err` is the failure of the monad")
        f.aux = em.aux
        f.notes = sorted(set(em.notes)) + f.pre_notes + f.dropped
        if f.ret_fields is not None:
            if f.ret_omitted is None:
                fail("%s: no `Ok(<piece struct>)` was translated" % f.where)
            sf = dict(IO_STRUCTS[f.ret[1]]["fields"])
            rty = ("tuple", [sf[x] for x in f.ret_fields]) if len(f.ret_fields) > 1 else sf[f.ret_fields[0]]
            f.value_note = " Value: the fields (%s) of the returned `%s`; %s." % (
                ", ".join("`%s`" % x for x in f.ret_fields), f.ret[1],
                ", ".join("its `%s` is the unchanged parameter `%s`" % (k, v) for k, v in sorted(f.ret_omitted.items())))
            if IO_STRUCTS[f.ret[1]].get("state"):
                f.value_note = " Value: the tuple of the data fields (%s) of the new `%s`%s." % (
                    ", ".join("`%s`" % x for x in f.ret_fields), f.ret[1],
                    "".join("; its `%s` is the parameter" % h for h in IO_STRUCTS[f.ret[1]]["handles"]))
        else:
            rty = f.ret
            f.value_note = ""
        rtxt = io_lean_ty(rty)
        if f.state:
            rtxt = "%s × (%s)" % ("(%s)" % rtxt if (isinstance(rty, tuple) and rty[0] == "tuple") else rtxt,
                                  io_lean_ty(("tuple", [fc for _f, fc in IO_STRUCTS[f.state]["fields"]])))
        # the derived Lean signature must be the configured one
        lps = [(x, CTX_TYPES[x]) for x in f.needs] + [lp for p_ in f.params for lp in p_.lean_params()]
        derived = " ".join(([io_group_params(lps)] if lps else []) + [": %s %s" % (f.monad, io_atom(rtxt))])
        if derived != f.lsig:
            fail("%s: the Lean signature is `%s`, expected `%s`" % (f.where, derived, f.lsig))
        f.text = "def %s %s := do\n%s" % (f.lean, derived, "\n".join(ind(body)))
        done[key] = f
        order.append(f)

    for spec in specs:
        visit((spec[0], spec[1]), [])


def io_write_fns(fh, order):
    for f in order:
        for doc, text in f.aux:
            fh.write("/-- %s -/\n%s\n\n" % (doc, text))
        fh.write("/-- %s.%s%s%s%s -/\n%s\n\n" % (f.src, f.value_note,
                                                  (" " + "; ".join(f.remarks) + ".") if f.remarks else "",
                                                  (" Included: " + "; ".join(f.kept) + ".") if f.kept else "",
                                                  (" Dropped: " + "; ".join(f.notes) + ".") if f.notes else "", f.text))


def emit_fileops(repo, feats, out, pure_names, const_srcs):
    io_pin_semtype(repo, feats)
    io_pin_structs(repo, feats, pure_names)
    io_pin_htx(repo, feats, const_srcs)
    io_pin_stats(repo, feats, pure_names)
    io_pin_open(repo, feats, pure_names)
    methods = {}
    fns = {}
    for spec in IO_FUNCS:
        fns[(spec[0], spec[1])] = io_build_fn(repo, feats, methods, spec, False)
    done, order = {}, []
    io_translate(fns, IO_FUNCS, done, order)
    if sorted((f.owner, f.rust) for f in order) != sorted((x[0], x[1]) for x in IO_FUNCS):
        fail("FileOps: the set of emitted functions is not the configured one")
    if len(set(f.lean for f in order)) != len(order):
        fail("FileOps: two functions with the same Lean name")
    with open(os.path.join(out, "FileOps.lean"), "w") as fh:
        fh.write("import Abyss.FileM\nimport Abyss.Gen.Funcs\nimport Abyss.RecFile\n")
        fh.write(IO_HEADER)
        fh.write("set_option linter.unusedVariables false\n\nnamespace Abyss.Gen\nopen Abyss.FileM (M)\n\n")
        fh.write(IO_PRELUDE)
        io_write_fns(fh, order)
        # the trait objects: `impl PieceA<Key> for KeyFile<KT>` / `impl PieceA<Value> for ValueFile`
        for owner, inst in (("KeyFilePieceA", IO_PIECEA_INST["key"][0]), ("ValueFilePieceA", IO_PIECEA_INST["val"][0])):
            flds = []
            for m, (classes, rcls, lfield) in IO_PIECEA.items():
                g = done[(owner, m)]
                if g.needs or [p_.cls for p_ in g.params] != classes or g.ret != rcls:
                    fail("%s: its signature is not that of the trait `PieceA`" % g.where)
                flds.append("%s := %s" % (lfield, g.lean))
            fh.write("/-- %s `%s`: the record file as the trait object `dyn PieceA<T>` -/\ndef %s : PieceA := { %s }\n\n"
                     % (done[(owner, "piece_size")].rel, IO_OWNERS[owner][0], inst, ", ".join(flds)))
        fh.write("end Abyss.Gen\n")
    return len(order), done, methods


# `FileDbXxxInner::open_with_params`: the three files are opened in this order; (field, module, handle type, owner of the
# translated `open_with_params`, lift into `DbM`)
ENG_OPEN_ORDER = [("key_file", "key", "KeyFile", "KeyFileOpen", "liftKey"), ("val_file", "val", "ValueFile", "ValueFileOpen", "liftVal"),
                  ("htx_file", "htx", "HtxFile", "HtxFileOpen", "liftHtx")]


def emit_open_map(repo, feats, done, methods):
    """dbxxx.rs `FileDbXxxInner::open_with_params` -> `openMap`: the body is required to be exactly the three
    `let <f>_file = <mod>::<Handle>::open_with_params(&path, ks_name, KT::signature(), &params)?;` in the order key, value,
    table file and `Ok(Self { key_file, val_file, htx_file, dirty: true, _phantom: std::marker::PhantomData })`; each
    statement becomes the lifted call of the translated `open_with_params` of that handle (FileOps.lean); the map is
    represented by the data of its handles: the `buckets_size` of the table file"""
    where = "%s::<%s>::open_with_params" % (IO_DBX, _ENG_I)
    if (IO_DBX, _ENG_I) not in methods:
        methods[(IO_DBX, _ENG_I)] = io_find_methods(repo, feats, IO_DBX, _ENG_I)
    cands = methods[(IO_DBX, _ENG_I)].get("open_with_params", [])
    if len(cands) != 1:
        fail("%s: %d definitions with a true `#[cfg]` (exactly one expected)" % (where, len(cands)))
    toks, blockdesc = cands[0]
    recv, params, ret, ib = io_parse_sig(toks, where, assoc=True)
    if recv is not None or [t for _n, t in params] != ["P", "&str", "FileDbParams"] or ret != "Result<FileDbXxxInner<KT>>" \
            or len(set(n for n, _t in params)) != 3:
        fail("%s: signature is not `(path: P, ks_name: &str, params: FileDbParams) -> Result<FileDbXxxInner<KT>>`" % where)
    src = strip_comments(open(os.path.join(repo, "src/lib.rs")).read())
    if len(re.findall(r"fn\s+signature\(\)\s*->\s*\[u8;\s*8\];", src)) != 1:
        fail("src/lib.rs: `DbMapKeyType::signature() -> [u8; 8]` not found")
    pp = P(toks[ib:], feats, where)
    pp.keep_try = True
    body = pp.block()
    if pp.i != len(toks) - ib or pp.dropped or pp.kept:
        fail("%s: tokens after the body / `#[cfg]` statements" % where)
    body = rename_params(body, [n for n, _t in params], ["path", "ks_name", "params"], where)     # the parameters under their configured names
    lets = [st for st in body[1] if st[0] == "let"]
    if len(lets) != len(body[1]) or len(lets) != len(ENG_OPEN_ORDER):
        fail("%s: the body is not %d `let` statements and a value" % (where, len(ENG_OPEN_ORDER)))
    # which file a statement opens is what it calls (`key::KeyFile::open_with_params`), whatever the local is called
    opened = dict(((x[1], x[2]), x[0]) for x in ENG_OPEN_ORDER)
    order = [opened.get(tuple(st[3][1][1][:2]), st[1][1]) if (st[1][0] == "pvar" and st[3][0] == "try" and st[3][1][0] == "call"
                                                             and len(st[3][1][1]) == 3) else "?" for st in lets]
    locs = [st[1][1] if st[1][0] == "pvar" else "?" for st in lets]
    if order != [x[0] for x in ENG_OPEN_ORDER] or len(set(locs)) != len(locs) or "_" in locs:
        fail("%s: the files are opened in the order `%s`, the translation (and the model `Abyss.openAccepts`: key file, value file, "
             "table file) is configured for `%s`" % (where, "`, `".join(order), "`, `".join(x[0] for x in ENG_OPEN_ORDER)))
    lines = []
    for st, (fld, mod, hty, owner, lift) in zip(lets, ENG_OPEN_ORDER):
        want = ("let", ("pvar", st[1][1]), None,
                ("try", ("call", [mod, hty, "open_with_params"],
                         [("path", ["path"]), ("path", ["ks_name"]), ("call", ["KT", "signature"], []), ("path", ["params"])])), False)
        if st != want:
            fail("%s: the statement that binds `%s` is not `let %s = %s::%s::open_with_params(&path, ks_name, KT::signature(), &params)?;`"
                 % (where, fld, fld, mod, hty))
        g = done.get((owner, "open_with_params"))
        if g is None or [(p_.rust, p_.cls) for p_ in g.params] != [("path", "unused"), ("ks_name", "unused"), ("sig2", "bytes"),
                                                                    ("params", "dbparams")] or g.needs:
            fail("%s: `%s::%s::open_with_params` is not translated with the parameters (path, ks_name, sig2, params)" % (where, mod, hty))
        call = "%s (%s sig2%s)" % (lift, g.lean, " p" if g.params[3].lean is not None else "")
        if g.ret == "unit":
            lines.append(call)
        elif g.ret == "int" and fld == "htx_file":
            lines.append("let htxFileBucketsSize ← " + call)
        else:
            fail("%s: the handle `%s` has data of class %r" % (where, fld, g.ret))
    want_tail = ("call", ["Ok"], [("structlit", "Self", [[x[0], ("path", [v_])] for x, v_ in zip(ENG_OPEN_ORDER, locs)] + [
        ["dirty", ("path", ["true"])], ["_phantom", ("path", ["std", "marker", "PhantomData"])]])])
    if body[2] != want_tail:
        fail("%s: the value is not `Ok(Self { key_file, val_file, htx_file, dirty: true, _phantom: std::marker::PhantomData, })`" % where)
    lines.append("pure htxFileBucketsSize")
    doc = ("%s %s, `fn open_with_params` (signature, the three statements, their order and the struct literal are compared with the "
           "configured shape on every run). `path`, `ks_name` and the buffer sizes of `params` only reach the parts of the three "
           "`open_with_params` that are pinned and dropped (FileOps.lean); `KT::signature()` is the parameter `sig2` (`KeyType.sig`: "
           "`sigString`, … of Consts.lean), `params.buckets_size` the parameter `p`. Value: the map `Self { key_file, val_file, "
           "htx_file, dirty: true, _phantom }` is the three files of `DbM` and the data of its handles: the `buckets_size` of the "
           "table file (the `bucketsSize` parameter of the other functions of this file); `dirty: true` is `dirtyAtOpen` of "
           "FlushOps.lean." % (IO_DBX, blockdesc))
    return "/-- %s -/\ndef openMap (sig2 : List Nat) (p : HashBucketsParam) : DbM Nat := do\n%s\n\n" % (doc, "\n".join(ind(lines)))


# ----------------------------------------------------------------------------- the iterator adaptors (ninth batch)
# dbxxx.rs `DbXxxIter`, `DbXxxIntoIter`, `DbXxxKeys`, `DbXxxValues` (each a struct around one `DbXxxIterMut<KT>`),
# `DbXxxIterMut::size_hint`, and the API paths of dbmap/mod.rs that build them -> Engine.lean (emit_iter_adaptors).
# (struct, infix of the Lean names, class of the items that `next` yields)
IA_ADAPTORS = [("DbXxxIter", "Iter", ("pair", "K", "B")), ("DbXxxIntoIter", "IntoIter", ("pair", "K", "B")),
               ("DbXxxKeys", "Keys", "K"), ("DbXxxValues", "Values", "B")]
IA_FIELD = "iter"                     # the one field of an adaptor struct (definition pinned)
IA_ST = "selfIter"                    # … and its Lean name: the state tuple of the `DbXxxIterMut` inside
IA_HINT = ("pair", "usize", ("opt", "usize"))
IA_ITEM_RS = {"K": "KT", "B": "Vec<u8>"}
IA_DBMAP_IMPL = "impl<KT: DbMapKeyType> DbMap<KT> for FileDbMap<KT>"
IA_DBMAP_TRAIT = "pub trait DbMap<KT: DbMapKeyType>: DbXxx<KT>"
# the API paths: (impl header, Rust name, Lean name, signature, the struct it returns)
IA_API = [
    (IA_DBMAP_IMPL, "iter", "mapIter", "(&self) -> DbXxxIter<KT>", "DbXxxIter"),
    (IA_DBMAP_IMPL, "iter_mut", "mapIterMut", "(&mut self) -> DbXxxIterMut<KT>", "DbXxxIterMut"),
    (IA_DBMAP_IMPL, "keys", "mapKeys", "(&self) -> DbXxxKeys<KT>", "DbXxxKeys"),
    (IA_DBMAP_IMPL, "values", "mapValues", "(&self) -> DbXxxValues<KT>", "DbXxxValues"),
    ("impl<KT: DbMapKeyType> IntoIterator for FileDbMap<KT>", "into_iter", "mapIntoIter", "(self) -> DbXxxIntoIter<KT>", "DbXxxIntoIter"),
    ("impl<KT: DbMapKeyType> IntoIterator for &FileDbMap<KT>", "into_iter", "mapIntoIterRef", "(self) -> DbXxxIter<KT>", "DbXxxIter"),
    ("impl<KT: DbMapKeyType> IntoIterator for &mut FileDbMap<KT>", "into_iter", "mapIntoIterMut", "(self) -> DbXxxIterMut<KT>",
     "DbXxxIterMut"),
]


def ia_rs_ty(t):
    if isinstance(t, tuple):
        if t[0] == "pair":
            return "(%s, %s)" % (ia_rs_ty(t[1]), ia_rs_ty(t[2]))
        if t[0] == "opt":
            return "Option<%s>" % ia_rs_ty(t[1])
        if t[0] == "adapt":
            return t[1] + "<KT>"
    return IA_ITEM_RS.get(t, t)


def ia_lean_ty(t):
    if isinstance(t, tuple):
        if t[0] == "pair":
            return "%s × %s" % (io_atom(ia_lean_ty(t[1])) if (isinstance(t[1], tuple) and t[1][0] == "pair") else ia_lean_ty(t[1]),
                                ia_lean_ty(t[2]))
        if t[0] == "opt":
            return "Option %s" % io_atom(ia_lean_ty(t[1]))
        if t[0] == "adapt":
            return _IT_ST
    if t in ("K", "B"):
        return "List Nat"
    if t in WIDTH:
        return "Nat"
    fail("configuration error: class %r of the iterator adaptors" % (t,))


class EmitIA:
    """the bodies of the iterator adaptors and of the API functions that build them: a tiny typed subset.
    Classes: `K` (a key), `B` (bytes), an integer type (`u64`, `usize`), ("pair", a, b), ("opt", a), ("adapt", S) (the struct
    `S<KT>` = the state tuple of its `DbXxxIterMut`), `H` (a handle of the map: the state of `DbM`, no Lean value).
    Expressions: `S::new(<handle>)?` / `.unwrap()` (`Err` / the panic = the failure of the monad), `self.iter.next()` (runs
    `iterNext` on the state tuple and re-binds it), `self.iter.size_hint()`, `o.map(|pat| e)`, tuples, `Some(e)`, a local, a data
    field of `self` (in `DbXxxIterMut::size_hint`), `e as usize`, `a + b`, literals; statements: `let pat = e;`, `e;` with a
    call of `self.iter.next()` (its value is dropped, the state moves on)."""

    def __init__(self, where, self_kind, pure, ctors):
        self.where = where
        self.self_kind = self_kind        # "adaptor" (`self.iter`), "itermut" (the data fields), "handle" (`self.0`), None
        self.pure = pure                  # a pure definition: no call of the monad
        self.ctors = ctors                # struct -> Lean name of its translated `new`
        self.env = {}                     # Rust local -> (Lean text, class)
        self.lines = []
        self.ntry = 0
        self.used = {}                    # Lean name -> Rust local

    def fresh(self):
        self.ntry += 1
        return "tryVal" if self.ntry == 1 else "tryVal%d" % self.ntry

    def declare(self, v, ty):
        ln = io_ident(v)
        if v == "_":
            return "_"
        if ln in ("st", IA_ST) or re.match(r"^tryVal\d*$", ln) or ln in IO_RESERVED or ln in self.ctors.values() \
                or ln in ("iterNext", "iterSizeHint") or ln.startswith("self") or self.used.get(ln, v) != v:
            fail("%s: the variable `%s` would get the reserved / an ambiguous Lean name `%s`" % (self.where, v, ln))
        self.used[ln] = v
        self.env[v] = (ln, ty)
        return ln

    def bind(self, pat, ty):
        """a pattern against a value of class `ty`: its Lean text"""
        if pat[0] == "pvar":
            return self.declare(pat[1], ty)
        if pat[0] == "ptuple" and len(pat[1]) == 2 and isinstance(ty, tuple) and ty[0] == "pair":
            return "(%s, %s)" % (self.bind(pat[1][0], ty[1]), self.bind(pat[1][1], ty[2]))
        fail("%s: a pattern that is not a variable / a pair against a value of class %s" % (self.where, ia_rs_ty(ty)))

    def is_handle(self, e):
        """`db_map` (the parameter), `self.0`, `.clone()` / `Rc::clone(&..)` of one: the map itself"""
        while (e[0] == "mcall" and e[2] == "clone" and not e[3]) or (e[0] == "call" and e[1] == ["Rc", "clone"] and len(e[2]) == 1):
            e = e[1] if e[0] == "mcall" else e[2][0]
        if e[0] == "path" and len(e[1]) == 1 and self.env.get(e[1][0], (None, None))[1] == "H":
            return True
        return self.self_kind == "handle" and e == ("field", ("path", ["self"]), "0")

    def result_call(self, e):
        """`S::new(<handle>)`: a `Result<S<KT>>` -> (Lean function, class) or None"""
        if e[0] == "call" and len(e[1]) == 2 and e[1][1] == "new" and e[1][0] in self.ctors:
            if len(e[2]) != 1 or not self.is_handle(e[2][0]):
                fail("%s: the argument of `%s::new(..)` is not the handle of the map (`db_map` / `self.0` / a clone of it)"
                     % (self.where, e[1][0]))
            return self.ctors[e[1][0]], ("adapt", e[1][0])
        return None

    def ex(self, e):
        w = self.where
        k = e[0]
        if k == "path" and len(e[1]) == 1 and e[1][0] in self.env and self.env[e[1][0]][1] != "H":
            return self.env[e[1][0]]
        if k == "num":
            return str(e[1]), "lit"
        if k == "try" or (k == "mcall" and e[2] == "unwrap" and not e[3]):
            rc = self.result_call(e[1])
            if rc is None:
                fail("%s: `?` / `.unwrap()` of something that is not `<iterator struct>::new(<handle>)`" % w)
            if self.pure:
                fail("%s: a call of `%s` in a function that is translated as a pure definition" % (w, rc[0]))
            v = self.fresh()
            self.lines.append("let %s ← %s" % (v, rc[0]))
            return v, rc[1]
        if self.result_call(e) is not None:
            fail("%s: the `Result` of `%s::new(..)` must be consumed at once by `?` / `.unwrap()`" % (w, e[1][0]))
        if k == "mcall" and e[1] == ("field", ("path", ["self"]), IA_FIELD) and self.self_kind == "adaptor" and not e[3]:
            if e[2] == "next":
                if self.pure:
                    fail("%s: `self.%s.next()` in a function that is translated as a pure definition" % (w, IA_FIELD))
                v = self.fresh()
                self.lines.append("let (%s, %s) ← iterNext %s" % (v, IA_ST, IA_ST))
                return v, ("opt", ("pair", "K", "B"))
            if e[2] == "size_hint":
                return "(iterSizeHint %s)" % IA_ST, IA_HINT
            fail("%s: `self.%s.%s()`: only `next()` and `size_hint()` of the `DbXxxIterMut` are translated" % (w, IA_FIELD, e[2]))
        if k == "mcall" and e[2] == "map" and len(e[3]) == 1 and e[3][0][0] == "closure":
            t, ty = self.ex(e[1])
            if not (isinstance(ty, tuple) and ty[0] == "opt"):
                fail("%s: `.map(|..| ..)` on a value of class %s (an `Option` expected)" % (w, ia_rs_ty(ty)))
            _c, ps, body = e[3][0]
            if len(ps) != 1:
                fail("%s: the closure of `.map(..)` has %d parameters" % (w, len(ps)))
            saved, n0 = (dict(self.env), dict(self.used)), len(self.lines)
            pt = self.bind(ps[0], ty[1])
            bt, bty = self.ex(body)
            if len(self.lines) != n0:
                fail("%s: the closure of `.map(..)` calls the iterator" % w)
            self.env, self.used = saved
            return "(%s.map fun %s => %s)" % (io_atom(t), pt, bt), ("opt", bty)
        if k == "tuple" and len(e[1]) == 2:
            (a, ta), (b, tb) = self.ex(e[1][0]), self.ex(e[1][1])
            return "(%s, %s)" % (a, b), ("pair", ta, tb)
        if k == "call" and e[1] == ["Some"] and len(e[2]) == 1:
            t, ty = self.ex(e[2][0])
            return "(some %s)" % io_atom(t), ("opt", ty)
        if k == "field" and e[1] == ("path", ["self"]) and self.self_kind == "itermut":
            sd = IO_STRUCTS[_IT]
            if e[2] not in sd["widths"]:
                fail("%s: `self.%s` is not an integer field of `%s`" % (w, e[2], _IT))
            return sd["lean"][e[2]], sd["widths"][e[2]]
        if k == "cast":
            t, ty = self.ex(e[1])
            if ty == "lit" and e[2] in WIDTH and int(t) < 2 ** WIDTH[e[2]]:
                return t, e[2]
            if ty not in WIDTH or e[2] not in WIDTH:
                fail("%s: unsupported cast `as %s` of a value of class %s" % (w, e[2], ia_rs_ty(ty)))
            if WIDTH[ty] <= WIDTH[e[2]]:
                return t, e[2]                                   # widening / `u64 as usize` on a 64-bit target: the identity
            return "(%s %% 2^%d)" % (t, WIDTH[e[2]]), e[2]
        if k == "bin" and e[1] == "+":
            (a, ta), (b, tb) = self.ex(e[2]), self.ex(e[3])
            ty = tb if ta == "lit" else ta
            if ty not in WIDTH or (ta, tb).count("lit") == 2 or any(x not in (ty, "lit") for x in (ta, tb)):
                fail("%s: `+` on values of classes %s and %s" % (w, ia_rs_ty(ta), ia_rs_ty(tb)))
            return "(%s + %s)" % (a, b), ty
        fail("%s: expression `%s` is outside the subset of the iterator adaptors" % (w, rs_show(e) if k in (
            "path", "mcall", "call", "field", "tuple", "num", "bin", "not", "cast") else k))

    def stmts(self, body):
        for st in body[1]:
            if st[0] == "let" and st[2] is None:
                n0 = len(self.lines)
                t, ty = self.ex(st[3])
                if st[1] == ("pvar", "_"):
                    if len(self.lines) == n0:
                        fail("%s: `let _ = e;` without a call" % self.where)
                    continue
                if st[1][0] == "pvar" and re.match(r"^[A-Za-z_][A-Za-z0-9_']*$", t):
                    # a name for a value that has one: the local stands for it
                    ln = self.declare(st[1][1], ty)
                    self.used.pop(ln, None)
                    self.env[st[1][1]] = (t, ty)
                    continue
                self.lines.append("let %s := %s" % (self.bind(st[1], ty), t))
            elif st[0] == "expr":
                n0 = len(self.lines)
                self.ex(st[1])
                if len(self.lines) == n0:
                    fail("%s: an expression statement without a call" % self.where)
            else:
                fail("%s: statement `%s …` is outside the subset of the iterator adaptors" % (self.where, st[0]))
        if body[2] is None:
            fail("%s: the body has no value" % self.where)
        return body[2]


def ia_fn(repo, feats, methods, rel, header, rust, sig, where_what):
    """the one definition of `rust` in the block `header`: (tokens, description of the block, [(configured parameter name, name
    in the source)], body AST with the parameters under their configured names)"""
    where = "%s::<%s>::%s" % (rel, header, rust)
    if (rel, header) not in methods:
        methods[(rel, header)] = io_find_methods(repo, feats, rel, header)
    cands = methods[(rel, header)].get(rust, [])
    if len(cands) != 1:
        fail("%s: %d definitions with a true `#[cfg]` (exactly one expected)" % (where, len(cands)))
    toks, blockdesc = cands[0]
    got, want = io_sig_toks(toks), io_strip_tc([v for _k, v in tokenize(sig)])
    pairs = sig_eq_renamed(got, want)
    if pairs is None:
        fail("%s: signature is `%s`, the translation (%s) is configured for `%s`" % (where, " ".join(got), where_what, " ".join(want)))
    tv = [v for _k, v in toks]
    ib = tv.index("{")
    pp = P(toks[ib:], feats, where)
    pp.keep_try = True
    body = pp.block()
    if pp.i != len(toks) - ib or pp.dropped or pp.kept:
        fail("%s: tokens after the body / `#[cfg]` statements" % where)
    body = rename_params(body, [g for _w, g in pairs], [w for w, _g in pairs], where)
    return where, blockdesc, pairs, body


def ia_only_methods(repo, feats, methods, rel, header, names, why):
    if (rel, header) not in methods:
        methods[(rel, header)] = io_find_methods(repo, feats, rel, header)
    if sorted(methods[(rel, header)]) != sorted(names):
        fail("%s::<%s>: its methods are `%s`, the translation is configured for `%s` (%s)"
             % (rel, header, "`, `".join(sorted(methods[(rel, header)])), "`, `".join(sorted(names)), why))


def emit_iter_adaptors(repo, feats, done, methods):
    """texts of the definitions (Engine.lean, after `openMap`)"""
    texts = []
    it_new, it_next = done[(_IT, "new")], done[(_IT, "next")]
    if (it_new.lean, it_next.lean) != ("iterNew", "iterNext") or it_new.params[0].cls != "dbmap" or it_next.needs or it_new.needs:
        fail("Engine: configuration error: `DbXxxIterMut::new` / `Iterator::next` are not `iterNew` / `iterNext`")
    dbmap_ty = "Rc<RefCell<FileDbXxxInner<KT>>>"
    # ---- `DbXxxIterMut::size_hint` (a pure function of the state tuple)
    hdr = "impl<KT: DbMapKeyType> Iterator for %s<KT>" % _IT
    ia_only_methods(repo, feats, methods, IO_DBX, hdr, ["next", "size_hint"],
                    "another overridden method of `Iterator` would not be what the default method does with `next`")
    where, blockdesc, _pairs, body = ia_fn(repo, feats, methods, IO_DBX, hdr, "size_hint", "(&self) -> (usize, Option<usize>)",
                                           "`iterSizeHint`")
    em = EmitIA(where, "itermut", True, {})
    t, ty = em.ex(em.stmts(body))
    if ty != IA_HINT:
        fail("%s: the value has the class %s, the signature says `(usize, Option<usize>)`" % (where, ia_rs_ty(ty)))
    sd = IO_STRUCTS[_IT]
    lines = ["let (%s) := st" % ", ".join(sd["lean"][fld] for fld, _fc in sd["fields"])] + em.lines + [t]
    texts.append("/-- %s %s, `fn size_hint`: a pure function of the state tuple `st` = (%s) (`&self`; `u64 as usize` is the identity on a "
                 "64-bit target) -/\ndef iterSizeHint (st : %s) : %s :=\n%s\n"
                 % (IO_DBX, blockdesc, ", ".join("`%s`" % fld for fld, _fc in sd["fields"]), _IT_ST, ia_lean_ty(IA_HINT),
                    "\n".join(ind(lines))))
    # ---- the four adaptor structs
    ctors = {_IT: it_new.lean}
    for sname, infix, item in IA_ADAPTORS:
        io_pin_tokens(repo, IO_DBX, "pub struct " + sname,
                      "#[derive(Debug)] pub struct %s<KT: DbMapKeyType> { %s: %s<KT>, }" % (sname, IA_FIELD, _IT),
                      "the definition of `%s`" % sname)
        hdr_i, hdr_it = "impl<KT: DbMapKeyType> %s<KT>" % sname, "impl<KT: DbMapKeyType> Iterator for %s<KT>" % sname
        ia_only_methods(repo, feats, methods, IO_DBX, hdr_i, ["new"], "the one constructor")
        ia_only_methods(repo, feats, methods, IO_DBX, hdr_it, ["next", "size_hint"],
                        "another overridden method of `Iterator` would not be what the default method does with `next`")
        state_note = ("the struct `%s<KT>` (definition pinned: the one field `%s: %s<KT>`) is the state tuple of the `%s` inside"
                      % (sname, IA_FIELD, _IT, _IT))
        # `new`
        where, blockdesc, _pairs, body = ia_fn(repo, feats, methods, IO_DBX, hdr_i, "new", "(db_map: %s) -> Result<Self>" % dbmap_ty,
                                               "`iter%sNew`" % infix)
        em = EmitIA(where, None, False, {_IT: it_new.lean})
        em.env["db_map"] = (None, "H")
        tail = em.stmts(body)
        if not (tail[0] == "call" and tail[1] == ["Ok"] and len(tail[2]) == 1 and tail[2][0][0] == "structlit"
                and [f for f, _e in tail[2][0][2]] == [IA_FIELD]):
            fail("%s: the value is not `Ok(Self { %s: … })`" % (where, IA_FIELD))
        t, ty = em.ex(tail[2][0][2][0][1])
        if ty != ("adapt", _IT):
            fail("%s: the field `%s` gets a value of class %s (a `%s<KT>` expected)" % (where, IA_FIELD, ia_rs_ty(ty), _IT))
        texts.append("/-- %s %s, `fn new`: %s; `db_map` is the map (the state of `DbM`); `?`: `Err` is the failure of the monad -/\n"
                     "def iter%sNew : DbM (%s) := do\n%s\n"
                     % (IO_DBX, blockdesc, state_note, infix, _IT_ST, "\n".join(ind(em.lines + ["pure " + io_atom(t)]))))
        ctors[sname] = "iter%sNew" % infix
        # `next`
        ity = ("opt", item)
        where, blockdesc, _pairs, body = ia_fn(repo, feats, methods, IO_DBX, hdr_it, "next", "(&mut self) -> %s" % ia_rs_ty(ity),
                                               "`iter%sNext`" % infix)
        em = EmitIA(where, "adaptor", False, {})
        t, ty = em.ex(em.stmts(body))
        if ty != ity:
            fail("%s: the value has the class `%s`, the signature says `%s`" % (where, ia_rs_ty(ty), ia_rs_ty(ity)))
        lines = ["let %s := st" % IA_ST] + em.lines + ["pure (%s, %s)" % (t, IA_ST)]
        texts.append("/-- %s %s, `fn next`: %s, the parameter `st`; the value is (the value of the Rust function, the new state); "
                     "`self.%s.next()` is `iterNext` -/\ndef iter%sNext (st : %s) : DbM (%s × (%s)) := do\n%s\n"
                     % (IO_DBX, blockdesc, state_note, IA_FIELD, infix, _IT_ST, ia_lean_ty(ity), _IT_ST, "\n".join(ind(lines))))
        # `size_hint`
        where, blockdesc, _pairs, body = ia_fn(repo, feats, methods, IO_DBX, hdr_it, "size_hint", "(&self) -> (usize, Option<usize>)",
                                               "`iter%sSizeHint`" % infix)
        em = EmitIA(where, "adaptor", True, {})
        t, ty = em.ex(em.stmts(body))
        if ty != IA_HINT:
            fail("%s: the value has the class %s, the signature says `(usize, Option<usize>)`" % (where, ia_rs_ty(ty)))
        lines = ["let %s := st" % IA_ST] + em.lines + [t]
        texts.append("/-- %s %s, `fn size_hint`: a pure function of the state tuple (`&self`); `self.%s.size_hint()` is `iterSizeHint` -/\n"
                     "def iter%sSizeHint (st : %s) : %s :=\n%s\n"
                     % (IO_DBX, blockdesc, IA_FIELD, infix, _IT_ST, ia_lean_ty(IA_HINT), "\n".join(ind(lines))))
    # ---- the API paths that build them (dbmap/mod.rs; the declarations of the trait `DbMap<KT>` in lib.rs)
    decl = io_find_methods(repo, feats, API_LIB, IA_DBMAP_TRAIT)
    want_decl = dict((r, "fn %s%s;" % (r, sg)) for h, r, _l, sg, _s in IA_API if h == IA_DBMAP_IMPL)
    if sorted(decl) != sorted(want_decl):
        fail("%s::<%s>: the methods are %s, the translation is configured for %s" % (API_LIB, IA_DBMAP_TRAIT, sorted(decl), sorted(want_decl)))
    for r, want in sorted(want_decl.items()):
        got = [v for _k, v in decl[r][0][0]] if len(decl[r]) == 1 else None
        if got != [v for _k, v in tokenize(want)]:
            fail("%s::<%s>::%s is `%s`, the translation is configured for `%s`" % (API_LIB, IA_DBMAP_TRAIT, r, " ".join(got or ["?"]), want))
    for hdr in sorted(set(h for h, _r, _l, _sg, _s in IA_API)):
        ia_only_methods(repo, feats, methods, API_DBMAP, hdr, [r for h, r, _l, _sg, _s in IA_API if h == hdr], "the API paths to the iterators")
    impls = [v for tv in [SRC_TOKENS.get(API_DBMAP, [])] for i, v in enumerate(tv) if v == "IntoIterator" and tv[i + 1] == "for"]
    if len(impls) != 3:
        fail("%s: %d implementations of `IntoIterator` (for `FileDbMap<KT>`, `&FileDbMap<KT>`, `&mut FileDbMap<KT>`: 3 expected)"
             % (API_DBMAP, len(impls)))
    for hdr, rust, lean, sig, sname in IA_API:
        where, blockdesc, _pairs, body = ia_fn(repo, feats, methods, API_DBMAP, hdr, rust, sig, "`%s`" % lean)
        em = EmitIA(where, "handle", False, ctors)
        t, ty = em.ex(em.stmts(body))
        if ty != ("adapt", sname):
            fail("%s: the value is a `%s`, the signature says `%s<KT>`" % (where, ia_rs_ty(ty), sname))
        nxt = "iterNext" if sname == _IT else "iter%sNext" % dict((s_, i_) for s_, i_, _t in IA_ADAPTORS)[sname]
        texts.append("/-- %s %s, `fn %s`: the value is the `%s<KT>` (its state tuple; its `next` is `%s`); `self.0` (a clone of the "
                     "`Rc`) is the map: the state of `DbM`; `.unwrap()` of the `Result`: the panic on `Err` is the failure of the monad -/\n"
                     "def %s : DbM (%s) := do\n%s\n"
                     % (API_DBMAP, blockdesc, rust, sname, nxt, lean, _IT_ST, "\n".join(ind(em.lines + ["pure " + io_atom(t)]))))
    return texts


def emit_engine(repo, feats, out, done, methods):
    io_pin_engine(repo, feats)
    io_pin_piece_iters(repo, feats, methods)
    wrappers = {
        "key_file": ("VarFileKeyCache", "key", io_wrappers(repo, feats, IO_KEY, "impl<KT: DbMapKeyType> KeyFile<KT>",
                                                            "VarFileKeyCache", done)),
        "val_file": ("VarFileValueCache", "val", io_wrappers(repo, feats, IO_VAL, "impl ValueFile", "VarFileValueCache", done)),
    }
    fns = {}
    for spec in ENG_FUNCS:
        f = io_build_fn(repo, feats, methods, spec, True)
        f.wrappers = wrappers
        fns[(spec[0], spec[1])] = f
    nfile = len(done)
    order = []
    io_translate(fns, ENG_FUNCS, done, order)
    if sorted(f.rust for f in order) != sorted(x[1] for x in ENG_FUNCS) or len(done) != nfile + len(ENG_FUNCS):
        fail("Engine: the set of emitted functions is not the configured one")
    if len(set(f.lean for f in done.values())) != len(done) or "openMap" in set(f.lean for f in done.values()):
        fail("Engine: two functions with the same Lean name")
    open_map = emit_open_map(repo, feats, done, methods)
    # the API path of `read_fill_buffer`: the declaration in the trait, the wrapper of the map handle
    decl = io_find_methods(repo, feats, API_LIB, "pub trait DbXxxBase").get("read_fill_buffer", [])
    if len(decl) != 1 or [v for _k, v in decl[0][0]] != [v for _k, v in tokenize("fn read_fill_buffer(&mut self) -> Result<()>;")]:
        fail("%s::<pub trait DbXxxBase>::read_fill_buffer is not the declaration `fn read_fill_buffer(&mut self) -> Result<()>;`" % API_LIB)
    fl_pin_method(repo, feats, methods, API_DBMAP, "impl<KT: DbMapKeyType> DbXxxBase for FileDbMap<KT>", "read_fill_buffer",
                  "fn read_fill_buffer(&mut self) -> Result<()> { RefCell::borrow_mut(&self.0).read_fill_buffer() }")
    adaptors = emit_iter_adaptors(repo, feats, done, methods)
    with open(os.path.join(out, "Engine.lean"), "w") as fh:
        fh.write("import Abyss.DbM\nimport Abyss.Gen.FileOps\n")
        fh.write(ENG_HEADER)
        fh.write("set_option linter.unusedVariables false\n\nnamespace Abyss.Gen\nopen Abyss.FileM (M)\n"
                 "open Abyss.DbM (liftHtx liftKey liftVal)\n\n")
        io_write_fns(fh, order)
        fh.write(open_map)
        fh.write("\n".join(adaptors) + "\n")
        fh.write("end Abyss.Gen\n")
    return len(order) + 1 + len(adaptors)


# ----------------------------------------------------------------------------- flush / sync and the dirty flag
# dbxxx.rs `impl DbXxxBase for FileDbXxxInner`: `flush`, `sync_all`, `sync_data` -> Abyss/Gen/FlushOps.lean, monad
# `Abyss.FlushM β` (Abyss/FlushM.lean) over the three buffered files (any type `β`), the dirty flag and a fault counter
FL_FILES = {"val_file": "FlushM.onVal", "key_file": "FlushM.onKey", "htx_file": "FlushM.onHtx"}
FL_ACTS = {"flush": "flush", "sync_all": "syncAll", "sync_data": "syncData"}
FL_FUNCS = [("flush", "mapFlush"), ("sync_all", "mapSyncAll"), ("sync_data", "mapSyncData")]
FL_DIRTY = ("field", ("path", ["self"]), "dirty")
FL_SET_TRUE = ("assign", "=", FL_DIRTY, ("path", ["true"]))
FL_FIND = ("let", ("pvar", "opt"), None,
           ("try", ("mcall", ("path", ["self"]), "find_in_hash_buckets_kt", [("path", ["hash"]), ("path", ["key_kt"])])), False)


def fl_find_var(st):
    """`let <v> = self.find_in_hash_buckets_kt(<a>, <b>)?;` -> v (whatever the local names are), else None"""
    if (isinstance(st, tuple) and len(st) == 5 and st[0] == "let" and st[1][0] == "pvar" and st[2] is None and st[4] is False
            and st[3][0] == "try" and st[3][1][0] == "mcall" and st[3][1][1] == ("path", ["self"])
            and ALIASES.src_to_cfg(ENG, st[3][1][2]) == "find_in_hash_buckets_kt" and len(st[3][1][3]) == 2):
        return st[1][1]
    return None


def fl_pin_method(repo, feats, methods, rel, header, name, want):
    if (rel, header) not in methods:
        methods[(rel, header)] = io_find_methods(repo, feats, rel, header)
    cands = methods[(rel, header)].get(name, [])
    if len(cands) != 1:
        fail("%s::<%s>::%s: %d definitions with a true `#[cfg]` (exactly one expected)" % (rel, header, name, len(cands)))
    got = [v for _k, v in cands[0][0]]
    if toks_eq_renamed(got, [v for _k, v in tokenize(want)]) is None:       # equal up to the names of the parameters / locals
        fail("%s::<%s>::%s is `%s`, the translation is configured for `%s`" % (rel, header, name, " ".join(got), want))
    return cands[0]


def fl_block(stmts, tail, where, top):
    """the statements of `flush` / `sync_all` / `sync_data`: do-items of `FlushM`"""
    out = []
    for st in stmts:
        e = st[1] if st[0] == "expr" else None
        if (e is not None and e[0] == "try" and e[1][0] == "mcall" and not e[1][3] and e[1][2] in FL_ACTS
                and e[1][1][0] == "field" and e[1][1][1] == ("path", ["self"]) and e[1][1][2] in FL_FILES):
            out.append("%s p.%s" % (FL_FILES[e[1][1][2]], FL_ACTS[e[1][2]]))       # `self.<f>_file.<act>()?;`
        elif st[0] == "assign" and st[1] == "=" and st[2] == FL_DIRTY and st[3] in (("path", ["true"]), ("path", ["false"])):
            out.append("FlushM.setDirty %s" % st[3][1][0])                             # `self.dirty = b;`
        elif e is not None and e[0] == "if":
            c, neg = e[1], False
            if c[0] == "not":
                c, neg = c[1], True
            if c != ("mcall", ("path", ["self"]), "is_dirty", []):
                fail("%s: the condition of an `if` is not `self.is_dirty()` / `!self.is_dirty()`" % where)
            if e[2][2] is not None or (e[3] is not None and (e[3][0] != "block" or e[3][2] is not None)):
                fail("%s: an `if` whose branches have values / `else if`" % where)
            a = fl_block(e[2][1], None, where, False)
            b = fl_block(e[3][1], None, where, False) if e[3] is not None else ["pure ()"]
            out += ["let isDirty ← FlushM.isDirty", "(if %sisDirty then do" % ("!" if neg else "")] + ind(a, 4) + ["  else do"] + ind(b, 4)
            out[-1] += ")"
        else:
            fail("%s: statement outside the subset of the flush functions (`self.<val|key|htx>_file.<flush|sync_all|sync_data>()?;`, "
                 "`self.dirty = <bool>;`, `if [!]self.is_dirty() { … } [else { … }]`)" % where)
    if top:
        if tail != ("call", ["Ok"], [("tuple", [])]):
            fail("%s: the body does not end with `Ok(())`" % where)
    elif tail is not None:
        fail("%s: a block with a value" % where)
    return out + ["pure ()"]


def fl_bool(e, where, self_kind, lines, cnt):
    """a `bool` expression over the dirty flag -> Lean text (do-items that read the flag are appended to `lines`):
    `self.dirty` (the map: `FlushM.isDirty`), `self.is_dirty()` (the map) / `RefCell::borrow(&self.0).is_dirty()`,
    `self.0.borrow().is_dirty()` (the handle): `mapIsDirty`; `!e`, `true`, `false`"""
    if e == FL_DIRTY and self_kind == "map":
        cnt[0] += 1
        v = "selfDirty" if cnt[0] == 1 else "selfDirty%d" % cnt[0]
        lines.append("let %s ← FlushM.isDirty" % v)
        return v
    is_call = e[0] == "mcall" and e[2] == "is_dirty" and not e[3]
    if is_call and ((self_kind == "map" and e[1] == ("path", ["self"])) or (self_kind == "handle" and e[1] in (
            ("call", ["RefCell", "borrow"], [("field", ("path", ["self"]), "0")]),
            ("mcall", ("field", ("path", ["self"]), "0"), "borrow", [])))):
        cnt[1] += 1
        v = "tryVal" if cnt[1] == 1 else "tryVal%d" % cnt[1]
        lines.append("let %s ← mapIsDirty" % v)
        return v
    if e[0] == "not":
        return "(!%s)" % fl_bool(e[1], where, self_kind, lines, cnt)
    if e in (("path", ["true"]), ("path", ["false"])):
        return e[1][0]
    fail("%s: expression outside the subset of the `is_dirty` functions (`self.dirty`, `[RefCell::borrow(&self.0) | self]"
         ".is_dirty()`, `!e`, `true`, `false`)" % where)


def emit_is_dirty(repo, feats, methods):
    """`FileDbXxxInner::is_dirty` -> `mapIsDirty`, `FileDbMap::is_dirty` -> `apiIsDirty` (texts for FlushOps.lean)"""
    texts = []
    for rel, header, lean, kind, what in (
            (IO_DBX, _ENG_I, "mapIsDirty", "map", "`self.dirty` reads the flag (`FlushM.isDirty`)"),
            (API_DBMAP, "impl<KT: DbMapKeyType> FileDbMap<KT>", "apiIsDirty", "handle",
             "`RefCell::borrow(&self.0)` is the map behind the handle, `.is_dirty()` on it is `mapIsDirty`")):
        where = "%s::<%s>::is_dirty" % (rel, header)
        if (rel, header) not in methods:
            methods[(rel, header)] = io_find_methods(repo, feats, rel, header)
        cands = methods[(rel, header)].get("is_dirty", [])
        if len(cands) != 1:
            fail("%s: %d definitions with a true `#[cfg]` (exactly one expected)" % (where, len(cands)))
        toks, blockdesc = cands[0]
        recv, params, ret, ib = io_parse_sig(toks, where)
        if recv != "&self" or params or ret != "bool":
            fail("%s: signature is not `(&self) -> bool`" % where)
        pp = P(toks[ib:], feats, where)
        pp.keep_try = True
        body = pp.block()
        if pp.i != len(toks) - ib or pp.dropped or pp.kept or body[1] or body[2] is None:
            fail("%s: the body is not a single expression" % where)
        lines = []
        t = fl_bool(body[2], where, kind, lines, [0, 0])
        texts.append("/-- %s %s, `fn is_dirty` (`&self`: the state is not changed): %s -/\ndef %s {β : Type} : FlushM β Bool := do\n%s\n"
                     % (rel, blockdesc, what, lean, "\n".join(ind(lines + ["pure " + t]))))
    return texts


def emit_flushops(repo, feats, out, done, methods):
    notes = []
    # ---- what the statements mean
    fl_pin_method(repo, feats, methods, IO_DBX, _ENG_I, "is_dirty", "fn is_dirty(&self) -> bool { self.dirty }")
    for rel, header, how in ((IO_KEY, "impl<KT: DbMapKeyType> KeyFile<KT>", "let mut locked = self.0.borrow_mut(); locked.0.%s()"),
                             (IO_VAL, "impl ValueFile", "let mut locked = self.0.borrow_mut(); locked.0.%s()"),
                             (IO_HTX, "impl HtxFile", "let mut locked = RefCell::borrow_mut(&self.0); locked.file.%s()")):
        for m in FL_ACTS:
            fl_pin_method(repo, feats, methods, rel, header, m, "fn %s(&self) -> Result<()> { %s }" % (m, how % m))
    # the `VarFile` under the handles: the call of the buffer (`#[cfg(abyssiniandb_verif)]`: an I/O trace of the
    # verification harness, not part of a default build)
    for header, m in (("impl VarFile", "sync_all"), ("impl VarFile", "sync_data"), ("impl Write for VarFile", "flush")):
        fl_pin_method(repo, feats, methods, IO_VF, header, m,
                      'fn %s(&mut self) -> Result<()> { #[cfg(abyssiniandb_verif)] super::verif::io_trace(self.buf_file.name(), "%s"); '
                      'self.buf_file.%s() }' % (m, m, m))
    # ---- the three functions
    texts = []
    for rust, lean in FL_FUNCS:
        where = "%s::<%s>::%s" % (IO_DBX, _ENG_B, rust)
        cands = methods[(IO_DBX, _ENG_B)].get(rust, []) if (IO_DBX, _ENG_B) in methods else \
            io_find_methods(repo, feats, IO_DBX, _ENG_B).get(rust, [])
        if len(cands) != 1:
            fail("%s: %d definitions with a true `#[cfg]` (exactly one expected)" % (where, len(cands)))
        toks, blockdesc = cands[0]
        recv, params, ret, ib = io_parse_sig(toks, where)
        if recv != "&mut self" or params or ret != "Result<()>":
            fail("%s: signature is not `(&mut self) -> Result<()>`" % where)
        pp = P(toks[ib:], feats, where)
        pp.keep_try = True
        body = pp.block()
        if pp.i != len(toks) - ib or pp.dropped or pp.kept:
            fail("%s: tokens after the body / `#[cfg]` statements" % where)
        lines = fl_block(body[1], body[2], where, True)
        texts.append("/-- %s %s, `fn %s` -/\ndef %s {β : Type} (p : FilePrims β) : FlushM β Unit := do\n%s\n"
                     % (IO_DBX, blockdesc, rust, lean, "\n".join(ind(lines))))
    # ---- `dirty: true` in the constructor
    where = "%s::<%s>::open_with_params" % (IO_DBX, _ENG_I)
    cands = methods[(IO_DBX, _ENG_I)].get("open_with_params", [])
    if len(cands) != 1:
        fail("%s: %d definitions (exactly one expected)" % (where, len(cands)))
    tv = [v for _k, v in cands[0][0]]
    starts = [i for i in range(len(tv) - 3) if tv[i:i + 4] == ["Ok", "(", "Self", "{"]]
    if len(starts) != 1 or tv.count("Self") != 1:
        fail("%s: not exactly one `Ok(Self { … })`" % where)
    i, depth, lits = starts[0] + 4, 1, []
    while depth:
        v = tv[i]
        depth += (v in ("{", "(", "[")) - (v in ("}", ")", "]"))
        if depth == 1 and v == "dirty" and tv[i + 1] == ":" and tv[i - 1] in ("{", ","):
            lits.append(tv[i + 2] if tv[i + 3] in (",", "}") else "?")
        i += 1
    if len(lits) != 1 or lits[0] not in ("true", "false") or "dirty" in tv[:starts[0]]:
        fail("%s: the struct literal does not set `dirty: <bool literal>` exactly once (or `dirty` occurs before it)" % where)
    texts.append("/-- %s `%s`, `fn open_with_params`: the struct literal `Ok(Self { …, dirty: %s, … })` (the headers of new files "
                 "are only in the buffers yet) -/\ndef dirtyAtOpen : Bool := %s\n" % (IO_DBX, _ENG_I, lits[0], lits[0]))
    # ---- `self.dirty = true;` in `put_kt` / `del_kt` (left out of Engine.lean): where it stands
    def dirty_sets(body):
        return [n for n in io_walk(body) if n[0] == "assign" and n[2] == FL_DIRTY]

    put, dele = done[(ENG, "put_kt")], done[(ENG, "del_kt")]
    for f in (put, dele):
        if dirty_sets(f.body) != [FL_SET_TRUE]:
            fail("%s: not exactly one assignment to `self.dirty`, `self.dirty = true;`" % f.where)
    sts = put.body[1]
    if FL_SET_TRUE not in sts:
        fail("%s: `self.dirty = true;` is not a statement of the function body itself (it is inside a branch)" % put.where)
    k = sts.index(FL_SET_TRUE)
    if k != 1 or fl_find_var(sts[0]) is None or k + 1 >= len(sts) or not (
            sts[k + 1][0] == "expr" and sts[k + 1][1][0] == "iflet" and sts[k + 1][1][2] == ("path", [fl_find_var(sts[0])])):
        fail("%s: `self.dirty = true;` does not stand between `let opt = self.find_in_hash_buckets_kt(hash, key_kt)?;` and the "
             "`if let Some(..) = opt`" % put.where)
    texts.append("/-- %s: `self.dirty = true;` stands in the function body itself, after `let opt = self.find_in_hash_buckets_kt(hash, "
                 "key_kt)?;` and before the `if let Some(..) = opt { … } else { … }`: every `put` whose lookup succeeds raises the flag "
                 "before it writes, whether it replaces or inserts -/\ndef putSetsDirty : Bool := true\n" % put.src)
    sts, tl = dele.body[1], dele.body[2]
    il = tl if (tl is not None and tl[0] == "iflet") else (sts[-1][1] if (sts and sts[-1][0] == "expr" and sts[-1][1][0] == "iflet") else None)
    rest = [x for x in sts if x[0] != "expr" or x[1] is not il]
    if not (il is not None and len(rest) == 1 and fl_find_var(rest[0]) is not None and il[2] == ("path", [fl_find_var(rest[0])])
            and il[1][0] == "pctor" and il[1][1] == "Some" and il[3][1] and il[3][1][0] == FL_SET_TRUE):
        fail("%s: `self.dirty = true;` is not the first statement of the `Some` branch of `if let Some(..) = opt` after "
             "`let opt = self.find_in_hash_buckets_kt(hash, key_kt)?;`" % dele.where)
    texts.append("/-- %s: `self.dirty = true;` is the first statement of the `Some` branch of `if let Some(..) = opt` (`opt` = "
                 "`self.find_in_hash_buckets_kt(hash, key_kt)?`): a `delete` of an absent key does not raise the flag (it writes "
                 "nothing) -/\ndef delSetsDirtyOnlyWhenFound : Bool := true\n" % dele.src)
    texts += emit_dbsync(repo, feats, methods)
    texts += emit_is_dirty(repo, feats, methods)
    with open(os.path.join(out, "FlushOps.lean"), "w") as fh:
        fh.write("import Abyss.FlushM\n")
        fh.write(FL_HEADER)
        fh.write("namespace Abyss.Gen\nopen Abyss (FlushM FilePrims MapSt MapAct DbRegM RegKind)\n\n")
        fh.write("\n".join(texts))
        fh.write("\nend Abyss.Gen\n")
    return len(texts)


# the database object (src/filedb/inner/mod.rs `FileDbInner`): registry, key type, file of the key type; in the order in which
# `applay_all` must visit them (the order of the hand model `Abyss/DbSync.lean` and of `DbReg.all`)
DB_KINDS = [("bytes", "DbBytes", "kt_dbbytes.rs"), ("string", "DbString", "kt_dbstring.rs"), ("i64", "DbI64", "kt_dbi64.rs"),
            ("u64", "DbU64", "kt_dbu64.rs"), ("vu64", "DbVu64", "kt_dbvu64.rs")]
DB_IMPL = "impl FileDbInner"
DB_APPLY_SIG = "fn applay_all<F>(&self, func: F) -> Result<()> where F: Fn(&mut dyn DbXxxBase) -> Result<()>,"
DB_SUBSET = ("`{ let keys: Vec<_> = self.db_<k>_map.keys().cloned().collect(); for a in keys { let mut b = self.db_map_<k>(&a).unwrap(); "
             "func(&mut b)?; } }`")


def emit_dbsync(repo, feats, methods):
    """`FileDbInner::{applay_all, sync_all, sync_data}` -> `dbApplyAll`, `dbSyncAll`, `dbSyncData` (texts for FlushOps.lean)"""
    # ---- what the statements mean
    io_pin_tokens(repo, IO_MOD, "pub struct FileDbInner",
                  "#[derive(Debug)] pub struct FileDbInner { %s path: PathBuf, }"
                  % " ".join("db_%s_map: BTreeMap<String, FileDbMap%s>," % (k, t) for k, t, _f in DB_KINDS), "the struct `FileDbInner`")
    io_pin_tokens(repo, API_DBMAP, "pub struct FileDbMap",
                  "#[derive(Debug, Clone)] pub struct FileDbMap<KT: DbMapKeyType>(Rc<RefCell<FileDbXxxInner<KT>>>);",
                  "the map handle `FileDbMap<KT>` (a clone of it is the same map)")
    io_pin_tokens(repo, IO_MOD_RS, "pub struct FileDb", "#[derive(Debug, Clone)] pub struct FileDb(Rc<RefCell<FileDbInner>>);",
                  "the database handle `FileDb`")
    for k, t, f in DB_KINDS:
        io_pin_tokens(repo, "src/filedb/dbmap/" + f, "pub type FileDbMap" + t, "pub type FileDbMap%s = FileDbMap<%s>;" % (t, t),
                      "the alias `FileDbMap%s`" % t)
        fl_pin_method(repo, feats, methods, IO_MOD, DB_IMPL, "db_map_" + k,
                      "fn db_map_%s(&self, name: &str) -> Option<FileDbMap%s> { self.db_%s_map.get(name).cloned() }" % (k, t, k))
    for m in ("sync_all", "sync_data"):
        # `o.sync_all()` for `o: &mut dyn DbXxxBase` a map handle; `FileDb::sync_all` on top
        fl_pin_method(repo, feats, methods, API_DBMAP, "impl<KT: DbMapKeyType> DbXxxBase for FileDbMap<KT>", m,
                      "fn %s(&mut self) -> Result<()> { RefCell::borrow_mut(&self.0).%s() }" % (m, m))
        fl_pin_method(repo, feats, methods, IO_MOD_RS, "impl FileDb", m,
                      "fn %s(&self) -> Result<()> { RefCell::borrow_mut(&self.0).%s() }" % (m, m))
    texts = []
    # ---- `applay_all`
    where = "%s::<%s>::applay_all" % (IO_MOD, DB_IMPL)
    cands = methods[(IO_MOD, DB_IMPL)].get("applay_all", [])
    if len(cands) == 0:
        # the (private) function under another name: the one with its signature; `sync_all` / `sync_data` must call it (below)
        cands = io_find_renamed(methods[(IO_MOD, DB_IMPL)], "inner", "applay_all", io_sig_toks(tokenize(DB_APPLY_SIG + " {}")),
                                set(r for r, _l in REG_INNER_FUNCS) | set(REG_INNER_OTHER), where,
                                "%s: %d definitions with a true `#[cfg]` (exactly one expected)" % (where, len(cands)))
    if len(cands) != 1:
        fail("%s: %d definitions with a true `#[cfg]` (exactly one expected)" % (where, len(cands)))
    toks = cands[0][0]
    tv = [v for _k, v in toks]
    ib = tv.index("{")
    pairs = sig_eq_renamed(io_sig_toks(toks), io_sig_toks(tokenize(DB_APPLY_SIG + " {}")))
    if pairs is None or tv[2:5] != ["<", "F", ">"]:
        fail("%s: the signature is `%s`, the translation is configured for `%s`" % (where, " ".join(tv[:ib]), DB_APPLY_SIG))
    pp = P(toks[ib:], feats, where)
    pp.keep_try = True
    body = pp.block()
    if pp.i != len(toks) - ib or pp.dropped or pp.kept:
        fail("%s: tokens after the body / `#[cfg]` statements" % where)
    body = rename_params(body, [g for _w, g in pairs], [w for w, _g in pairs], where)       # `func` under its configured name
    if body[2] != ("call", ["Ok"], [("tuple", [])]):
        fail("%s: the body does not end with `Ok(())`" % where)
    lines, kinds = [], []
    for n, st in enumerate(body[1]):
        blk = st[1] if (st[0] == "expr" and st[1][0] == "block") else None
        if blk is None or blk[2] is not None or len(blk[1]) != 2:
            fail("%s: statement %d is not a block of the shape %s" % (where, n + 1, DB_SUBSET))
        l, f = blk[1]
        m = re.match(r"^db_([a-z0-9]+)_map$", l[3][1][1][1][2]) if (
            l[0] == "let" and l[1][0] == "pvar" and l[2] in ("Vec<_>", "Vec<String>") and l[3][0] == "mcall" and l[3][2] == "collect"
            and not l[3][3]
            and l[3][1][0] == "mcall" and l[3][1][2] == "cloned" and not l[3][1][3]
            and l[3][1][1][0] == "mcall" and l[3][1][1][2] == "keys" and not l[3][1][1][3]
            and l[3][1][1][1][0] == "field" and l[3][1][1][1][1] == ("path", ["self"])) else None
        if m is None:
            fail("%s: block %d: the first statement is not `let keys: Vec<_> = self.db_<k>_map.keys().cloned().collect();`" % (where, n + 1))
        k, keys = m.group(1), l[1][1]
        if k not in [x[0] for x in DB_KINDS]:
            fail("%s: block %d: unknown registry `db_%s_map`" % (where, n + 1, k))
        if not (f[0] == "for" and f[1][0] == "pvar" and f[2] == ("path", [keys]) and f[3][2] is None and len(f[3][1]) == 2):
            fail("%s: block %d: the second statement is not `for a in %s { … two statements … }`" % (where, n + 1, keys))
        a = f[1][1]
        s1, s2 = f[3][1]
        if not (s1[0] == "let" and s1[1][0] == "pvar" and s1[2] is None
                and s1[3] == ("mcall", ("mcall", ("path", ["self"]), "db_map_" + k, [("path", [a])]), "unwrap", [])):
            fail("%s: block %d: the first statement of the loop is not `let mut b = self.db_map_%s(&%s).unwrap();`" % (where, n + 1, k, a))
        b = s1[1][1]
        if s2 != ("expr", ("try", ("call", ["func"], [("path", [b])]))):
            fail("%s: block %d: the second statement of the loop is not `func(&mut %s)?;` (an error of `func` must leave "
                 "`applay_all` at once)" % (where, n + 1, b))
        kinds.append(k)
        loop = "dbApplyAllLoop%d" % (n + 1)
        texts.append("/-- block %d of `applay_all`: the loop `for %s in %s { let mut %s = self.db_map_%s(&%s).unwrap(); func(&mut %s)?; }` "
                     "(structurally recursive on the list of names; `DbRegM.handle`: the `unwrap` of the lookup; `DbRegM.call`: the "
                     "call on the map behind the handle, `?`) -/\n"
                     "def %s {μ : Type} (func : MapAct μ) : List String → DbRegM μ Unit\n"
                     "  | [] => pure ()\n"
                     "  | %s :: loopRest => do\n"
                     "    let %s ← DbRegM.handle .%s %s\n"
                     "    DbRegM.call func %s\n"
                     "    %s func loopRest\n"
                     % (n + 1, a, keys, b, k, a, b, loop, io_ident(a), io_ident(b), k, io_ident(a), io_ident(b), loop))
        lines += ["let %s ← DbRegM.keys .%s" % (io_ident(keys), k), "%s func %s" % (loop, io_ident(keys))]
    if kinds != [x[0] for x in DB_KINDS]:
        fail("%s: the blocks visit the registries %s, the translation (and the hand model Abyss/DbSync.lean) is configured for the "
             "order %s" % (where, kinds, [x[0] for x in DB_KINDS]))
    texts.append("/-- %s `%s`, `fn applay_all`%s (`func: F`, `F: Fn(&mut dyn DbXxxBase) -> Result<()>`, is `func : MapAct μ`): five blocks in "
                 "the order bytes, string, i64, u64, vu64 (pinned), each `let keys: Vec<_> = self.db_<k>_map.keys().cloned().collect();` "
                 "(`DbRegM.keys .<k>`: the names in the order of the `BTreeMap`, ascending) and the loop over them; the first `Err` of "
                 "`func` is the value (the maps visited before keep what `func` did to them, the failing one too, the others are not "
                 "visited) -/\ndef dbApplyAll {μ : Type} (func : MapAct μ) : DbRegM μ Unit := do\n%s\n"
                 % (IO_MOD, DB_IMPL, ALIASES.note("inner", "applay_all"), "\n".join(ind(lines + ["pure ()"]))))
    # ---- `sync_all`, `sync_data`
    acts = dict(FL_FUNCS)
    for rust, lean in (("sync_all", "dbSyncAll"), ("sync_data", "dbSyncData")):
        where = "%s::<%s>::%s" % (IO_MOD, DB_IMPL, rust)
        cands = methods[(IO_MOD, DB_IMPL)].get(rust, [])
        if len(cands) != 1:
            fail("%s: %d definitions with a true `#[cfg]` (exactly one expected)" % (where, len(cands)))
        toks = cands[0][0]
        recv, params, ret, ib = io_parse_sig(toks, where)
        if recv != "&self" or params or ret != "Result<()>":
            fail("%s: signature is not `(&self) -> Result<()>`" % where)
        pp = P(toks[ib:], feats, where)
        pp.keep_try = True
        body = pp.block()
        if pp.i != len(toks) - ib or pp.dropped or pp.kept:
            fail("%s: tokens after the body / `#[cfg]` statements" % where)
        t = body[2]
        if not (not body[1] and t is not None and t[0] == "mcall" and t[1] == ("path", ["self"])
                and ALIASES.src_to_cfg("inner", t[2]) == "applay_all"
                and len(t[3]) == 1 and t[3][0][0] == "closure" and len(t[3][0][1]) == 1 and t[3][0][1][0][0] == "pvar"
                and t[3][0][2][0] == "mcall" and t[3][0][2][1] == ("path", [t[3][0][1][0][1]]) and not t[3][0][2][3]
                and t[3][0][2][2] in acts):
            fail("%s: the body is not `self.applay_all(|o| o.<flush|sync_all|sync_data>())`" % where)
        m = t[3][0][2][2]
        texts.append("/-- %s `%s`, `fn %s`: `self.applay_all(|o| o.%s())`; `o.%s()` on a map handle (`FileDbMap<KT>`: "
                     "`RefCell::borrow_mut(&self.0).%s()`, pinned) is `%s` above, as an action on (map, fault counter of its files); "
                     "`FileDb::%s` is `RefCell::borrow_mut(&self.0).%s()` (pinned) -/\n"
                     "def %s {β : Type} (p : FilePrims β) : DbRegM (MapSt β × Nat) Unit := do\n  dbApplyAll (FlushM.onMap (%s p))\n"
                     % (IO_MOD, DB_IMPL, rust, m, m, m, acts[m], rust, rust, lean, acts[m]))
    return texts


# ----------------------------------------------------------------------------- the name registry (Registry.lean)
# `FileDbInner` (inner/mod.rs): lookups, inserts, `create_db_map*`; `FileDb` (filedb/mod.rs): `db_map_<k>[_with_params]`.
# All five copies of every family are translated, each from its own source text.  (rust name, Lean name), callees first.
REG_DB_IMPL = "impl FileDb"
REG_INNER_FUNCS = [
    ("db_map_bytes", "innerDbMapBytes"), ("db_map_string", "innerDbMapString"), ("db_map_i64", "innerDbMapI64"),
    ("db_map_u64", "innerDbMapU64"), ("db_map_vu64", "innerDbMapVu64"),
    ("db_map_bytes_insert", "dbMapBytesInsert"), ("db_map_insert", "dbMapInsert"), ("db_map_dbi64_insert", "dbMapDbi64Insert"),
    ("db_map_dbu64_insert", "dbMapDbu64Insert"), ("db_map_dbvu64_insert", "dbMapDbvu64Insert"),
    ("create_db_map", "createDbMap"), ("create_db_map_bytes", "createDbMapBytes"), ("create_db_map_dbi64", "createDbMapDbi64"),
    ("create_db_map_dbu64", "createDbMapDbu64"), ("create_db_map_dbvu64", "createDbMapDbvu64"),
]
REG_DB_FUNCS = [
    ("db_map_string_with_params", "dbMapStringWithParams"), ("db_map_bytes_with_params", "dbMapBytesWithParams"),
    ("db_map_i64_with_params", "dbMapI64WithParams"), ("db_map_u64_with_params", "dbMapU64WithParams"),
    ("db_map_vu64_with_params", "dbMapVu64WithParams"),
    ("db_map_string", "dbMapString"), ("db_map_bytes", "dbMapBytes"), ("db_map_i64", "dbMapI64"), ("db_map_u64", "dbMapU64"),
    ("db_map_vu64", "dbMapVu64"),
]
# the other methods of the two `impl`s: pinned / translated elsewhere (FlushOps.lean); a method that is in neither list fails
REG_INNER_OTHER = ("open", "path", "sync_all", "sync_data", "applay_all")
REG_DB_OTHER = ("open", "path", "sync_all", "sync_data")
REG_PINS = [
    (IO_MOD, DB_IMPL, "open",
     "fn open<P: AsRef<Path>>(path: P) -> Result<FileDbInner> { let path = path.as_ref(); if !path.is_dir() { "
     "std::fs::create_dir_all(path)?; } Ok(FileDbInner { db_bytes_map: BTreeMap::new(), db_string_map: BTreeMap::new(), "
     "db_i64_map: BTreeMap::new(), db_u64_map: BTreeMap::new(), db_vu64_map: BTreeMap::new(), path: path.to_path_buf(), }) }"),
    (IO_MOD, DB_IMPL, "path", "fn path(&self) -> &Path { self.path.as_path() }"),
    (IO_MOD_RS, REG_DB_IMPL, "open",
     "fn open<P: AsRef<Path>>(path: P) -> Result<Self> { Ok(Self(Rc::new(RefCell::new(FileDbInner::open(path)?)))) }"),
    (IO_MOD_RS, REG_DB_IMPL, "path", "fn path(&self) -> PathBuf { RefCell::borrow(&self.0).path().to_path_buf() }"),
    ("src/filedb/dbmap/mod.rs", "impl<KT: DbMapKeyType> FileDbMap<KT>", "open",
     "fn open<P: AsRef<Path>>(path: P, ks_name: &str, params: FileDbParams,) -> Result<FileDbMap<KT>> { "
     "Ok(Self(Rc::new(RefCell::new(FileDbXxxInner::<KT>::open_with_params(path, ks_name, params)?,)))) }"),
]
# signatures of the registry functions that are not `pub` (to find one that the source has renamed)
REG_ALIAS_SIGS = dict((r, "(&mut self, name: &str, params: FileDbParams) -> Result<()>")
                      for r in ("create_db_map", "create_db_map_bytes", "create_db_map_dbi64", "create_db_map_dbu64", "create_db_map_dbvu64"))
REG_BUFSIZE_ENUM = "#[derive(Debug, Clone)] pub enum FileBufSizeParam { Size(u32), PerMille(u16), Auto, }"
REG_ENUMS = {"FileBufSizeParam": {"Size": ("size", 32), "PerMille": ("perMille", 16), "Auto": ("auto", None)},
             "HashBucketsParam": {"BucketsSize": ("bucketsSize", 64), "Capacity": ("capacity", 64), "Default": ("default", None)}}


def rs_show(e):
    """source-like text of an expression (for messages and doc comments)"""
    k = e[0]
    if k == "path":
        return "::".join(e[1])
    if k == "field":
        return rs_show(e[1]) + "." + e[2]
    if k == "mcall":
        return "%s.%s(%s)" % (rs_show(e[1]), e[2], ", ".join(rs_show(a) for a in e[3]))
    if k == "call":
        return "%s(%s)" % ("::".join(e[1]), ", ".join(rs_show(a) for a in e[2]))
    if k == "try":
        return rs_show(e[1]) + "?"
    if k in ("str", "num"):
        return str(e[1])
    if k == "tuple":
        return "(%s)" % ", ".join(rs_show(a) for a in e[1])
    if k == "panicx":
        return "panic!(..)"
    if k == "match":
        return "match %s { … }" % rs_show(e[1])
    if k == "iflet":
        return "if let … = %s { … }" % rs_show(e[2])
    return "<%s>" % k


def reg_kind_of_type(t):
    """`FileDbMapDbU64` -> `u64` (the aliases `pub type FileDbMapDbU64 = FileDbMap<DbU64>;` are pinned, emit_dbsync)"""
    for k, ty, _f in DB_KINDS:
        if t == "FileDbMap" + ty:
            return k
    return None


def reg_type(text, where):
    """type of a parameter / of the value"""
    if text == "&str":
        return "name"
    if text == "FileDbParams":
        return "params"
    if reg_kind_of_type(text):
        return ("handle", reg_kind_of_type(text))
    m = re.match(r"^Option<(\w+)>$", text)
    if m and reg_kind_of_type(m.group(1)):
        return ("opt", reg_kind_of_type(m.group(1)))
    m = re.match(r"^Result<(\w+|\(\))>$", text)
    if m and m.group(1) == "()":
        return ("res", "unit")
    if m and reg_kind_of_type(m.group(1)):
        return ("res", ("handle", reg_kind_of_type(m.group(1))))
    fail("%s: type `%s` is outside the subset of the registry functions (`&str`, `FileDbParams`, `FileDbMapDb…`, "
         "`Option<FileDbMapDb…>`, `Result<()>`, `Result<FileDbMapDb…>`)" % (where, text))


def reg_show_ty(t):
    """a type of the registry subset, as the source writes it"""
    names = dict((k, "FileDbMap" + ty) for k, ty, _f in DB_KINDS)
    if t == "name":
        return "`&str`"
    if t == "params":
        return "`FileDbParams`"
    if t == "unit":
        return "`()`"
    if t[0] == "handle":
        return "`%s`" % names[t[1]]
    if t[0] == "opt":
        return "`Option<%s>`" % names[t[1]]
    if t[0] in ("res", "tried"):
        return "`Result<%s>`" % reg_show_ty(t[1]).strip("`") if t[0] == "res" else reg_show_ty(t[1])
    return str(t)


def reg_lean_ty(t):
    if t == "name":
        return "String"
    if t == "params":
        return "FileDbParams"
    if t == "unit":
        return "Unit"
    if t[0] == "handle":
        return "μ"
    if t[0] == "opt":
        return "Option μ"
    if t[0] == "res":
        return reg_lean_ty(t[1])
    raise AssertionError(t)


class RegFn:
    pass


class EmitReg:
    """one function of the registry subset -> a definition in `DbRegM μ`"""

    def __init__(self, f, table):
        self.f = f
        self.where = f.where
        self.table = table          # (owner, rust name) -> RegFn translated before
        self.opener = False

    def bad(self, what):
        fail("%s: %s" % (self.where, what))

    # ---- pure arguments
    def pure(self, e, env):
        if e[0] == "path" and len(e[1]) == 1 and e[1][0] in env:
            return io_ident(e[1][0]), env[e[1][0]]
        if e == ("call", ["FileDbParams", "default"], []):
            return "FileDbParams.default", "params"
        if e == ("tuple", []):
            return "()", "unit"
        self.bad("`%s` is not a parameter / local variable / `FileDbParams::default()`" % rs_show(e))

    def args(self, g, args, env, what):
        if len(args) != len(g.params):
            self.bad("`%s`: %d arguments, `%s` has %d parameters" % (what, len(args), g.rust, len(g.params)))
        out = []
        for a, (pn, pt) in zip(args, g.params):
            t, ty = self.pure(a, env)
            if ty != pt:
                self.bad("`%s`: the argument `%s` is a %s, the parameter `%s` of `%s` a %s (the source does not type-check)"
                         % (what, rs_show(a), reg_show_ty(ty), pn, g.rust, reg_show_ty(pt)))
            out.append(t)
        self.opener = self.opener or g.opener
        return " ".join([g.lean] + (["opener"] if g.opener else []) + out)

    def registry(self, e):
        """`self.db_<k>_map` -> k"""
        if e[0] == "field" and e[1] == ("path", ["self"]) and self.f.owner == "inner":
            m = re.match(r"^db_([a-z0-9]+)_map$", e[2])
            if m and m.group(1) in [x[0] for x in DB_KINDS]:
                return m.group(1)
        return None

    # ---- actions: (Lean term of type `DbRegM μ _`, type of the value [("res", t): a `Result`])
    def action(self, e, env):
        f = self.f
        if e[0] == "try":
            t, ty = self.action(e[1], env)
            if ty[0] != "res":
                self.bad("`?` on `%s`, which is not a `Result`" % rs_show(e[1]))
            return t, ("tried", ty[1])
        if e[0] == "mcall":
            recv, m, args = e[1], e[2], e[3]
            # the registry itself
            if recv[0] == "mcall" and self.registry(recv[1]) and m == "cloned" and not args and recv[2] == "get":
                k = self.registry(recv[1])
                if len(recv[3]) != 1:
                    self.bad("`%s`: `get` with %d arguments" % (rs_show(e), len(recv[3])))
                t, ty = self.pure(recv[3][0], env)
                if ty != "name":
                    self.bad("`%s`: the key is not a `&str`" % rs_show(e))
                return "DbRegM.lookup .%s %s" % (k, t), ("opt", k)
            if self.registry(recv):
                k = self.registry(recv)
                if m == "insert" and len(args) == 2 and args[0][0] == "mcall" and args[0][2] == "to_string" and not args[0][3]:
                    tn, tyn = self.pure(args[0][1], env)
                    tc, tyc = self.pure(args[1], env)
                    if tyn != "name":
                        self.bad("`%s`: the key is not `<&str>.to_string()`" % rs_show(e))
                    if tyc != ("handle", k):
                        self.bad("`%s`: the value is a %s, the registry `db_%s_map` holds %s (the source does not type-check)"
                                 % (rs_show(e), reg_show_ty(tyc), k, reg_show_ty(("handle", k))))
                    return "DbRegM.insert .%s %s %s" % (k, tn, tc), ("opt", k)
                self.bad("`%s`: the method `%s` of the registry `db_%s_map` is outside the subset (`.get(name).cloned()`, "
                         "`.insert(name.to_string(), child)`)" % (rs_show(e), m, k))
            # a translated method, through the `RefCell` plumbing (pinned by shape, dropped)
            owner, borrow = None, None
            if recv == ("path", ["self"]):
                owner = f.owner
            elif f.owner == "db" and recv[0] == "call" and recv[1] in (["RefCell", "borrow"], ["RefCell", "borrow_mut"]) \
                    and recv[2] == [("field", ("path", ["self"]), "0")]:
                owner, borrow = "inner", recv[1][1]
            else:
                self.bad("`%s`: the receiver `%s` is not `self` / `RefCell::borrow(&self.0)` / `RefCell::borrow_mut(&self.0)` / a "
                         "registry `self.db_<k>_map`" % (rs_show(e), rs_show(recv)))
            g = self.table.get((owner, ALIASES.src_to_cfg(owner, m)))
            if g is None:
                self.bad("`%s`: `%s` is not a translated method of `%s`" % (rs_show(e), m, "FileDbInner" if owner == "inner" else "FileDb"))
            if g.recv == "&mut self" and (borrow == "borrow" or (borrow is None and f.recv != "&mut self")):
                self.bad("`%s`: `%s` takes `&mut self`, the receiver is a shared borrow (the source does not type-check)" % (rs_show(e), m))
            return self.args(g, args, env, rs_show(e)), g.ret
        if e[0] == "call" and len(e[1]) == 2 and e[1][1] == "open" and reg_kind_of_type(e[1][0]):
            k = reg_kind_of_type(e[1][0])
            a = e[2]
            if f.owner != "inner" or len(a) != 3 or a[0] != ("mcall", ("path", ["self"]), "path", []):
                self.bad("`%s` is not `%s::open(self.path(), <name>, <params>)` in a method of `FileDbInner`" % (rs_show(e), e[1][0]))
            tn, tyn = self.pure(a[1], env)
            tp, typ = self.pure(a[2], env)
            if (tyn, typ) != ("name", "params"):
                self.bad("`%s`: the arguments after `self.path()` are not a `&str` and a `FileDbParams`" % rs_show(e))
            self.opener = True
            return "DbRegM.openMap opener .%s %s %s" % (k, tn, tp), ("res", ("handle", k))
        self.bad("`%s` is outside the subset of the registry functions" % rs_show(e))

    # ---- an expression in value position of the function
    def tail(self, e, env):
        ret = self.f.ret
        if e[0] == "call" and e[1] == ["Ok"] and len(e[2]) == 1:
            t, ty = self.pure(e[2][0], env)
            if ret != ("res", ty):
                self.bad("`%s`: the value is a %s, the function returns %s" % (rs_show(e), reg_show_ty(ty), reg_show_ty(ret)))
            return ["pure %s" % t]
        if e[0] == "panicx":
            return ["DbRegM.panic"]
        if (e[0] == "iflet" and e[4] is not None and e[1][0] == "pctor" and e[1][1] == "Some" and len(e[1][2]) == 1
                and e[1][2][0][0] == "pvar"):
            # `if let Some(m) = e { a } else { b }` is `match e { Some(m) => a, None => b }`
            arms = []
            for blk in (e[3], e[4]):
                if not blk[1] and blk[2] is not None:
                    arms.append(blk[2])
                elif blk[1] == [("panic",)] and blk[2] is None:
                    arms.append(("panicx",))
            if len(arms) == 2:
                e = ("match", e[2], [(["Some"], e[1][2][0][1], arms[0]), (["None"], None, arms[1])])
        if e[0] == "match":
            t, ty = self.action(e[1], env)
            if ty[0] != "opt":
                self.bad("`%s`: the scrutinee is not an `Option<FileDbMapDb…>` (value of a lookup / an insert)" % rs_show(e))
            arms = e[2]
            if sorted((tuple(p_), b is not None) for p_, b, _x in arms) != [(("None",), False), (("Some",), True)]:
                self.bad("`%s`: the arms are not `Some(<v>)` and `None`" % rs_show(e))
            lines = ["match (← %s) with" % t]
            for p_, b, body in arms:
                env2 = dict(env)
                if b is not None:
                    if b in env or b == "()":
                        self.bad("`%s`: the binder `%s` shadows a variable" % (rs_show(e), b))
                    env2[b] = ("handle", ty[1])
                sub = self.tail(body, env2)
                head = "| some %s =>" % io_ident(b) if b is not None else "| none =>"
                lines += [head + " " + sub[0]] if len(sub) == 1 else [head + " do"] + ind(sub, 4)
            return lines
        t, ty = self.action(e, env)
        if ty != ret:
            self.bad("the value `%s` is %s, the function returns %s" % (rs_show(e), reg_show_ty(ty), reg_show_ty(ret)))
        return [t]

    def seq(self, stmts, tail, env):
        if not stmts:
            if tail is None:
                self.bad("the body has no value (`Ok(..)` / a call / a `match` in last position)")
            return self.tail(tail, env)
        st, rest = stmts[0], stmts[1:]
        if st[0] == "let":
            if st[1][0] != "pvar":
                self.bad("`let` with a pattern")
            v = st[1][1]
            t, ty = self.action(st[3], env)
            if ty[0] == "res":
                self.bad("`let %s = %s;` binds a `Result` without `?`" % (v, rs_show(st[3])))
            ty = ty[1] if ty[0] == "tried" else ty
            if st[2] is not None and reg_type(st[2], self.where) != ty:
                self.bad("`let %s: %s = %s;`: the value is a %s (the source does not type-check)" % (v, st[2], rs_show(st[3]), reg_show_ty(ty)))
            env2 = dict(env)
            if v != "_":
                if v in env:
                    self.bad("`let %s` shadows a variable" % v)
                env2[v] = ty
            return ["let %s ← %s" % (io_ident(v), t)] + self.seq(rest, tail, env2)
        if st[0] == "expr" and st[1][0] == "try":
            t, ty = self.action(st[1], env)
            if ty != ("tried", "unit"):
                self.bad("the statement `%s;` drops a value" % rs_show(st[1]))
            return [t] + self.seq(rest, tail, env)
        if st[0] == "expr" and st[1][0] == "iflet":
            _k, pat, scrut, then, els = st[1]
            if els is not None or not (pat[0] == "pctor" and pat[1] == "Some" and len(pat[2]) == 1 and pat[2][0][0] == "pvar"):
                self.bad("`%s`: not `if let Some(<v>) = <lookup> { … }` without `else`" % rs_show(st[1]))
            t, ty = self.action(scrut, env)
            if ty[0] != "opt":
                self.bad("`%s`: the scrutinee is not an `Option<FileDbMapDb…>` (value of a lookup / an insert)" % rs_show(st[1]))
            v = pat[2][0][1]
            if v in env:
                self.bad("`%s`: the binder `%s` shadows a variable" % (rs_show(st[1]), v))
            if not then[1] and then[2] is None:
                # `if let Some(m) = e { }`: `e` is evaluated (the registries are read), nothing else
                return ["let _ ← %s" % t] + self.seq(rest, tail, env)
            if len(then[1]) == 1 and then[2] is None and then[1][0][0] == "return" and then[1][0][1] is not None:
                env2 = dict(env)
                env2[v] = ("handle", ty[1])
                sub = self.tail(then[1][0][1], env2)
                if len(sub) != 1:
                    self.bad("`%s`: the returned value is not `Ok(<v>)`" % rs_show(st[1]))
                return ["match (← %s) with" % t, "| some %s => %s" % (io_ident(v), sub[0]), "| none => do"] + ind(self.seq(rest, tail, env), 4)
            self.bad("`%s`: the block is neither `{ return Ok(<v>); }` nor empty" % rs_show(st[1]))
        what = {"return": "`return` outside `if let Some(..) = .. { return Ok(..); }`", "assign": "an assignment", "for": "a `for` loop",
                "while": "a `while` loop", "loop": "a `loop`", "panic": "`panic!(..);` as a statement", "assert": "`assert!`",
                "dassert": "`%s`" % (st[1] if len(st) > 1 else "assert")}.get(st[0])
        if what is None:
            what = "the statement `%s;`" % rs_show(st[1]) if st[0] == "expr" else "a statement of kind `%s`" % st[0]
        self.bad("%s is outside the subset of the registry functions (`let v = <call>[?];`, `<call>?;`, `if let Some(m) = <lookup> "
                 "{ return Ok(m); }`, and `Ok(..)` / `<call>` / `match <lookup> { Some(m) => .., None => panic!(..) }` in last "
                 "position)" % what)


def reg_translate(repo, feats, methods, owner, rel, header, rust, lean, table):
    where = "%s::<%s>::%s" % (rel, header, rust)
    cands = methods[(rel, header)].get(ALIASES.new_of.get((owner, rust), rust), [])
    if len(cands) != 1:
        fail("%s: %d definitions with a true `#[cfg]` (exactly one expected)" % (where, len(cands)))
    toks, blockdesc = cands[0]
    if toks[2][1] == "<":
        fail("%s: generic parameters" % where)
    recv, params, ret, ib = io_parse_sig(toks, where)
    f = RegFn()
    f.owner, f.rust, f.lean, f.where, f.recv = owner, rust, lean, where, recv
    f.params = [(n, reg_type(t, where)) for n, t in params]
    f.ret = reg_type(ret, where)
    if any(isinstance(t, tuple) and t[0] != "handle" for _n, t in f.params) or f.ret in ("name", "params") or f.ret[0] == "handle":
        fail("%s: parameter / return types outside the subset" % where)
    pp = P(toks[ib:], feats, where)
    pp.keep_try = True
    body = pp.block()
    if pp.i != len(toks) - ib or pp.dropped or pp.kept:
        fail("%s: tokens after the body / `#[cfg]` statements" % where)
    # the parameters under their configured names (`name`, then `child` / `params`: those of the Lean definition)
    canon = ["name"] + [{"params": "params", ("handle",): "child"}.get(t if isinstance(t, str) else t[:1])
                        for _n, t in f.params[1:]]
    if 1 <= len(f.params) <= 2 and f.params[0][1] == "name" and None not in canon:
        body = rename_params(body, [n for n, _t in f.params], canon, where)
        f.params = [(c, t) for c, (_n, t) in zip(canon, f.params)]
    em = EmitReg(f, table)
    lines = em.seq(body[1], body[2], dict(f.params))
    f.opener = em.opener
    sig = "".join(" (%s : %s)" % (io_ident(n), reg_lean_ty(t)) for n, t in f.params)
    src = " ".join(v for _k, v in toks)
    src = re.sub(r" ([,;.)?\]:>])", r"\1", re.sub(r"([(.&\[!<]) ", r"\1", src.replace(" :: ", "::"))).replace(" (", "(").replace(" <", "<")
    src = src.replace("->Result", "-> Result").replace("->Option", "-> Option").replace(",)", ")")
    f.text = ("/-- %s %s, `%s`%s -/\ndef %s {μ : Type}%s%s : DbRegM μ (%s) := do\n%s\n"
              % (rel, blockdesc, src, ALIASES.note(owner, rust), lean, " (opener : Opener FileDbParams μ)" if f.opener else "", sig,
                 reg_lean_ty(f.ret), "\n".join(ind(lines))))
    f.text = f.text.replace("(Unit)", "Unit").replace(": DbRegM μ (μ)", ": DbRegM μ μ")
    return f


def reg_params(repo, feats):
    """`FileBufSizeParam`, `FileDbParams` and `impl Default for FileDbParams` -> Lean texts"""
    io_pin_tokens(repo, IO_MOD_RS, "pub enum FileBufSizeParam", REG_BUFSIZE_ENUM, "the definition of `FileBufSizeParam`")
    got = io_find_item_tokens(repo, IO_MOD_RS, "pub struct FileDbParams")
    head = [v for _k, v in tokenize("#[derive(Debug, Clone)] pub struct FileDbParams {")]
    if got[:len(head)] != head or got[-1] != "}":
        fail("%s: `FileDbParams` is not `#[derive(Debug, Clone)] pub struct FileDbParams { … }`" % IO_MOD_RS)
    inner = got[len(head):-1]
    fields = []
    while inner:
        if len(inner) < 5 or inner[0] != "pub" or inner[2] != ":" or inner[3] not in REG_ENUMS or inner[4] != ",":
            fail("%s: `FileDbParams`: a field is not `pub <name>: FileBufSizeParam | HashBucketsParam,` (at `%s`)" % (IO_MOD_RS, " ".join(inner[:5])))
        fields.append((inner[1], inner[3]))
        inner = inner[5:]
    if ("buckets_size", "HashBucketsParam") not in fields:
        fail("%s: `FileDbParams` has no field `buckets_size: HashBucketsParam`" % IO_MOD_RS)
    texts = ["/-- %s `pub enum FileBufSizeParam` (pinned) -/\ninductive FileBufSizeParam where\n  | size (x : Nat)\n  | perMille (x : Nat)\n"
             "  | auto\n  deriving Repr, DecidableEq\n" % IO_MOD_RS,
             "/-- %s `pub struct FileDbParams`; the buffer sizes only reach the pinned and dropped parts of the three "
             "`open_with_params` (FileOps.lean), `buckets_size` is the parameter `p` of `Gen.openMap` (Engine.lean) -/\n"
             "structure FileDbParams where\n%s\n  deriving Repr, DecidableEq\n"
             % (IO_MOD_RS, "\n".join("  %s : %s" % (io_ident(n), t) for n, t in fields))]
    header = "impl std::default::Default for FileDbParams"
    where = "%s::<%s>::default" % (IO_MOD_RS, header)
    cands = io_find_methods(repo, feats, IO_MOD_RS, header).get("default", [])
    if len(cands) != 1:
        fail("%s: %d definitions (exactly one expected)" % (where, len(cands)))
    toks = cands[0][0]
    tv = [v for _k, v in toks]
    if tv[:7] != ["fn", "default", "(", ")", "->", "Self", "{"]:
        fail("%s: the signature is not `fn default() -> Self`" % where)
    pp = P(toks[6:], feats, where)
    pp.keep_try = True
    body = pp.block()
    if pp.i != len(toks) - 6 or pp.dropped or pp.kept or body[1] or body[2] is None or body[2][0] != "structlit":
        fail("%s: the body is not a struct literal `Self { … }`" % where)
    lit = body[2][2]
    if [x[0] for x in lit] != [n for n, _t in fields]:
        fail("%s: the struct literal does not set the fields %s in this order" % (where, [n for n, _t in fields]))
    vals = []
    for (fname, e), (_n, ety) in zip(lit, fields):
        path, arg = (e[1], None) if e[0] == "path" else ((e[1], e[2]) if e[0] == "call" else (None, None))
        if path is None or len(path) != 2 or path[0] != ety or path[1] not in REG_ENUMS[ety]:
            fail("%s: the value of `%s` (`%s`) is not a constructor of `%s`" % (where, fname, rs_show(e), ety))
        ctor, width = REG_ENUMS[ety][path[1]]
        if (width is None) != (arg is None) or (arg is not None and (len(arg) != 1 or arg[0][0] != "num" or not 0 <= arg[0][1] < 2 ** width)):
            fail("%s: the value of `%s` (`%s`): the argument is not an integer literal of the constructor's type" % (where, fname, rs_show(e)))
        vals.append("%s := .%s%s" % (io_ident(fname), ctor, " %d" % arg[0][1] if arg is not None else ""))
    texts.append("/-- %s `%s`, `fn default` -/\ndef FileDbParams.default : FileDbParams :=\n  { %s }\n"
                 % (IO_MOD_RS, header, ",\n    ".join(vals)))
    return texts


def emit_registry(repo, feats, out, done, methods):
    # ---- what the statements mean
    for rel, header, name, want in REG_PINS:
        fl_pin_method(repo, feats, methods, rel, header, name, want)
    methods[(IO_MOD_RS, REG_DB_IMPL)] = io_find_methods(repo, feats, IO_MOD_RS, REG_DB_IMPL)
    # a function that is not `pub` (the `create_db_map*`) under another name: the one other function with its signature
    for rust, _lean in REG_INNER_FUNCS:
        if rust not in methods[(IO_MOD, DB_IMPL)] and rust in REG_ALIAS_SIGS:
            io_find_renamed(methods[(IO_MOD, DB_IMPL)], "inner", rust, io_strip_tc([v for _k, v in tokenize(REG_ALIAS_SIGS[rust])]),
                            set(r for r, _l in REG_INNER_FUNCS) | set(REG_INNER_OTHER) | set(ALIASES.new_of.get(k_) for k_ in ALIASES.new_of),
                            "%s::<%s>::%s" % (IO_MOD, DB_IMPL, rust),
                            "%s::<%s>::%s: 0 definitions with a true `#[cfg]` (exactly one expected)" % (IO_MOD, DB_IMPL, rust))
    for rel, header, funcs, other, what, own in ((IO_MOD, DB_IMPL, REG_INNER_FUNCS, REG_INNER_OTHER, "FileDbInner", "inner"),
                                                 (IO_MOD_RS, REG_DB_IMPL, REG_DB_FUNCS, REG_DB_OTHER, "FileDb", "db")):
        have = sorted(ALIASES.old_of.get((own, m_), m_) for m_ in methods[(rel, header)])
        want = sorted([r for r, _l in funcs] + list(other))
        if have != want:
            fail("%s::<%s>: the methods are %s, the translation is configured for %s (a method that is not listed may change the "
                 "registries of `%s`: not translated: %s)" % (rel, header, have, want, what, sorted(set(have) ^ set(want))))
    texts = []
    # ---- the file names
    names = []
    for owner in ("KeyFileOpen", "ValueFileOpen", "HtxFileOpen"):
        g = done.get((owner, "open_with_params"))
        if g is None or g.file_name is None:
            fail("Registry: `%s::open_with_params` has no translated path statements" % owner)
        names.append(g.file_name[0])
        texts.append(g.file_name[1])
    texts.append("/-- the file names of a map, in the order in which `FileDbXxxInner::open_with_params` opens them (key file, value file, "
                 "table file; pinned, Engine.lean `openMap`): all three `open_with_params` get the same `&path` and `ks_name` -/\n"
                 "def mapFileNames (ksName : String) : List String := [%s]\n" % ", ".join("%s ksName" % n for n in names))
    texts += reg_params(repo, feats)
    texts.append("/-- %s `FileDbInner::open` (pinned): `Ok(FileDbInner { db_bytes_map: BTreeMap::new(), db_string_map: BTreeMap::new(), "
                 "db_i64_map: BTreeMap::new(), db_u64_map: BTreeMap::new(), db_vu64_map: BTreeMap::new(), path: path.to_path_buf() })`: "
                 "a database object starts with five empty registries -/\n"
                 "def dbRegNew {μ : Type} : Abyss.DbReg μ := ⟨[], [], [], [], []⟩\n" % IO_MOD)
    # ---- the functions
    table, listing = {}, []
    for owner, rel, header, funcs in (("inner", IO_MOD, DB_IMPL, REG_INNER_FUNCS), ("db", IO_MOD_RS, REG_DB_IMPL, REG_DB_FUNCS)):
        for rust, lean in funcs:
            f = reg_translate(repo, feats, methods, owner, rel, header, rust, lean, table)
            table[(owner, rust)] = f
            texts.append(f.text)
            listing.append(lean)
    if len(set(listing)) != len(listing):
        fail("Registry: two functions with the same Lean name")
    with open(os.path.join(out, "Registry.lean"), "w") as fh:
        fh.write("import Abyss.RegM\nimport Abyss.Gen.Funcs\n")
        fh.write(REG_HEADER)
        fh.write("namespace Abyss.Gen\nopen Abyss (DbRegM RegKind Opener)\n\n")
        fh.write("\n".join(texts))
        fh.write("\nend Abyss.Gen\n")
    return len(texts)


REG_HEADER = """/-! GENERATED by tools/rs2lean.py from /repo — do not edit.
The name registry of a database object.

* File names.  `keyFileName` / `valFileName` / `htxFileName`: the path statements of `KeyFile::open_with_params`,
  `ValueFile::open_with_params`, `HtxFile::open_with_params` (`let mut pb = path.as_ref().to_path_buf();
  pb.push(format!("{ks_name}.<ext>"));`): the format string is translated literally (`{ks_name}` = the `&str` parameter,
  the rest literal text; anything else in it fails the translation), and the statements must be exactly these two, so the
  string is PUSHED onto the directory path: a file name inside the database directory.  `ks_name` is the `name` of the
  registry functions below: `FileDbMap::<KT>::open(path, ks_name, params)` (pinned) passes it to
  `FileDbXxxInner::open_with_params` (pinned, Engine.lean), which passes `&path, ks_name` to all three.
* `FileBufSizeParam`, `FileDbParams`, `FileDbParams.default` (src/filedb/mod.rs; `HashBucketsParam` is in Funcs.lean).
* The registry functions, in `Abyss.DbRegM μ` (Abyss/FlushM.lean, Abyss/RegM.lean): state = the five registries
  `db_<k>_map: BTreeMap<String, FileDbMap<…>>` of `FileDbInner`; failure = `Err` / panic.  `μ` = an entry of a registry, a
  `FileDbMap<KT>` = `Rc<RefCell<FileDbXxxInner<KT>>>` (pinned): the handle IS the shared state of the map, a clone of it is
  the same map.  ALL FIVE copies of each family are translated, each from its own source text:
  - src/filedb/inner/mod.rs `impl FileDbInner`: the lookups `db_map_<k>` (`self.db_<k>_map.get(name).cloned()` is
    `DbRegM.lookup .<k> name`, the registry is the one the FIELD names), the inserts (`self.db_<k>_map.insert(
    name.to_string(), child)` is `DbRegM.insert .<k> name child`; value = the previous entry), the `create_db_map*`
    (`FileDbMapDb<K>::open(self.path(), name, params)?` is `DbRegM.openMap opener .<k> name params`, `<k>` from the TYPE the
    call names; `opener` = `FileDbMap::<KT>::open` on the directory `self.path()`, a parameter of the generated function;
    `let _ = …;` discards the value);
  - src/filedb/mod.rs `impl FileDb`: `db_map_<k>_with_params` and `db_map_<k>`.  `RefCell::borrow(&self.0).m(..)` /
    `RefCell::borrow_mut(&self.0).m(..)` is the call of the translated method `m` of `FileDbInner` (the `RefCell` plumbing of
    `FileDb(Rc<RefCell<FileDbInner>>)`, pinned, is dropped; a `&mut self` method behind `borrow` fails the translation).
    `if let Some(m) = e { return Ok(m); } rest` is `match (← e) with | some m => pure m | none => do rest`; `e?` is the bind
    of the monad, `Ok(e)` is `pure e`, `panic!(..)` is `DbRegM.panic`, `FileDbParams::default()` is `FileDbParams.default`.
  The types of the handles (`FileDbMapDbU64` …) are checked while translating (an insert of a handle into the registry of
  another key type does not type-check and fails the translation); WHICH function a body calls and WHICH registry a body
  names is taken from the source as it is.  The method sets of `impl FileDbInner` and `impl FileDb` are compared with the
  configured ones on every run (a new method might change the registries).
-/
"""


FL_HEADER = """/-! GENERATED by tools/rs2lean.py from /repo — do not edit.
Flush / sync of a map and its dirty flag (src/filedb/inner/dbxxx.rs `impl DbXxxBase for FileDbXxxInner<KT>`:
`flush`, `sync_all`, `sync_data`) as functions in `Abyss.FlushM β` (Abyss/FlushM.lean): state = the three buffered files
(of any type `β`), the `dirty` flag and a fault counter; failure = `Err` (the state reached so far is kept).
Statement by statement:

* `self.val_file.<m>()?;` / `self.key_file.<m>()?;` / `self.htx_file.<m>()?;` (`<m>` = `flush`, `sync_all`, `sync_data`)
  is `FlushM.onVal p.<m>` / `FlushM.onKey p.<m>` / `FlushM.onHtx p.<m>`: the parameter `p : FilePrims β` holds the three
  actions of one buffered file.  Checked on every run: `KeyFile::<m>` / `ValueFile::<m>` are
  `{ let mut locked = self.0.borrow_mut(); locked.0.<m>() }`, `HtxFile::<m>` is
  `{ let mut locked = RefCell::borrow_mut(&self.0); locked.file.<m>() }`, and `VarFile::<m>` is `self.buf_file.<m>()`
  (after an I/O trace statement under `#[cfg(abyssiniandb_verif)]`).
* `self.dirty = b;` is `FlushM.setDirty b`; `if self.is_dirty() { … }` reads the flag (`FlushM.isDirty`;
  `is_dirty` is `{ self.dirty }`, checked); `Ok(())` is `pure ()`.
* `dirtyAtOpen`: the literal of `dirty:` in the `Ok(Self { … })` of `FileDbXxxInner::open_with_params`.
* `putSetsDirty`, `delSetsDirtyOnlyWhenFound`: where the statement `self.dirty = true;` (left out of Engine.lean) stands
  in `put_kt` / `del_kt`; the translation fails when it stands elsewhere.
* the database object (src/filedb/inner/mod.rs `impl FileDbInner`: `applay_all`, `sync_all`, `sync_data`) in
  `Abyss.DbRegM μ` (Abyss/FlushM.lean): state = the five registries `db_<k>_map: BTreeMap<String, FileDbMap<…>>` of
  `FileDbInner` (struct pinned) as association lists in ascending name order (`DbReg μ`; `BTreeMap::keys()` iterates in
  ascending key order), `μ` the state of one map; failure = `Err` / panic, the state reached so far is kept.
  `applay_all` must consist of five blocks, for `<k>` = bytes, string, i64, u64, vu64 IN THIS ORDER (the translation fails
  otherwise), each `{ let keys: Vec<_> = self.db_<k>_map.keys().cloned().collect(); for a in keys { let mut b =
  self.db_map_<k>(&a).unwrap(); func(&mut b)?; } }`: `DbRegM.keys .<k>`, then a function structurally recursive on the
  names with `DbRegM.handle .<k> a` (`db_map_<k>` = `self.db_<k>_map.get(name).cloned()`, pinned: a clone of the
  `Rc<RefCell<…>>` handle, i.e. the map itself; `None.unwrap()` = failure) and `DbRegM.call func b` (what `func` does to
  the map is done to the entry of the registry; `?`).  `sync_all` / `sync_data` = `self.applay_all(|o| o.sync_all())`:
  `o.sync_all()` on a handle is `mapSyncAll` (the wrappers `impl DbXxxBase for FileDbMap<KT>` and `FileDb::sync_all` are
  pinned), as an action on (map, fault counter) (`FlushM.onMap`).
* `mapIsDirty`: `FileDbXxxInner::is_dirty`, `apiIsDirty`: `FileDbMap::is_dirty` (src/filedb/dbmap/mod.rs), in `FlushM β` (they
  read the flag; no file is touched): `self.dirty` is `FlushM.isDirty`, `RefCell::borrow(&self.0).is_dirty()` / `self.is_dirty()`
  is `mapIsDirty`, `!e`, `true`, `false`.
-/
"""

IO_PRELUDE = """/-- `!x` on a `u8` -/
def u8Not (x : Nat) : Nat := 0xFF - x % 256

/-- `x << n` on a `u8`: the bits shifted out are lost (`% 256`); the shift amount is taken modulo 8, as a release
build does (a debug build panics when `n ≥ 8`; the translated code only shifts by `idx % 8`) -/
def u8Shl (x n : Nat) : Nat := Nat.shiftLeft x (n % 8) % 256

/-- the trait `PieceA<T>` (src/filedb/inner/piece.rs, definition pinned) of a record file: what the walk over all
pieces (`PieceOffsetIter<T>`) needs from the file; `Box<dyn PieceA<T>>` is a value of this structure
(`keyPieceA`, `valPieceA` at the end of this file) -/
structure PieceA where
  pieceOffsetStart : M Nat
  pieceOffsetEnd : M Nat
  pieceSize : Nat → M Nat

"""

ENG_HEADER = """/-! GENERATED by tools/rs2lean.py from /repo — do not edit.
The engine: the methods of `FileDbXxxInner<KT>` (src/filedb/inner/dbxxx.rs: `load_value`, `store_value_on_insert`,
`relink_moved_key_piece`, `find_in_hash_buckets_kt`, `len`, `get_kt`, `put_kt`, `del_kt`, `includes_key_kt`), the
iterator `DbXxxIterMut<KT>`, the statistics calls of `CheckFileDbMap` and `open_with_params` (`openMap`) as
functions in `Abyss.DbM` (Abyss/DbM.lean): state = the three flat files (`htx`, `key`, `val`), failure = `Err` /
panic / a loop out of fuel.  The rules of FileOps.lean apply; in addition:

* `self.key_file.m(..)` / `self.val_file.m(..)`: the wrapper `KeyFile<KT>::m` / `ValueFile::m` must be exactly
  `{ let mut locked = self.0.borrow_mut(); locked.g(a…) }` (a… its parameters or boolean literals, e.g.
  `write_piece(piece)` = `locked.write_piece(piece, false)`; read from key.rs / val.rs on every run); the call is
  `liftKey (g kc …)` / `liftVal (g vc …)` with the function `g` of FileOps.lean.  `self.htx_file.m(..)` is
  `liftHtx (htx… bucketsSize …)` (the `HtxFile` methods of FileOps.lean).  After
  `let mut locked_key = self.key_file.0.borrow_mut();` a call `locked_key.g(..)` is `liftKey (g …)`.
  `self.m(..)` is the engine function `m` of this file.
* context parameters, only those a function needs, in this order: `kc vc : FileCfg` (piece managers of the key
  and of the value file), `bucketsSize` (the field `buckets_size` of the `VarFileHtxCache`), `cmp` (`KT::cmp_u8`:
  `cmpU8Bytes`, … of Funcs.lean; `none` = it panics); then `hash` where the Rust body opens with
  `let hash = HashValue::new(key_kt.hash_value());` (the caller passes `Abyss.hashValue key`); a key is its bytes.
* `match key_kt.cmp_u8(&bytes) { Ordering::Equal => a, Ordering::Greater => b, Ordering::Less => c }` is a `match`
  on `cmp key bytes` (`none` fails).
* `Option`: `Some(x)`/`None` are `some x`/`none`, `.map(Some)` is bind + `pure (some _)`,
  `if let Some(p) = o { A } else { B }` is `match o with | some p => A | none => B`.
* a local piece struct `let p = call?;` is flattened into `p<Field>` variables: the fields the call returns are
  bound by the pattern, the others are the arguments they come from (see the doc comment of the callee);
  a struct as the value of a block is the tuple of all its fields.
* `loop { … }` (last statement, left only by `return`) is an auxiliary function like a `while` loop whose value
  is the value of the function; loop fuel is `(← DbM.keyLen) + 1`: a chain of the key file has fewer pieces
  than the file has bytes.
* `self.dirty = true;` and `_cold();` are left out (named in the doc comments; where `self.dirty = true;` stands is
  pinned in FlushOps.lean: `putSetsDirty`, `delSetsDirtyOnlyWhenFound`).
* the iterator state machine `DbXxxIterMut<KT>` (`new` -> `iterNew`, `next_piece_offset` -> `iterNextPieceOffset`,
  `Iterator::next` -> `iterNext`; `load_key_data`): the struct (definition pinned) is the explicit tuple
  `st = (remaining_item_count, buckets_size, buckets_idx, key_offset)`: parameter and second component of the value of a
  `&mut self` method (`self.f` is a variable `selfF`, `self.f = e;` re-binds it), value of `new` (`Ok(Self { … })`, every
  field once); its `db_map: Rc<RefCell<FileDbXxxInner<KT>>>` is the state of `DbM`.  The `RefCell` plumbing is pinned by
  shape and dropped: `let h = RefCell::borrow(&db_map)` / `RefCell::borrow[_mut](&self.db_map)` (h is the map: `h.htx_file.m()`,
  `h.load_value(..)` are what `self.…` is in the methods of the map), `let mut k = RefCell::borrow_mut(&h.key_file.0)`
  (`k.m(..)` = `liftKey (m …)`), `let mut x = RefCell::borrow_mut(&h.htx_file.0)` (`x.file.m(..)` = `liftHtx (htx… …)`).
  These functions do not return a `Result`: their value is the Lean value, `call.unwrap()` of a `Result` is `call?`
  (the panic on `Err` = `DbM.fail`).  `if let Some(p) = self.next_piece_offset()` runs the call first (the state
  tuple is re-bound).  The loop over the buckets has the fuel `(← DbM.htxLen) + 1`.
* statistics (`impl CheckFileDbMap for FileDbXxxInner`): `for off in self.key_piece_offset_iter() { … }` /
  `self.value_piece_offset_iter()`: the layers `FileDbXxxInner::key_piece_offset_iter` -> `KeyFile::piece_offset_iter` ->
  `KeyPieceOffsetIter::{new, next_piece_offset}`, `Iterator::next` (and the same for the value file) are compared with
  the configured text on every run; the loop is `pieceOffsetIterNew keyPieceA` once and
  `pieceOffsetIterNextPieceOffset keyPieceA` per round (FileOps.lean, each `.unwrap()`ed), an auxiliary function
  recursive on `fuel` = `(← DbM.keyLen) + 1` / `(← DbM.valLen) + 1` (a file has fewer pieces than bytes) over
  (the `PieceOffsetIter`, the variables the body assigns).  `RecordSizeStats::default()` / `LengthStats::default()` are
  `[]` (`#[derive(Default)]` of the tuple struct around the `Vec`, pinned), `v.touch_size(x);` / `v.touch_length(x);`
  re-bind `v := touchSize v x` / `touchLength v x` (Funcs.lean).  `self.key_file.m()` with `m` not a plain wrapper is
  the translated method `m` of the handle (`count_of_free_key_piece`).
* `openMap`: `FileDbXxxInner::open_with_params`.  Its body must be exactly the three statements
  `let key_file = key::KeyFile::open_with_params(&path, ks_name, KT::signature(), &params)?;`, `let val_file = val::ValueFile::…`,
  `let htx_file = htx::HtxFile::…` in this order (key file, value file, table file: the order of the model `Abyss.openAccepts`)
  and `Ok(Self { key_file, val_file, htx_file, dirty: true, _phantom: std::marker::PhantomData })`; each statement is
  `liftKey (keyOpen sig2)` / `liftVal (valOpen sig2)` / `liftHtx (htxOpen sig2 p)` (FileOps.lean); the value is the
  `buckets_size` of the table file (the map is the three files of `DbM`; of its handles only `HtxFile` carries data).
* `readFillBuffer`: `FileDbXxxInner::read_fill_buffer`; the three files in the order of the source, each `liftVal` / `liftKey` /
  `liftHtx` of the translated `read_fill_buffer` of the handle (FileOps.lean: down to the primitive `FileM.readFill`).  The
  wrapper `impl DbXxxBase for FileDbMap<KT>` (`RefCell::borrow_mut(&self.0).read_fill_buffer()`) and the declaration in the trait
  `DbXxxBase` are pinned.
* the iterator adaptors `DbXxxIter`, `DbXxxIntoIter`, `DbXxxKeys`, `DbXxxValues` (after `openMap`): each struct is pinned to
  `{ iter: DbXxxIterMut<KT> }` and IS the state tuple of the `DbXxxIterMut` inside; of each, `new` -> `iter<X>New`,
  `Iterator::next` -> `iter<X>Next` (`self.iter.next()` is `iterNext` on the state tuple, which is re-bound; `o.map(|(k, _v)| k)` is
  `o.map fun (k, _v) => k`), `Iterator::size_hint` -> `iter<X>SizeHint` (a pure function; `self.iter.size_hint()` is
  `iterSizeHint`, the translation of `DbXxxIterMut::size_hint`: `self.f` is the component of the tuple, `u64 as usize` the
  identity on a 64-bit target); the `impl` blocks must have exactly these methods (another overridden method of `Iterator`
  would not be the default one over `next`).  The classes of the values are checked against the signatures (a key `KT` and a
  value `Vec<u8>` are both `List Nat` in Lean, but `keys()` that yields the value does not pass).  The API paths of
  src/filedb/dbmap/mod.rs: `iter`, `iter_mut`, `keys`, `values` (`impl DbMap<KT> for FileDbMap<KT>`; the declarations of the trait in
  src/lib.rs pinned) and the three `IntoIterator::into_iter` (`FileDbMap<KT>`, `&FileDbMap<KT>`, `&mut FileDbMap<KT>`) ->
  `mapIter`, `mapIterMut`, `mapKeys`, `mapValues`, `mapIntoIter`, `mapIntoIterRef`, `mapIntoIterMut`: WHICH struct each returns is
  configured (a `keys()` that builds a `DbXxxValues` fails the translation), the body `S::new(self.0.clone()).unwrap()` is the
  translated `new` of the struct it names (`.unwrap()`: the panic is the failure of the monad).
-/
"""

IO_HEADER = """/-! GENERATED by tools/rs2lean.py from /repo — do not edit.
Byte-level I/O of the record files: the `&mut self` methods of `VarFile`
(src/filedb/inner/vfile.rs, src/filedb/inner/piece.rs) and the piece-level I/O of the value file and the
key file (src/filedb/inner/val.rs `ValuePiece`, `VarFileValueCache`; src/filedb/inner/key.rs `KeyPiece<KT>`,
`VarFileKeyCache<KT>`) as functions in `Abyss.FileM.M`; the hash-table file; the statistics; the create / open path.

* `Result<T>` with `?` is the failure of the monad; `Ok(e)` is `pure e`; `.map(|v| e)` is bind + pure;
  `assert!(c)` is `if !c then FileM.fail`.
* a method of the VarFile (`self.<m>(..)` in `impl VarFile`, `self.0.<m>(..)` in the two `VarFile…Cache` tuple
  structs, `file.<m>(..)` for a parameter `file: &mut VarFile`) is the translated function of that name or a
  bottom primitive of `Abyss.FileM` (`read_u64_le`, `write_u64_le`, `read_and_decode_vu64`,
  `encode_and_write_vu64`, `buf_file.write_zero`, `buf_file.read_u8`, `write_all`, `read_exact_maybeslice`,
  `seek(SeekFrom::Start(_))`, `seek(SeekFrom::End(0))`, `seek(SeekFrom::Current(n as i64))` with `n: u32`,
  `stream_position`); its `piece_mgr` is `c : FileCfg` (`free_list_offset` = `c.freeOffsets`,
  `size_ary` = `c.sizeAry`; `piece_mgr.roundup(s)` = `roundup c.sizeAry s` of Funcs.lean).
* the unit-of-measure newtypes of semtype.rs (`Offset<T>`, `PieceOffset<T>`, `PieceSize<T>`, `Length<T>` and their
  `Key…`/`Value…` aliases) are erased to `Nat`: `new`, `into`, `as_value` are the identity, `is_zero` is `== 0`,
  comparisons are those of the numbers, `Offset + PieceSize` is `+`, `Offset - Offset` is `(a - b) % 2^32`
  (`(self.val - rhs.val) as u32`; only accepted under a guard `if a > b` that makes `a - b` exact).
  These readings are checked against semtype.rs on every run.  `n as uN` is `% 2^N`.
  `+` and `*` are those of `Nat` (overflow of the Rust integer type is outside the model, as in Funcs.lean),
  except for a sum of `u32` variables that is the argument of `PieceSize::new(val: u32)`: `% 2^32` (release build).
* byte sequences (`Vec<u8>`, `&[u8]`, `rabuf::MaybeSlice`) and keys (`KT: DbMapKeyType`) are `List Nat`:
  `to_vec`, `into_vec`, `clone`, `as_bytes`, `KT::from_bytes` are the identity, `len()` is `.length`.
* a piece struct (`ValuePiece`, `KeyPiece<KT>`; definitions and the constructors `with`, `with_value`,
  `with_key_value_next` are compared with the configured text on every run) is flattened into its fields:
  a struct parameter / `&self` becomes one Lean parameter per field that the function reads before it assigns
  it (`write_piece` assigns `size` first: no parameter), `piece.f = e;` re-binds that variable, a returned
  struct is the tuple of the fields named in the doc comment (the other fields are checked to be unchanged
  parameters), `piece.encoded_piece_size()` is `valueEncodedPieceSize` / `keyEncodedPieceSize` of Funcs.lean.
* `if c { A } else { B }; rest` where a branch returns: `rest` is the continuation of every branch that does not
  (`if c then (A; rest) else (B; rest)`).
* `debug_assert!`, statements under a false `#[cfg(..)]` (`debug_assertions` is false), the read-ahead
  hint `prepare` and the error-recovery arm of `match piece.dat_write_piece_one(..) { Ok(()) => (), Err(err) =>
  { let _ = self.0.set_file_length(..); return Err(err); } }` are left out; each doc comment lists what was
  dropped from that function.
* a `while` loop is an auxiliary function `<name>Loop`, structurally recursive on `fuel`, over the tuple
  of variables the loop assigns; `fuel = 0` is `FileM.fail`; the caller passes `(← FileM.fileLen) + 1`
  (a free list cannot have more slots than the file has bytes, a table not more buckets).
* the hash-table file (src/filedb/inner/htx.rs): `impl VarFile` (`htx…` functions) and the methods of the handle
  `HtxFile(Rc<RefCell<VarFileHtxCache>>)`: every body opens with `let mut locked = RefCell::borrow_mut(&self.0);`
  (checked, erased); `locked.file` is the file, `locked.buckets_size` the leading parameter `bucketsSize`.
  `HTX_HEADER_SZ`, `HTX_HT_SIZE_OFFSET`, `HTX_ITEM_COUNT_OFFSET` are the constants of Consts.lean.
  `self.read_u8()` / `self.write_u8(v)` are `FileM.readU8` / `FileM.writeU8`; `v = call?;` re-binds `v`;
  `byte &= e;` / `byte |= e;` on a `u8` variable: `Nat.land` / `Nat.lor`, `!x` = `u8Not x`, `x << n` = `u8Shl x n`
  (below; literals are `u8`); `std::mem::size_of_val(&v)` is the size of the integer type of `v` (evident from
  `v = <primitive>()?`); `seek(SeekFrom::Current(-(n as i64)))` with `n: u32` is `FileM.seekBack n`.
* an unsigned subtraction `a - b` that the source does not guard (`idx -= 8 * 8`, `idx - 8`) is preceded by
  `if a < b then FileM.fail` (a debug build panics there, a release build wraps: outside the model); a division by
  something that is not a positive literal by `if b == 0 then FileM.fail` (Rust panics).
* statistics: the trait `PieceA<T>` (piece.rs, definition pinned) is the structure `PieceA` below, its two
  implementations (`impl PieceA<Key> for KeyFile<KT>`, `impl PieceA<Value> for ValueFile`: `let mut file =
  self.0.borrow_mut();` pinned and dropped, `file.0` is the file) the values `keyPieceA` / `valPieceA` at the end of the
  file; `DAT_HEADER_SZ`, `REC_SIZE_ARY` are the constants of Consts.lean.  The walk `PieceOffsetIter<T>` (`new`,
  `next_piece_offset`): the struct (definition pinned) is the explicit tuple `st = (piece_offset_start, piece_offset_end,
  piece_offset)` (parameter and second component of the value of the `&mut self` method, value of `new`), its
  `file_a: Box<dyn PieceA<T>>` the parameter `fileA : PieceA` (`self.file_a.m(..)` = `fileA.m …`).
* `for x in a { … }` over a constant array and `for i in 0..n { … }` (no `return` / `break` / `continue`): an auxiliary
  function, structurally recursive on the list (`List.range n`), over the variables the body assigns; a local
  `Vec::new()` of pairs with `v.push((a, b));` is a `List (Nat × Nat)` (`v ++ [(a, b)]`).
  `count_of_free_key_piece` / `count_of_free_value_piece` are methods of the handles `KeyFile<KT>` / `ValueFile`
  (`let mut locked = self.0.borrow_mut();` pinned and dropped, `locked.0` is the file).
* create / open.  `set_file_length` is `self.buf_file.set_len(n)` = `FileM.setLen n` (truncate / extend with zeros, the
  cursor clamped).  The free functions `write_keyrecf_init_header`, `check_keyrecf_header`, `write_valrecf_init_header`,
  `check_valrecf_header`, `write_htxf_init_header`, `check_htxf_header` (`file: &mut VarFile` is the file of the monad;
  `HeaderSignature` = `[u8; 8]`, pinned, is a `List Nat`): `[0u8, …]` / `[0u8; N]` are the lists, `DAT_HEADER_SIGNATURE` /
  `HTX_HEADER_SIGNATURE` the constants `keySig1` / `valSig1` / `htxSig1` of Consts.lean, `a == b` on byte arrays is `==` on
  the lists, `assert!(c, msg)` is `if !c then FileM.fail`.  `file.read_exact(&mut buf)?;` with `buf` a local array
  `let mut buf = [0u8, …];` of `N` elements is `let buf ← FileM.readPad N`: `impl Read for VarFile` has `read` =
  `self.buf_file.read(buf)` only (checked), so `read_exact` is std's default loop over rabuf's `read`, which copies out of
  the chunk of the cursor, never returns 0 bytes and does not look at the end of the file (`RaBuf.read` / `RaBuf.readExact`):
  at the end of a short file the buffer is filled with the zero padding of the chunk, there is no `UnexpectedEof`.  The
  strict `FileM.readBytes` would be wrong here.  (`write_all` likewise: `impl Write for VarFile` has `write` and `flush` only.)
  `KeyFile<KT>::open_with_params` -> `keyOpen`, `ValueFile::open_with_params` -> `valOpen`, `HtxFile::open_with_params` ->
  `htxOpen`: only the part from `let file_length … = file.seek_to_end()?;` on is translated; the statements in front of it
  (the piece manager, the path, `OpenOptions`, the `match params.<f>_buf_size` that builds the buffer `file`) are compared
  token-wise with the configured text on every run and dropped; `path`, `ks_name` are no parameters, `params` is its field
  `buckets_size` (`p : HashBucketsParam`; no parameter where the translated part does not read it).  A local cache struct
  around the file (`let file_rc = VarFileKeyCache(file, PhantomData);`, `let mut file_nc = VarFileHtxCache::new(file);`,
  constructor pinned: `buckets_size: 0`) is erased: `file_nc.file` is the file, `file_nc.buckets_size` a local variable; the
  value `Ok(Self(Rc::new(RefCell::new(c))))` (the handle) is the data of `c`: `()` resp. the `buckets_size`.
  `let buckets_size = match params.buckets_size { … };` is `bucketsOf p` of Funcs.lean (the translation of exactly this
  statement; `none` = `capacity_to_buckets_size(0)` panics = `FileM.fail`).
* `read_fill_buffer`: `VarFile::read_fill_buffer` (`self.buf_file.read_fill_buffer()`: the bottom primitive `FileM.readFill` — the
  cursor goes to the end of the file, the bytes stay; what is loaded into the buffer is not part of the flat file) and the
  `read_fill_buffer` of the three handles `KeyFile<KT>`, `ValueFile`, `HtxFile` above it.
-/
"""


TOUCH_PRELUDE = """/-- `slice::binary_search_by_key(&x, |&(a, _b)| a)` on a vector of pairs that is sorted by the first components, all
distinct: `.ok i` is Rust's `Ok(i)` (`v[i].0 == x`), `.error i` is `Err(i)` (`i` = the number of elements with a smaller
first component = the place where `x` can be inserted keeping the order).  Structural (a scan from the left): on such a
vector this is the value of the binary search; other vectors are outside the model (`touch_size` / `touch_length`
keep their vector sorted and without duplicates). -/
def binarySearchByKey : List (Nat × Nat) → Nat → Except Nat Nat
  | [], _ => .error 0
  | (a, _) :: rest, x =>
    if a = x then .ok 0
    else if x < a then .error 0
    else match binarySearchByKey rest x with
      | .ok i => .ok (i + 1)
      | .error i => .error (i + 1)

/-- `Vec::insert(i, e)` (`i ≤ len`, as for the `Err(i)` of a binary search; Rust panics otherwise, here `e` is appended) -/
def listInsertAt : List (Nat × Nat) → Nat → Nat × Nat → List (Nat × Nat)
  | l, 0, e => e :: l
  | [], _+1, e => [e]
  | x :: rest, i+1, e => x :: listInsertAt rest i e

/-- `v[i].1` (`i < len`, as for the `Ok(i)` of a binary search; Rust panics otherwise, here 0) -/
def listGetSnd : List (Nat × Nat) → Nat → Nat
  | [], _ => 0
  | (_, b) :: _, 0 => b
  | _ :: rest, i+1 => listGetSnd rest i

/-- `v[i].1 = b` (`i < len`; Rust panics otherwise, here nothing changes) -/
def listSetSnd : List (Nat × Nat) → Nat → Nat → List (Nat × Nat)
  | [], _, _ => []
  | (a, _) :: rest, 0, b => (a, b) :: rest
  | x :: rest, i+1, b => x :: listSetSnd rest i b

"""

# ----------------------------------------------------------------------------- generic API wrappers (lib.rs `trait DbXxx<KT>`)
# the default methods of `trait DbXxx<KT>` -> Abyss/Gen/ApiOps.lean, monad `Abyss.ApiM σ` (Abyss/ApiM.lean) over an abstract
# map state `σ`, parametrised by the four object-safe calls (`KtOps σ`)
API_LIB = "src/lib.rs"
API_TRAIT = "pub trait DbXxx<KT: DbMapKeyType>: DbXxxObjectSafe<KT>"
API_OBJSAFE = "pub trait DbXxxObjectSafe<KT: DbMapKeyType>: DbXxxBase"
API_DBMAP = "src/filedb/dbmap/mod.rs"
API_WHERE = {"<'a, Q>": "where KT: From<&'a Q>, Q: Ord + ?Sized,", "<T>": "where T: Iterator<Item = (KT, Vec<u8>)>,"}
# type tags: "Q" a borrowed key `&'a Q`, "K" a key `KT`, "B" bytes (`&[u8]`, `Vec<u8>`), "S" a `String` / `&str` (its UTF-8
# bytes): all four are `List Nat`; "N" `usize`; "U" `()`; "Bool"; ("opt", t); ("list", t); ("pair", a, b); ("var", n)
API_TVARS = {"<'a, Q>": {}, "<T>": {"T": ("list", ("pair", "K", "B"))}}          # `T: Iterator<Item = (KT, Vec<u8>)>`: the items in order
# the object-safe calls: Rust name -> (field of `KtOps`, pinned declaration, parameter types, value type)
API_PRIMS = {
    "get_kt": ("getKt", "fn get_kt(&mut self, key: &KT) -> Result<Option<Vec<u8>>>;", ["K"], ("opt", "B")),
    "put_kt": ("putKt", "fn put_kt(&mut self, key: &KT, value: &[u8]) -> Result<()>;", ["K", "B"], "U"),
    "del_kt": ("delKt", "fn del_kt(&mut self, key: &KT) -> Result<Option<Vec<u8>>>;", ["K"], ("opt", "B")),
    "includes_key_kt": ("includesKt", "fn includes_key_kt(&mut self, key: &KT) -> Result<bool>;", ["K"], "Bool"),
}
# translated in this order (a callee before its callers)
API_FUNCS = [("get", "apiGet"), ("put", "apiPut"), ("delete", "apiDelete"), ("includes_key", "apiIncludesKey"),
             ("bulk_get", "apiBulkGet"), ("bulk_put", "apiBulkPut"), ("bulk_delete", "apiBulkDelete"),
             ("put_from_iter", "apiPutFromIter"),
             ("get_string", "apiGetString"), ("put_string", "apiPutString"), ("delete_string", "apiDeleteString"),
             ("bulk_get_string", "apiBulkGetString"), ("bulk_put_string", "apiBulkPutString"),
             ("bulk_delete_string", "apiBulkDeleteString")]
# the configured names of their parameters (the Lean parameters are called after them; a parameter that the source calls
# otherwise is renamed, in the body too)
API_PNAMES = {"get": ["key"], "put": ["key", "value"], "delete": ["key"], "includes_key": ["key"], "bulk_get": ["bulk_keys"],
              "bulk_put": ["bulk"], "bulk_delete": ["bulk_keys"], "put_from_iter": ["iter"], "get_string": ["key"],
              "put_string": ["key", "value"], "delete_string": ["key"], "bulk_get_string": ["bulk_keys"],
              "bulk_put_string": ["bulk"], "bulk_delete_string": ["bulk_keys"]}
# function parameters of the generated functions, in this order after `ops`
API_EXTRA = [("sortDesc", "List (Nat × List Nat) → List (Nat × List Nat)"),
             ("sortDescPairs", "List (List Nat × List Nat) → List (List Nat × List Nat)"),
             ("lossy", "List Nat → List Nat")]
API_RESERVED = ("ops", "fuel", "loopRest", "sortDesc", "sortDescPairs", "lossy", "σ")


def api_type(text, where, tvars):
    """a Rust type (token texts or their concatenation) -> type tag"""
    ts = []
    for _k, v in tokenize(text) if isinstance(text, str) else [(None, x) for x in text]:
        ts += [">", ">"] if v == ">>" else [v]
    pos = [0]

    def peek():
        return ts[pos[0]] if pos[0] < len(ts) else None

    def nxt():
        pos[0] += 1
        return ts[pos[0] - 1] if pos[0] <= len(ts) else None

    def expect(v):
        if nxt() != v:
            fail("%s: type `%s` is outside the subset of the API wrappers" % (where, "".join(ts)))

    def ty():
        v = nxt()
        if v == "&":
            if peek() == "'":
                nxt()
                nxt()
            return ty()
        if v == "(":
            if peek() == ")":
                nxt()
                return "U"
            a = ty()
            expect(",")
            b = ty()
            if peek() == ",":
                nxt()
            expect(")")
            return ("pair", a, b)
        if v == "[":
            e = ty()
            expect("]")
            return "B" if e == "u8" else ("list", e)
        if v in ("Vec", "Option"):
            expect("<")
            e = ty()
            expect(">")
            if v == "Vec":
                return "B" if e == "u8" else ("list", e)
            return ("opt", e)
        if v in tvars:
            return tvars[v]
        simple = {"usize": "N", "u8": "u8", "bool": "Bool", "String": "S", "str": "S", "Q": "Q", "KT": "K"}
        if v in simple:
            return simple[v]
        fail("%s: type `%s` is outside the subset of the API wrappers (at `%s`)" % (where, "".join(ts), v))

    t = ty()
    if pos[0] != len(ts) or "u8" in repr(t):
        fail("%s: type `%s` is outside the subset of the API wrappers" % (where, "".join(ts)))
    return t


def api_parse_sig(toks, where):
    """tokens `fn name <generics> ( &mut self , a : T , … ) -> Result<R> where … {` of a default method of `trait DbXxx<KT>`:
    ([(parameter, type tag)], type tag of R, index of the body `{`); the generics and the `where` clause must be one of
    the two configured ones (`<'a, Q>` with `KT: From<&'a Q>`: a borrowed key that converts into `KT`; `<T>`: an iterator of
    `(KT, Vec<u8>)`)"""
    tv = [v for _k, v in toks]
    i = 2
    gen = None
    for g in API_WHERE:
        gt = [v for _k, v in tokenize(g)]
        if tv[i:i + len(gt)] == gt:
            gen, i = g, i + len(gt)
    if gen is None or tv[i:i + 4] != ["(", "&", "mut", "self"]:
        fail("%s: the signature does not start with `fn name<'a, Q>(&mut self` / `fn name<T>(&mut self`" % where)
    i += 4
    params = []
    while tv[i] != ")":
        if tv[i] == ",":
            i += 1
            continue
        name = tv[i]
        if toks[i][0] != "id" or tv[i + 1] != ":":
            fail("%s: unsupported parameter at `%s`" % (where, name))
        i += 2
        ty, depth = [], 0
        while not (depth == 0 and tv[i] in (",", ")")):
            depth += (tv[i] in ("<", "(", "[")) - (tv[i] in (">", ")", "]")) - 2 * (tv[i] == ">>")
            ty.append(tv[i])
            i += 1
        params.append((name, api_type(ty, "%s, parameter `%s`" % (where, name), API_TVARS[gen])))
    i += 1
    if tv[i] != "->":
        fail("%s: no return type" % where)
    i += 1
    j = i
    while tv[j] not in ("where", "{"):
        j += 1
    ret = []
    for v in tv[i:j]:
        ret += [">", ">"] if v == ">>" else [v]
    if ret[:2] != ["Result", "<"] or ret[-1] != ">":
        fail("%s: the return type `%s` is not a `Result<…>`" % (where, "".join(tv[i:j])))
    rty = api_type(ret[2:-1], where + ", return type", API_TVARS[gen])
    k = j
    while tv[k] != "{":
        k += 1
    if tv[j:k] != [v for _k, v in tokenize(API_WHERE[gen])]:
        fail("%s: the `where` clause is `%s`, the translation is configured for `%s`" % (where, " ".join(tv[j:k]), API_WHERE[gen]))
    return params, rty, k


class EmitApi:
    """one default method of `trait DbXxx<KT>` -> a `def` in `ApiM σ` (and the auxiliary functions of its loops)"""

    def __init__(self, rust, lean, where, src, params, rty, sigs):
        self.rust, self.lean, self.where, self.src, self.params, self.rty, self.sigs = rust, lean, where, src, params, rty, sigs
        self.env = {}                 # Rust variable -> type tag
        self.order = []               # … in the order of declaration
        self.tv = {}                  # bindings of type variables (`Vec::new()` without an annotation)
        self.tyrefs = []              # types whose Lean text is filled in at the end (`\x01n\x01` in the lines)
        self.mut = set()              # variables the statements translated so far mutate (`push`, `pop`, `sort…`)
        self.used = set()             # `ops` / the function parameters of API_EXTRA the statements translated so far use
        self.aux = []                 # texts of the loop functions
        self.notes = []
        self.depth = 0                # nesting depth of loops
        self.nloop = 0
        for n, t in params:
            self.declare(n, t)
            if rust == "put_from_iter" or t == API_TVARS["<T>"]["T"] and n == "iter":
                self.notes.append("`%s: T` (`T: Iterator<Item = (KT, Vec<u8>)>`) is the list of its items, in iteration order" % n)

    # ---- types
    def fresh(self):
        self.tv[len(self.tv)] = None
        return ("var", len(self.tv) - 1)

    def res(self, t):
        if isinstance(t, tuple):
            if t[0] == "var":
                return self.res(self.tv[t[1]]) if self.tv[t[1]] is not None else t
            return (t[0],) + tuple(self.res(x) for x in t[1:])
        return t

    def unify(self, a, b, what):
        a, b = self.res(a), self.res(b)
        if isinstance(a, tuple) and a[0] == "var":
            if a != b:
                self.tv[a[1]] = b
            return
        if isinstance(b, tuple) and b[0] == "var":
            self.tv[b[1]] = a
            return
        if isinstance(a, tuple) and isinstance(b, tuple) and a[0] == b[0] and len(a) == len(b):
            for x, y in zip(a[1:], b[1:]):
                self.unify(x, y, what)
            return
        if a != b:
            fail("%s: %s: type `%s` where `%s` is expected" % (self.where, what, self.show(a), self.show(b)))

    def show(self, t):
        t = self.res(t)
        if isinstance(t, tuple):
            if t[0] == "var":
                return "_"
            return {"opt": "Option<%s>", "list": "Vec<%s>", "pair": "(%s, %s)"}[t[0]] % tuple(self.show(x) for x in t[1:])
        return {"Q": "&Q", "K": "KT", "B": "[u8]", "S": "String", "N": "usize", "U": "()", "Bool": "bool"}[t]

    def lean_ty(self, t):
        t = self.res(t)
        if isinstance(t, tuple):
            if t[0] == "var":
                fail("%s: the element type of a `Vec::new()` is never determined (no `push`)" % self.where)
            if t[0] == "pair":
                a, b = self.lean_ty(t[1]), self.lean_ty(t[2])
                return "%s × %s" % (io_atom(a) if self.res(t[1])[0:1] == ("pair",) else a, b)
            return {"opt": "Option ", "list": "List "}[t[0]] + io_atom(self.lean_ty(t[1]))
        return {"Q": "List Nat", "K": "List Nat", "B": "List Nat", "S": "List Nat", "N": "Nat", "U": "Unit", "Bool": "Bool"}[t]

    def ty(self, t):
        """placeholder of the Lean text of type `t`"""
        self.tyrefs.append(t)
        return "\x01%d\x01" % (len(self.tyrefs) - 1)

    def fill(self, text):
        return re.sub("\x01(\\d+)\x01", lambda m: self.lean_ty(self.tyrefs[int(m.group(1))]), text)

    # ---- variables
    def declare(self, v, t):
        if io_ident(v) in API_RESERVED or v == "self":
            fail("%s: the variable `%s` collides with a name the translation uses" % (self.where, v))
        self.env[v] = t
        if v not in self.order:
            self.order.append(v)

    def var(self, e, what):
        if not (e[0] == "path" and len(e[1]) == 1 and e[1][0] in self.env):
            fail("%s: %s: not a local variable / parameter" % (self.where, what))
        return e[1][0]

    def scoped(self, binds, f):
        """run `f` with the variables `binds` [(name, type)] in scope (closure parameters, loop variables)"""
        saved_env, saved_order = dict(self.env), list(self.order)
        for n, t in binds:
            self.declare(n, t)
        r = f()
        self.env, self.order = saved_env, saved_order
        return r

    # ---- pure expressions
    def ex(self, e):
        """(Lean text, type tag) of an expression without effects"""
        k = e[0]
        if k == "num":
            return str(e[1]), "N"
        if k == "path":
            if len(e[1]) == 1 and e[1][0] in self.env:
                return io_ident(e[1][0]), self.env[e[1][0]]
            fail("%s: `%s` is not a local variable / parameter" % (self.where, "::".join(e[1])))
        if k == "field":
            t, ty = self.ex(e[1])
            ty = self.res(ty)
            if not (isinstance(ty, tuple) and ty[0] == "pair" and e[2] in ("0", "1")):
                fail("%s: `.%s` on a value of type `%s` (only `.0` / `.1` of a pair)" % (self.where, e[2], self.show(ty)))
            return "%s.%d" % (io_atom(t), int(e[2]) + 1), ty[1 + int(e[2])]
        if k == "tuple" and len(e[1]) == 2:
            (a, ta), (b, tb) = self.ex(e[1][0]), self.ex(e[1][1])
            return "(%s, %s)" % (a, b), ("pair", ta, tb)
        if k == "call" and e[1] == ["Vec", "new"] and not e[2]:
            return "[]", ("list", self.fresh())
        if k == "mcall":
            recv, name, args = e[1], e[2], e[3]
            if (name == "to_string" and not args and recv[0] == "call" and recv[1] == ["String", "from_utf8_lossy"]
                    and len(recv[2]) == 1):
                t, ty = self.ex(recv[2][0])
                self.unify(ty, "B", "the argument of `String::from_utf8_lossy`")
                self.used.add("lossy")
                return "lossy %s" % io_atom(t), "S"
            if name == "collect" and not args:
                return self.collect(recv)
            if name == "clone" and not args:
                return self.ex(recv)
            if name == "to_vec" and not args:
                t, ty = self.ex(recv)
                if not (self.res(ty) == "B" or self.res(ty)[0:1] == ("list",)):
                    fail("%s: `.to_vec()` on a value of type `%s`" % (self.where, self.show(ty)))
                return t, ty
            if name == "as_bytes" and not args:
                t, ty = self.ex(recv)
                self.unify(ty, "S", "the receiver of `.as_bytes()`")
                return t, "B"
            if name == "map" and len(args) == 1 and args[0][0] == "closure":
                t, ty = self.ex(recv)
                ty = self.res(ty)
                if not (isinstance(ty, tuple) and ty[0] == "opt"):
                    fail("%s: `.map(|…| …)` on a value of type `%s` (only on an `Option`, or on the `Result` of a call in last "
                         "position)" % (self.where, self.show(ty)))
                p, body, bty = self.closure1(args[0], ty[1])
                return "%s.map fun %s => %s" % (io_atom(t), p, body), ("opt", bty)
        fail("%s: expression outside the subset of the API wrappers: `%s`" % (self.where, self.rs(e)))

    def closure1(self, c, pty):
        """`|x| body` with a pure body: (Lean name of x, Lean text of the body, its type)"""
        if not (len(c[1]) == 1 and c[1][0][0] == "pvar"):
            fail("%s: a closure that does not have exactly one plain parameter" % self.where)
        x = c[1][0][1]
        body, bty = self.scoped([(x, pty)], lambda: self.ex(c[2]))
        return io_ident(x), body, bty

    def collect(self, r):
        """`<r>.collect()`"""
        if r[0] == "mcall" and r[2] == "map" and len(r[3]) == 1 and r[3][0][0] == "closure":
            c, src = r[3][0], r[1]
            if src[0] == "mcall" and src[2] == "enumerate" and not src[3] and src[1][0] == "mcall" and src[1][2] == "iter" \
                    and not src[1][3]:
                # `xs.iter().enumerate().map(|(i, &a)| (i, a)).collect()`
                ps = c[1]
                if not (len(ps) == 1 and ps[0][0] == "ptuple" and [p[0] for p in ps[0][1]] == ["pvar", "pvar"]
                        and c[2] == ("tuple", [("path", [ps[0][1][0][1]]), ("path", [ps[0][1][1][1]])])):
                    fail("%s: the closure after `.iter().enumerate()` is not `|(i, &a)| (i, a)`" % self.where)
                t, ty = self.ex(src[1][1])
                ty = self.res(ty)
                if not (isinstance(ty, tuple) and ty[0] == "list"):
                    fail("%s: `.iter().enumerate()` on a value of type `%s`" % (self.where, self.show(ty)))
                return "ApiM.enumerate %s" % io_atom(t), ("list", ("pair", "N", ty[1]))
            if src[0] == "mcall" and src[2] == "iter" and not src[3]:
                # `xs.iter().map(|a| e).collect()`
                t, ty = self.ex(src[1])
                ty = self.res(ty)
                if not (isinstance(ty, tuple) and ty[0] == "list"):
                    fail("%s: `.iter().map(…)` on a value of type `%s`" % (self.where, self.show(ty)))
                p, body, bty = self.closure1(c, ty[1])
                return "%s.map fun %s => %s" % (io_atom(t), p, body), ("list", bty)
        fail("%s: `.collect()` of something else than `xs.iter().enumerate().map(|(i, &a)| (i, a))` / `xs.iter().map(|a| …)`"
             % self.where)

    def rs(self, e):
        """a rough Rust rendering for error messages"""
        k = e[0]
        if k == "path":
            return "::".join(e[1])
        if k == "num":
            return str(e[1])
        if k == "field":
            return "%s.%s" % (self.rs(e[1]), e[2])
        if k == "mcall":
            return "%s.%s(%s)" % (self.rs(e[1]), e[2], ", ".join(self.rs(a) for a in e[3]))
        if k == "call":
            return "%s(%s)" % ("::".join(e[1]), ", ".join(self.rs(a) for a in e[2]))
        if k == "tuple":
            return "(%s)" % ", ".join(self.rs(a) for a in e[1])
        if k == "try":
            return self.rs(e[1]) + "?"
        if k == "closure":
            return "|…| " + self.rs(e[2])
        return "<%s>" % k

    # ---- calls with a `Result`
    def is_self_call(self, e):
        return e[0] == "mcall" and e[1] == ("path", ["self"])

    def call(self, e):
        """`self.m(args)` with `m` an object-safe call or a default method translated before: (Lean text, type of the `Ok`)"""
        name = e[2]
        if name in API_PRIMS:
            fld, _decl, ptys, rty = API_PRIMS[name]
            head, extra = "ops.%s" % fld, []
            self.used.add("ops")
        elif name in self.sigs:
            lean, ptys, rty, extra = self.sigs[name]
            head = "%s ops" % lean
            self.used.add("ops")
            self.used.update(extra)
        else:
            fail("%s: call of `self.%s`: neither one of `get_kt`, `put_kt`, `del_kt`, `includes_key_kt` nor a default method of "
                 "the trait that is translated before this one" % (self.where, name))
        if len(e[3]) != len(ptys):
            fail("%s: `self.%s` with %d arguments" % (self.where, name, len(e[3])))
        args = []
        for a, pt in zip(e[3], ptys):
            t, ty = self.ex(a)
            self.unify(ty, pt, "argument `%s` of `self.%s`" % (self.rs(a), name))
            args.append(io_atom(t))
        return " ".join([head] + extra + args), rty

    # ---- statements
    def sorter(self, v, name, c):
        """`v.sort_by(c)` / `v.sort_unstable_by(c)`: the Lean function that sorts"""
        ety = self.res(self.env[v])
        if not (isinstance(ety, tuple) and ety[0] == "list" and isinstance(self.res(ety[1]), tuple) and self.res(ety[1])[0] == "pair"):
            fail("%s: `%s.%s(..)` on a value of type `%s` (only a vector of pairs)" % (self.where, v, name, self.show(ety)))
        pair = self.res(ety[1])
        ps = c[1]
        if not (c[0] == "closure" and len(ps) == 2 and ps[0][0] == "pvar" and ps[1][0] == "pvar" and c[2][0] == "mcall"
                and c[2][2] == "cmp" and len(c[2][3]) == 1 and c[2][1][0] == "field" and c[2][3][0][0] == "field"
                and c[2][1][2] == c[2][3][0][2] and c[2][1][2] in ("0", "1")
                and c[2][1][1][0] == "path" and c[2][3][0][1][0] == "path"):
            fail("%s: the comparison of `%s.%s(..)` is not `|a, b| x.F.cmp(y.F)` with `x`, `y` the two parameters and `F` = 0 / 1"
                 % (self.where, v, name))
        a, b, f = ps[0][1], ps[1][1], int(c[2][1][2])
        lhs, rhs = c[2][1][1][1], c[2][3][0][1][1]
        fty = pair[1 + f]
        if [lhs, rhs] == [[b], [a]] and fty == "Q":
            # descending by key: a function parameter, of which only `Perm` is assumed
            other = pair[2 - f]
            pname = "sortDesc" if (f == 1 and other == "N") else ("sortDescPairs" if (f == 0 and other in ("B", "S")) else None)
            if pname is None:
                fail("%s: `%s.%s(..)`: descending by key on a vector of `%s`" % (self.where, v, name, self.show(pair)))
            self.used.add(pname)
            self.notes.append("`%s.%s(|%s, %s| %s.%d.cmp(%s.%d))` (descending by key, %s; the following `while let Some(_) = %s.pop()` "
                              "takes the keys in ascending order) is the parameter `%s`: of the sort only `∀ l, (%s l).Perm l` is "
                              "assumed (no property of the map depends on the processing order)"
                              % (v, name, a, b, b, f, a, f, "stable" if name == "sort_by" else "not stable", v, pname, pname))
            return pname
        if [lhs, rhs] == [[a], [b]] and fty == "N" and f == 0 and name == "sort_by":
            self.notes.append("`%s.sort_by(|%s, %s| %s.0.cmp(&(%s.0)))` (stable, ascending by the remembered index) is "
                              "`ApiM.sortByIdx`" % (v, a, b, a, b))
            return "ApiM.sortByIdx"
        fail("%s: `%s.%s(..)` is neither the descending sort by key (`|a, b| b.F.cmp(a.F)`, `F` the key) nor the stable ascending "
             "sort by index (`sort_by(|a, b| a.0.cmp(&(b.0)))`)" % (self.where, v, name))

    def stmts(self, sts, tail):
        """do-items of the statements `sts` (`tail`: what follows them in their block, for the `_` of unused loop results)"""
        out = []
        for n, st in enumerate(sts):
            later = (sts[n + 1:], tail)
            k = st[0]
            if k == "let":
                out += self.let(st)
            elif k == "expr" and st[1][0] == "try":
                if not self.is_self_call(st[1][1]):
                    fail("%s: `%s;`: not a call `self.m(..)?`" % (self.where, self.rs(st[1])))
                t, ty = self.call(st[1][1])
                self.unify(ty, "U", "the value of the statement `%s;`" % self.rs(st[1]))
                out.append(t)
            elif k == "expr" and st[1][0] == "mcall" and st[1][2] == "push" and len(st[1][3]) == 1:
                v = self.var(st[1][1], "the receiver of `.push(..)`")
                t, ty = self.ex(st[1][3][0])
                self.unify(self.env[v], ("list", ty), "`%s.push(%s)`" % (v, self.rs(st[1][3][0])))
                self.mut.add(v)
                out.append("let %s := %s ++ [%s]" % (io_ident(v), io_ident(v), t))
            elif k == "expr" and st[1][0] == "mcall" and st[1][2] in ("sort_by", "sort_unstable_by") and len(st[1][3]) == 1:
                v = self.var(st[1][1], "the receiver of `.%s(..)`" % st[1][2])
                f = self.sorter(v, st[1][2], st[1][3][0])
                self.mut.add(v)
                out.append("let %s := %s %s" % (io_ident(v), f, io_ident(v)))
            elif (k == "expr" and st[1][0] == "mcall" and st[1][2] == "sort_by_key" and len(st[1][3]) == 1
                  and st[1][3][0][0] == "closure" and len(st[1][3][0][1]) == 1 and st[1][3][0][1][0][0] == "pvar"
                  and st[1][3][0][2] == ("field", ("path", [st[1][3][0][1][0][1]]), "0")):
                # `v.sort_by_key(|a| a.0)` (stable, ascending by the first component) = `v.sort_by(|a, b| a.0.cmp(&b.0))`
                v = self.var(st[1][1], "the receiver of `.sort_by_key(..)`")
                ety = self.res(self.env[v])
                if not (isinstance(ety, tuple) and ety[0] == "list" and isinstance(self.res(ety[1]), tuple)
                        and self.res(ety[1])[0] == "pair" and self.res(ety[1])[1] == "N"):
                    fail("%s: `%s.sort_by_key(|a| a.0)` on a value of type `%s` (only a vector of pairs whose first component is the "
                         "remembered index)" % (self.where, v, self.show(ety)))
                self.notes.append("`%s.sort_by_key(|a| a.0)` (stable, ascending by the remembered index) is `ApiM.sortByIdx`" % v)
                self.mut.add(v)
                out.append("let %s := ApiM.sortByIdx %s" % (io_ident(v), io_ident(v)))
            elif k == "whilelet":
                out += self.loop(st, later, True)
            elif k == "for":
                out += self.loop(st, later, False)
            else:
                fail("%s: statement outside the subset of the API wrappers (`let`, `self.m(..)?;`, `v.push(e);`, `v.sort_by(..);` / "
                     "`v.sort_unstable_by(..);`, `while let Some(x) = v.pop() { … }`, `for p in v { … }`): %s"
                     % (self.where, self.rs(st[1]) if k == "expr" else "`%s`" % k))
        return out

    def let(self, st):
        _k, pat, ann, e, _mut = st
        if pat[0] != "pvar":
            fail("%s: `let` with a pattern" % self.where)
        v = pat[1]
        if e[0] == "call" and e[1] == ["From", "from"] and len(e[2]) == 1:
            # `let key_kt: KT = From::from(key);`
            if ann != "KT":
                fail("%s: `let %s = From::from(..)` without the annotation `: KT`" % (self.where, v))
            t, ty = self.ex(e[2][0])
            if not (e[2][0][0] == "path" and self.res(ty) == "Q" and e[2][0][1][0] in [p for p, _t in self.params]):
                fail("%s: the argument of `From::from` is not a parameter of type `&'a Q`" % self.where)
            self.notes.append("`let %s: KT = From::from(%s);` (`KT: From<&'a Q>`) is the identity: a key, borrowed or converted, "
                              "is its bytes" % (v, t))
            self.declare(v, "K")
            return ["let %s : %s := %s" % (io_ident(v), self.ty("K"), t)]
        if e[0] == "try":
            if not self.is_self_call(e[1]):
                fail("%s: `let %s = %s;`: not a call `self.m(..)?`" % (self.where, v, self.rs(e)))
            t, ty = self.call(e[1])
            if ann is not None:
                self.unify(ty, api_type(ann, self.where, {}), "the annotation of `let %s`" % v)
            self.declare(v, ty)
            return ["let %s ← %s" % (io_ident(v), t)]
        if self.is_self_call(e):
            fail("%s: `let %s = %s;`: the `Result` of a call bound without `?`" % (self.where, v, self.rs(e)))
        t, ty = self.ex(e)
        if ann is not None:
            self.unify(ty, api_type(ann, self.where, {}), "the annotation of `let %s`" % v)
        self.declare(v, ty)
        return ["let %s : %s := %s" % (io_ident(v), self.ty(ty), t)]

    def loop(self, st, later, is_pop):
        """`while let Some(x) = v.pop() { … }` (a function recursive on fuel: every round removes one element) /
        `for p in v { … }` (a function structurally recursive on the list), over the variables the body mutates"""
        if is_pop:
            _k, pat, scrut, body = st
            if not (pat[0] == "pctor" and pat[1] == "Some" and len(pat[2]) == 1 and pat[2][0][0] == "pvar"
                    and scrut[0] == "mcall" and scrut[2] == "pop" and not scrut[3]):
                fail("%s: a `while let` that is not `while let Some(x) = v.pop()`" % self.where)
            v = self.var(scrut[1], "the receiver of `.pop()`")
            lty = self.res(self.env[v])
            if not (isinstance(lty, tuple) and lty[0] == "list"):
                fail("%s: `%s.pop()` on a value of type `%s`" % (self.where, v, self.show(lty)))
            binds = [(pat[2][0][1], lty[1])]
        else:
            _k, pat, it, body = st
            v = self.var(it, "what a `for` iterates over")
            lty = self.res(self.env[v])
            if not (isinstance(lty, tuple) and lty[0] == "list"):
                fail("%s: `for … in %s` over a value of type `%s`" % (self.where, v, self.show(lty)))
            ety = self.res(lty[1])
            if pat[0] == "pvar":
                binds, lpat = [(pat[1], ety)], io_ident(pat[1])
            elif (pat[0] == "ptuple" and [p[0] for p in pat[1]] == ["pvar", "pvar"] and isinstance(ety, tuple) and ety[0] == "pair"):
                binds = [(pat[1][0][1], ety[1]), (pat[1][1][1], ety[2])]
                lpat = "(%s, %s)" % (io_ident(pat[1][0][1]), io_ident(pat[1][1][1]))
            else:
                fail("%s: the pattern of `for … in %s` does not fit the element type `%s`" % (self.where, v, self.show(ety)))
        if body[2] is not None:
            fail("%s: a loop body with a value" % self.where)
        for n in io_walk(body):
            if (n[0] in ("return", "returnx")) or (n[0] == "path" and n[1] in (["break"], ["continue"])):
                fail("%s: `return` / `break` / `continue` inside a loop" % self.where)
        outer = list(self.order)
        saved_mut, saved_used = self.mut, self.used
        self.mut, self.used = set(), set()
        self.depth += 1
        lines = self.scoped(binds, lambda: self.stmts(body[1], None))
        self.depth -= 1
        body_mut, body_used = self.mut, self.used
        if is_pop:
            body_mut.add(v)
        elif v in body_mut:
            fail("%s: the loop over `%s` mutates it" % (self.where, v))
        for b, _t in binds:
            body_mut.discard(b)
        state = [x for x in outer if x in body_mut]
        if [x for x in body_mut if x not in outer]:
            fail("%s: internal: a loop mutates a variable declared inside it" % self.where)
        ro = [x for x in outer if x not in state and x != v and io_mentions_var(body, x)]
        self.mut, self.used = saved_mut | set(state), saved_used | body_used
        self.nloop += 1
        name = "%sLoop%s" % (self.lean, "" if self.nloop == 1 else str(self.nloop))
        ctx = (["(ops : KtOps σ)"] if "ops" in body_used else []) + \
              ["(%s : %s)" % (x, t) for x, t in API_EXTRA if x in body_used] + \
              ["(%s : %s)" % (io_ident(x), self.ty(self.env[x])) for x in ro]
        ctx_args = (["ops"] if "ops" in body_used else []) + [x for x, _t in API_EXTRA if x in body_used] + [io_ident(x) for x in ro]
        svars = [io_ident(x) for x in state]
        stys = [self.ty(self.env[x]) for x in state]
        rty = "Unit" if not state else " × ".join(
            ("(%s)" % t) if (len(state) > 1 and self.res(self.env[x])[0:1] == ("pair",)) else t for x, t in zip(state, stys))
        rval = "()" if not state else (svars[0] if len(state) == 1 else "(%s)" % ", ".join(svars))
        rec = " ".join([name] + ctx_args)
        if is_pop:
            x = io_ident(binds[0][0])
            text = ["def %s {σ : Type} %s: Nat → %s → ApiM σ %s" % (name, "".join(c + " " for c in ctx), " → ".join(stys), io_atom(rty)),
                    "  | 0%s => ApiM.fail" % "".join(", _" for _ in state),
                    "  | fuel + 1, %s =>" % ", ".join(svars),
                    "    match ApiM.pop %s with" % io_ident(v),
                    "    | some (%s, %s) => do" % (x, io_ident(v))] + ind(lines, 6) + \
                   ["      %s fuel %s" % (rec, " ".join(svars)),
                    "    | none => pure %s" % rval]
            doc = ("/-- the loop `while let Some(%s) = %s.pop() { … }` of `%s`: `ApiM.pop` takes the LAST element; every round removes one "
                   "element, the caller passes the fuel `%s.length + 1` (`fuel = 0` is never reached; it is `ApiM.fail`); value: the "
                   "variables the body assigns (%s) -/" % (binds[0][0], v, self.rust, io_ident(v), ", ".join("`%s`" % s for s in state)))
            callee = "%s (%s.length + 1) %s" % (rec, io_ident(v), " ".join(svars))
        else:
            text = ["def %s {σ : Type} %s: %s → ApiM σ %s" % (name, "".join(c + " " for c in ctx),
                                                         " → ".join([self.ty(lty)] + stys), io_atom(rty)),
                    "  | []%s => pure %s" % ("".join(", " + s for s in svars), rval),
                    "  | %s :: loopRest%s => do" % (lpat, "".join(", " + s for s in svars))] + ind(lines, 4) + \
                   ["    %s" % " ".join([rec, "loopRest"] + svars)]
            doc = ("/-- the loop `for … in %s { … }` of `%s`, in the order of the elements; structurally recursive on the list; value: "
                   "the variables the body assigns (%s) -/" % (v, self.rust, ", ".join("`%s`" % s for s in state) or "none"))
            callee = " ".join([rec, io_ident(v)] + svars)
        self.aux.append(doc + "\n" + "\n".join(text) + "\n")
        if not state:
            return [callee]
        live = [self.depth > 0 or io_mentions_var(later, x) for x in state]
        names = [s if l else "_" for s, l in zip(svars, live)]
        return ["let %s ← %s" % (names[0] if len(names) == 1 else "(%s)" % ", ".join(names), callee)]

    def tail(self, e):
        """the value of the function body, of type `Result<rty>`: do-items"""
        if e is None:
            fail("%s: the body has no value" % self.where)
        if e[0] == "call" and e[1] == ["Ok"] and len(e[2]) == 1:
            if e[2][0] == ("tuple", []):
                self.unify("U", self.rty, "the value `Ok(())`")
                return ["pure ()"]
            t, ty = self.ex(e[2][0])
            self.unify(ty, self.rty, "the value `Ok(%s)`" % self.rs(e[2][0]))
            return ["pure %s" % io_atom(t)]
        if self.is_self_call(e):
            t, ty = self.call(e)
            self.unify(ty, self.rty, "the value `%s`" % self.rs(e))
            return [t]
        if e[0] == "mcall" and e[2] == "map" and len(e[3]) == 1 and e[3][0][0] == "closure" and self.is_self_call(e[1]):
            # `self.m(..).map(|x| e)` on the `Result`: bind + pure
            t, ty = self.call(e[1])
            c = e[3][0]
            p, body, bty = self.closure1(c, ty)
            self.unify(bty, self.rty, "the value `%s`" % self.rs(e))
            return ["let %s ← %s" % (p, t), "pure %s" % io_atom(body)]
        fail("%s: the value of the body is none of `Ok(e)`, `self.m(..)`, `self.m(..).map(|x| e)`: `%s`" % (self.where, self.rs(e)))

    def function(self, body):
        lines = self.stmts(body[1], body[2]) + self.tail(body[2])
        extra = [x for x, _t in API_EXTRA if x in self.used]
        ps = ["(ops : KtOps σ)"] + ["(%s : %s)" % (x, t) for x, t in API_EXTRA if x in self.used] + \
             ["(%s : %s)" % (io_ident(n), self.lean_ty(t)) for n, t in self.params]
        doc = "/-- %s, `fn %s`%s -/" % (self.src, self.rust, ("; " + "; ".join(dict.fromkeys(self.notes))) if self.notes else "")
        text = "%s\ndef %s {σ : Type} %s : ApiM σ %s := do\n%s\n" % (
            doc, self.lean, " ".join(ps), io_atom(self.lean_ty(self.rty)), "\n".join(ind(lines)))
        return [self.fill(a) for a in self.aux] + [self.fill(text)], extra


def emit_apiops(repo, feats, out, methods):
    # ---- what the calls mean: the four object-safe declarations; nobody overrides a default method
    decl = io_find_methods(repo, feats, API_LIB, API_OBJSAFE)
    if sorted(decl) != sorted(API_PRIMS):
        fail("%s::<%s>: the methods are %s, the translation is configured for %s" % (API_LIB, API_OBJSAFE, sorted(decl), sorted(API_PRIMS)))
    for name, (_fld, want, _p, _r) in API_PRIMS.items():
        got = [v for _k, v in decl[name][0][0]] if len(decl[name]) == 1 else None
        if got is None or toks_eq_renamed(got, [v for _k, v in tokenize(want)]) is None:     # (up to the names of the parameters)
            fail("%s::<%s>::%s is `%s`, the translation is configured for `%s`" % (API_LIB, API_OBJSAFE, name, " ".join(got or ["?"]), want))
    io_pin_tokens(repo, API_DBMAP, "impl<KT: DbMapKeyType> DbXxx<KT> for FileDbMap<KT>",
                  "impl<KT: DbMapKeyType> DbXxx<KT> for FileDbMap<KT> {}",
                  "the implementation of `DbXxx<KT>` for the map handle (it must not override a default method)")
    impls = []
    for d, _ds, fs in sorted(os.walk(os.path.join(repo, "src"))):
        for f in sorted(fs):
            if f.endswith(".rs"):
                txt = strip_comments(open(os.path.join(d, f)).read())
                impls += [os.path.relpath(os.path.join(d, f), repo) for _m in re.finditer(r"\bimpl\b[^{;]*\bDbXxx\s*<[^{;]*\bfor\b", txt)]
    if impls != [API_DBMAP]:
        fail("implementations of `DbXxx<KT>` in %s: exactly one is expected, the (empty) one in %s" % (impls, API_DBMAP))
    found = io_find_methods(repo, feats, API_LIB, API_TRAIT)
    if sorted(found) != sorted(r for r, _l in API_FUNCS):
        fail("%s::<%s>: the default methods are %s, the translation is configured for %s"
             % (API_LIB, API_TRAIT, sorted(found), sorted(r for r, _l in API_FUNCS)))
    sigs, texts, listing = {}, [], []
    for rust, lean in API_FUNCS:
        where = "%s::<%s>::%s" % (API_LIB, API_TRAIT, rust)
        if len(found[rust]) != 1:
            fail("%s: %d definitions with a true `#[cfg]` (exactly one expected)" % (where, len(found[rust])))
        toks, blockdesc = found[rust][0]
        params, rty, ib = api_parse_sig(toks, where)
        pp = P(toks[ib:], feats, where)
        pp.keep_try = True
        pp.api = True
        body = pp.block()
        if pp.i != len(toks) - ib or pp.dropped or pp.kept:
            fail("%s: tokens after the body / `#[cfg]` statements" % where)
        if len(API_PNAMES[rust]) == len(params):
            body = rename_params(body, [n for n, _t in params], API_PNAMES[rust], where)      # the parameters under their configured names
            params = [(c, t) for c, (_n, t) in zip(API_PNAMES[rust], params)]
        em = EmitApi(rust, lean, where, "%s %s" % (API_LIB, blockdesc), params, rty, sigs)
        ts, extra = em.function(body)
        texts += ts
        sigs[rust] = (lean, [t for _n, t in params], rty, extra)
        listing.append(lean)
    with open(os.path.join(out, "ApiOps.lean"), "w") as fh:
        fh.write("import Abyss.ApiM\n")
        fh.write(API_HEADER)
        fh.write("namespace Abyss.Gen\nopen Abyss (ApiM KtOps)\n\n")
        fh.write("\n".join(texts))
        fh.write("\nend Abyss.Gen\n")
    return len(texts)


API_HEADER = """/-! GENERATED by tools/rs2lean.py from /repo — do not edit.
The generic API wrappers: the default methods of `trait DbXxx<KT>` (src/lib.rs: `get`, `put`, `delete`, `includes_key`,
`bulk_get`, `bulk_put`, `bulk_delete`, `put_from_iter` and the `…_string` variants) as functions in `Abyss.ApiM σ`
(Abyss/ApiM.lean): state = the map, of an ABSTRACT type `σ`; failure = `Err`.  Checked on every run: the four
declarations of `trait DbXxxObjectSafe<KT>`, and that `impl<KT: DbMapKeyType> DbXxx<KT> for FileDbMap<KT> {}` is empty
(the map handle overrides no default method).  Statement by statement:

* `self.get_kt(..)` / `self.put_kt(..)` / `self.del_kt(..)` / `self.includes_key_kt(..)` are the fields of the parameter
  `ops : KtOps σ`; `self.m(..)` with `m` a default method of the trait is the function translated from it (with the
  function parameters it needs).  `call?` is the bind of the monad, `Ok(e)` is `pure e`, `call.map(|x| e)` on the `Result`
  of a call in last position is bind + `pure e`.
* keys are bytes: a parameter `key: &'a Q` (signature `fn m<'a, Q>(..) where KT: From<&'a Q>, Q: Ord + ?Sized`, pinned) is
  the byte list of the key; `let key_kt: KT = From::from(key);` is the identity (the conversion of a borrowed key into the
  key type of the map does not change the bytes the map stores: `Abyss/Gen/Funcs.lean` has the conversions of the integer
  key types; the callers of the generated functions pass the converted bytes).  `&[u8]` / `Vec<u8>` are `List Nat`; a
  `String` / `&str` is its UTF-8 bytes (`List Nat`): `.as_bytes()`, `.clone()`, `.to_vec()` are the identity.
  `String::from_utf8_lossy(&v).to_string()` is the parameter `lossy : List Nat → List Nat` (uninterpreted: the UTF-8
  bytes of the lossy decoding of `v`).
* `Vec<T>` / `&[T]` is `List T`, `(A, B)` a pair, `usize` is `Nat`, `Option` is `Option` (`o.map(|x| e)` is `o.map fun x => e`).
  `Vec::new()` is `[]`, `v.push(e);` re-binds `v := v ++ [e]`, `xs.iter().enumerate().map(|(i, &a)| (i, a)).collect()` is
  `ApiM.enumerate xs`, `xs.iter().map(|a| e).collect()` is `xs.map fun a => e`.
* sorting.  `v.sort_by(|a, b| b.F.cmp(a.F))` / `v.sort_unstable_by(..)` with `F` the key component (descending by key; the
  `pop` loop that follows takes the keys in ascending order) is a call of a PARAMETER of the generated function:
  `sortDesc` on (index, key) pairs, `sortDescPairs` on (key, value) pairs.  The only property the theorems may assume of it
  is `∀ l, (sortDesc l).Perm l` (the order `Q: Ord` of the borrowed key type is not modelled, and `sort_unstable_by` does
  not fix the order of equal keys).  `result.sort_by(|a, b| a.0.cmp(&(b.0)))` (stable, by the remembered index) is
  `ApiM.sortByIdx` (insertion sort by the first component).
* `while let Some(x) = v.pop() { … }` is an auxiliary function `<name>Loop`, recursive on fuel, over the variables the
  body assigns: `ApiM.pop v` is the LAST element of `v` and the rest; the caller passes the fuel `v.length + 1`.
  `for p in v { … }` is an auxiliary function structurally recursive on the list (iteration order = list order;
  `put_from_iter`'s `iter: T`, `T: Iterator<Item = (KT, Vec<u8>)>`, is the list of its items).
-/
"""

STAGE = "funcs"


def main():
    repo, out = sys.argv[1], sys.argv[2]
    feats = default_features(repo)
    os.makedirs(out, exist_ok=True)
    for d, _ds, fs in sorted(os.walk(os.path.join(repo, "src"))):
        for f in sorted(fs):
            if f.endswith(".rs"):
                try:
                    SRC_TOKENS[os.path.relpath(os.path.join(d, f), repo)] = [
                        v for _k, v in tokenize(strip_comments(open(os.path.join(d, f)).read()))]
                except TrError:
                    pass                                   # (a file outside the translated set that the tokenizer cannot read)
    K = "src/filedb/inner/key.rs"
    V = "src/filedb/inner/val.rs"
    H = "src/filedb/inner/htx.rs"
    PI = "src/filedb/inner/piece.rs"
    L = "src/lib.rs"

    # ---------------- constants
    env = {}
    C = []

    def const(lean, rel, name, local_env=None):
        e = dict(env)
        if local_env:
            e.update(local_env)
        v = const_value(repo, feats, rel, name, e)
        C.append((lean, v, "%s `%s`" % (rel, name)))
        return v

    key_first = const("keyFreeOffset1st", K, "REC_SIZE_FREE_OFFSET_1ST")
    const("keyFreeOffsets", K, "REC_SIZE_FREE_OFFSET", {"REC_SIZE_FREE_OFFSET_1ST": key_first})
    const("keySizeAry", K, "REC_SIZE_ARY")
    const("keyHeaderSz", K, "DAT_HEADER_SZ")
    const("keySig1", K, "DAT_HEADER_SIGNATURE")
    const("keyChunkSize", K, "CHUNK_SIZE")
    val_first = const("valFreeOffset1st", V, "REC_SIZE_FREE_OFFSET_1ST")
    const("valFreeOffsets", V, "REC_SIZE_FREE_OFFSET", {"REC_SIZE_FREE_OFFSET_1ST": val_first})
    const("valSizeAry", V, "REC_SIZE_ARY")
    const("valHeaderSz", V, "DAT_HEADER_SZ")
    const("valSig1", V, "DAT_HEADER_SIGNATURE")
    const("valChunkSize", V, "CHUNK_SIZE")
    const("htxHeaderSz", H, "HTX_HEADER_SZ")
    const("htxSig1", H, "HTX_HEADER_SIGNATURE")
    const("htxChunkSize", H, "CHUNK_SIZE")
    const("defaultHtSize", H, "DEFAULT_HT_SIZE")
    const("htxHtSizeOffset", H, "HTX_HT_SIZE_OFFSET")
    const("htxItemCountOffset", H, "HTX_ITEM_COUNT_OFFSET")
    for lean, f in (("sigString", "kt_dbstring.rs"), ("sigBytes", "kt_dbbytes.rs"), ("sigU64", "kt_dbu64.rs"),
                    ("sigI64", "kt_dbi64.rs"), ("sigVu64", "kt_dbvu64.rs")):
        rel = "src/filedb/dbmap/" + f
        C.append((lean, signature_of(repo, feats, rel), rel + " `signature()`"))

    with open(os.path.join(out, "Consts.lean"), "w") as fh:
        fh.write("/-! GENERATED by tools/rs2lean.py from /repo — do not edit. Constants and tables. -/\n")
        fh.write("namespace Abyss.Gen\n\n")
        for lean, v, src in C:
            ty = "List Nat" if isinstance(v, list) else "Nat"
            fh.write("/-- %s -/\ndef %s : %s := %s\n\n" % (src, lean, ty, lean_val(v)))
        fh.write("end Abyss.Gen\n")

    # ---------------- functions
    F = []

    def fn(lean, rel, rust, params, sig, **kw):
        item = "`%s`" % rust if not kw.get("impl") else "`impl %s`, `fn %s`" % (kw["impl"], rust)
        partial, term, notes = translate_fn(repo, feats, rel, rust, lean, params, kw.pop("subst", {}),
                                            kw.pop("consts", {}), kw.pop("partial_fns", {}), **kw)
        F.append((lean, sig, partial, term, "%s %s%s" % (rel, item, ALIASES.note(rel, rust)), notes))
        return partial

    fn("xorshift64s", L, "_xorshift64s", [("a", "u64")], "(a : Nat) : Nat", pnames=["a"], alias_sig="(a: u64) -> u64")
    # MyHasher::write(&mut self, bytes): the state `self.0` becomes parameter/result `h`
    fn("hasherWrite", L, "write", [("h", "u64")], "(h : Nat) (bytes : List Nat) : Nat",
       state_vars={"self.0": "h"}, pure_fns={"_xorshift64s": "xorshift64s"}, default_int="u64", result="h",
       var_types={"b": "u8"}, pnames=["bytes"])
    arrays = {"self.size_ary": "sizeAry", "self.free_list_offset": "freeListOffset"}
    sub_ps = {"piece_size.as_value()": ("pieceSize0", "u32"), "need_size.as_value()": ("needSize0", "u32")}
    fn("roundup", PI, "roundup", [("piece_size", "u32")], "(sizeAry : List Nat) (pieceSize0 : Nat) : Nat",
       self_arrays=arrays, subst=sub_ps, pnames=["piece_size"])
    fn("isLargePieceSize", PI, "is_large_piece_size", [("piece_size", "u32")],
       "(sizeAry : List Nat) (pieceSize0 : Nat) : Bool", self_arrays=arrays, subst=sub_ps, pnames=["piece_size"])
    fn("freePieceListOffsetOfHeader", PI, "free_piece_list_offset_of_header", [("piece_size", "u32")],
       "(freeListOffset sizeAry : List Nat) (pieceSize0 : Nat) : Nat", self_arrays=arrays, subst=sub_ps, pnames=["piece_size"])
    # value: (encorded_piece_len, piece_len, value_len)
    fn("valueEncodedPieceSize", V, "encoded_piece_size", [], "(valueLen : Nat) : Nat × Nat × Nat",
       subst={"self.value.len()": ("valueLen", "usize")})
    fn("keyEncodedPieceSize", K, "encoded_piece_size", [],
       "(keyLen valueOffset bucketNextOffset : Nat) : Nat × Nat × Nat",
       subst={"self.key.as_bytes().len()": ("keyLen", "usize"), "self.key.as_bytes()": (None, None),   # `let key = self.key.as_bytes();`
              "self.value_offset.as_value()": ("valueOffset", "u64"),
              "self.bucket_next_offset.as_value()": ("bucketNextOffset", "u64")})
    part = fn("capacityToBucketsSize", H, "capacity_to_buckets_size", [("cap", "u64")], "(cap : Nat) : Option Nat",
              pnames=["cap"], alias_sig="(cap: u64) -> u64")
    if not part:
        fail(H + "::capacity_to_buckets_size: expected a panic for capacity 0")
    # `HtxFile::open_with_params`: the statement `let buckets_size = match params.buckets_size { … };`, found by its right-hand
    # side (`params`: the parameter of type `&FileDbParams`, whatever the source calls it and the local)
    hp = [n for c_ in io_find_methods(repo, feats, H, "impl HtxFile").get("open_with_params", [])
          for n, t in sig_param_types(io_sig_toks(c_[0]), None) if t == "&FileDbParams"]
    hp = hp[0] if len(hp) == 1 else "params"
    picked = {}
    fn("bucketsOf", H, "open_with_params", [], "(p : HashBucketsParam) : Option Nat",
       subst={hp + ".buckets_size": ("p", None)}, consts={"DEFAULT_HT_SIZE": "defaultHtSize"},
       partial_fns={"capacity_to_buckets_size": "capacityToBucketsSize"},
       pick_let=("rhs", ["match", hp, ".", "buckets_size"]), picked=picked)
    # htx file length at creation: `let off = NodePieceOffset::new(HTX_HEADER_SZ + buckets_size * 8 + buckets_size / 8);`
    # (found by its right-hand side; `buckets_size`: the local bound by the statement above)
    fn("htxInitLen", H, "open_with_params", [("buckets_size", "u64")], "(bucketsSize : Nat) : Nat",
       consts={"HTX_HEADER_SZ": "htxHeaderSz"}, pick_let=("rhs", ["NodePieceOffset", "::", "new", "(", "HTX_HEADER_SZ"]),
       rename={picked.get("var", "buckets_size"): "buckets_size"})

    # ---- key types: stored-key comparison and integer <-> key conversions
    # (src/filedb/dbmap/kt_db*.rs; a key newtype `DbX(Vec<u8>)` is its byte list)
    KT = "src/filedb/dbmap/"
    for sfx, ty_ in (("String", "DbString"), ("Bytes", "DbBytes"), ("U64", "DbU64"), ("I64", "DbI64"),
                     ("Vu64", "DbVu64")):
        # `none` = the call panics (`vu64::decode(..).unwrap()`)
        fn("cmpU8" + sfx, KT + "kt_%s.rs" % ty_.lower(), "cmp_u8", [("other", BYTES)],
           "(mine other : List Nat) : Option Ordering", impl="DbMapKeyType for " + ty_,
           expect_sig="(&self, other: &[u8]) -> std::cmp::Ordering", force_option=True,
           subst={"self.0": ("mine", BYTES)})

    # the generated code takes a key for its byte list: `from_bytes` (what `load_key_data` and `read_piece` build a key
    # from) and `as_bytes` (what is stored and hashed) must be the plain copy / the plain view of the newtype's vector
    for sfx, ty_ in (("String", "DbString"), ("Bytes", "DbBytes"), ("U64", "DbU64"), ("I64", "DbI64"), ("Vu64", "DbVu64")):
        rel_ = KT + "kt_%s.rs" % ty_.lower()
        hdr_ = "impl DbMapKeyType for " + ty_
        ms_ = io_find_methods(repo, feats, rel_, hdr_)
        for m_, body_ in (("from_bytes", "fn from_bytes(bytes: &[u8]) -> Self { %s(bytes.to_vec()) }" % ty_),
                          ("as_bytes", "fn as_bytes(&self) -> &[u8] { self.0.as_slice() }")):
            cands_ = ms_.get(m_, [])
            if len(cands_) != 1 or toks_eq_renamed([v for _k, v in cands_[0][0]], [v for _k, v in tokenize(body_)]) is None:
                fail("%s::<%s>::%s is not `%s` (the translation takes a key for its byte list)" % (rel_, hdr_, m_, body_))
        # the placement hash of a key is the default `HashValue::hash_value` over the derived `Hash` of the newtype
        # (`Vec<u8>`: length, then the bytes — `Abyss.hashValue`): no key type may override either
        io_pin_tokens(repo, rel_, "pub struct " + ty_,
                      "#[derive(Debug, Default, Clone, PartialEq, PartialOrd, Eq, Ord, Hash)] pub struct %s(Vec<u8>);" % ty_,
                      "the definition of `%s`" % ty_)
        io_pin_tokens(repo, rel_, "impl HashValue for " + ty_, "impl HashValue for %s {}" % ty_, "`impl HashValue for %s`" % ty_)
    io_pin_tokens(repo, "src/lib.rs", "pub trait HashValue",
                  'pub trait HashValue: Hash { fn hash_value(&self) -> u64 { use std::hash::Hasher; #[cfg(feature = "std_default_hasher")] '
                  'let mut hasher = std::collections::hash_map::DefaultHasher::new(); #[cfg(not(feature = "std_default_hasher"))] '
                  'let mut hasher = MyHasher::default(); self.hash(&mut hasher); hasher.finish() } }',
                  "the trait `HashValue` with its default `hash_value`")

    def conv(lean, file_ty, impl, sig_rs, params, sig_lean, arg=None, **kw):
        subst = {arg + ".0": ("k", BYTES)} if arg else {}
        return fn(lean, KT + "kt_%s.rs" % file_ty.lower(), "from", params, sig_lean, impl=impl, expect_sig=sig_rs,
                  subst=subst, newtypes=[file_ty], **kw)

    conv("u64ToKey", "DbU64", "From<u64> for DbU64", "(a: u64) -> Self", [("a", "u64")], "(a : Nat) : List Nat")
    conv("i64ToKey", "DbI64", "From<i64> for DbI64", "(a: i64) -> Self", [("a", "i64")], "(a : Int) : List Nat")
    conv("vu64ToKey", "DbVu64", "From<u64> for DbVu64", "(a: u64) -> Self", [("a", "u64")], "(a : Nat) : List Nat")
    conv("bytesKeyOfU64", "DbBytes", "From<u64> for DbBytes", "(a: u64) -> Self", [("a", "u64")],
         "(a : Nat) : List Nat")
    conv("stringKeyOfU64", "DbString", "From<u64> for DbString", "(a: u64) -> Self", [("a", "u64")],
         "(a : Nat) : List Nat")
    conv("keyToU64", "DbU64", "From<&DbU64> for u64", "(db_int: &DbU64) -> u64", [], "(k : List Nat) : Nat",
         arg="db_int")
    conv("keyToI64", "DbI64", "From<&DbI64> for i64", "(db_int: &DbI64) -> i64", [], "(k : List Nat) : Int",
         arg="db_int")
    part = conv("keyToVu64", "DbVu64", "From<&DbVu64> for u64", "(db_int: &DbVu64) -> u64", [],
                "(k : List Nat) : Option Nat", arg="db_int")
    if not part:
        fail(KT + "kt_dbvu64.rs::<impl From<&DbVu64> for u64>::from: expected a panic path (`unwrap`)")

    # ---- statistics vectors (src/filedb/mod.rs): `touch_size`, `touch_length` as pure functions on the vector
    for header, rust, param, ptype, lean in (("impl<T: Copy + Ord> RecordSizeStats<T>", "touch_size", "piece_size", "PieceSize<T>", "touchSize"),
                                             ("impl<T: Ord + Default + Copy> LengthStats<T>", "touch_length", "key_length", "Length<T>",
                                              "touchLength")):
        lp, term = translate_touch(repo, feats, header, rust, param, ptype)
        F.append((lean, "(vec : List (Nat × Nat)) (%s : Nat) : List (Nat × Nat)" % lp, False, term,
                  "src/filedb/mod.rs `%s`, `fn %s`" % (header, rust),
                  ["`&mut self` is the tuple struct around the sorted vector: `self.0` is the parameter and the value `vec`"]))

    with open(os.path.join(out, "Funcs.lean"), "w") as fh:
        fh.write("import Abyss.Vu64\nimport Abyss.Gen.Consts\n")
        fh.write("/-! GENERATED by tools/rs2lean.py from /repo — do not edit. Pure functions. -/\n")
        fh.write("namespace Abyss.Gen\n\n")
        fh.write("/-- `u64::next_power_of_two` (for values whose result fits; 0 ↦ 1). -/\n")
        fh.write("def nextPowerOfTwo (x : Nat) : Nat := if x ≤ 1 then 1 else 2 ^ (Nat.log2 (x - 1) + 1)\n\n")
        fh.write("/-- `slice.chunks(k)`: consecutive pieces of `k` elements, the last one may be shorter -/\n")
        fh.write("def chunksOf (k : Nat) (l : List Nat) : List (List Nat) :=\n  (List.range ((l.length + k - 1) / k)).map fun i => (l.drop (i * k)).take k\n\n")
        fh.write("/-- `u64::from_be_bytes` -/\ndef beVal (bs : List Nat) : Nat := bs.foldl (fun a b => a * 256 + b) 0\n\n")
        fh.write("/-- `<[u8] as Ord>::cmp`: lexicographic order of byte slices -/\n")
        fh.write("def cmpBytes : List Nat → List Nat → Ordering\n  | [], [] => .eq\n  | [], _ :: _ => .lt\n"
                 "  | _ :: _, [] => .gt\n"
                 "  | x :: xs, y :: ys => if x < y then .lt else if x > y then .gt else cmpBytes xs ys\n\n")
        fh.write("/-- `uN::to_be_bytes`: `k` big-endian bytes of `v` -/\n")
        fh.write("def beBytes (v k : Nat) : List Nat := (Abyss.Vu64.leBytes v k).reverse\n\n")
        fh.write("/-- the `i64` with the 64-bit two's complement pattern `u` (`u < 2^64`) -/\n")
        fh.write("def toI64 (u : Nat) : Int := if u < 2^63 then (u : Int) else (u : Int) - 2^64\n\n")
        fh.write("/-- src/filedb/mod.rs `HashBucketsParam` -/\n")
        fh.write("inductive HashBucketsParam where\n  | bucketsSize (x : Nat)\n  | capacity (x : Nat)\n  | default\n  deriving Repr, DecidableEq\n\n")
        fh.write(TOUCH_PRELUDE)
        for lean, sig, partial, term, src, notes in F:
            fh.write("/-- %s%s -/\n" % (src, ("; " + ", ".join(sorted(set(notes)))) if notes else ""))
            fh.write("def %s %s :=\n  %s\n\n" % (lean, sig, term))
        fh.write("end Abyss.Gen\n")
    # ---------------- byte-level I/O of the allocator (monadic)
    global STAGE
    STAGE = "fileops"
    n_io, done, methods = emit_fileops(repo, feats, out, set(x[0] for x in F), dict((x[0], x[2]) for x in C))
    STAGE = "engine"
    n_eng = emit_engine(repo, feats, out, done, methods)
    STAGE = "flush"
    n_fl = emit_flushops(repo, feats, out, done, methods)
    STAGE = "api"
    n_api = emit_apiops(repo, feats, out, methods)
    STAGE = "registry"
    n_reg = emit_registry(repo, feats, out, done, methods)
    STAGE = "funcs"                                        # (a failure here: none of the files is the translation of this source)
    check_aliases()
    print("rs2lean: wrote %d constants, %d functions, %d file operations, %d engine functions, %d flush definitions, "
          "%d API definitions, %d registry definitions (features: %s)"
          % (len(C), len(F), n_io, n_eng, n_fl, n_api, n_reg, ",".join(sorted(feats))))


if __name__ == "__main__":
    try:
        try:
            main()
        except (IndexError, KeyError, TypeError, ValueError, AttributeError, AssertionError) as e:
            # a source so far from the configured shapes that a check itself breaks: outside the supported subset
            raise TrError("internal error while reading the source (%s: %s)" % (type(e).__name__, e))
    except TrError as e:
        print("rs2lean: UNSUPPORTED: %s" % e, file=sys.stderr)
        # nothing was emitted; a Funcs.lean left over from an earlier run must not be mistaken for
        # the translation of this source: replace it by a file that fails to build with the reason
        # (a failure in the FileOps stage leaves the Consts.lean / Funcs.lean just written in place, a failure
        # in the Engine stage also the FileOps.lean, … a failure in the last stage, Registry.lean, all the others)
        if len(sys.argv) > 2 and os.path.isdir(sys.argv[2]):
            msg = ("rs2lean: UNSUPPORTED: %s" % e).replace("\\", "\\\\").replace('"', '\\"').replace("\n", " ")
            stages = ["funcs", "fileops", "engine", "flush", "api", "registry"]
            files = ["Funcs.lean", "FileOps.lean", "Engine.lean", "FlushOps.lean", "ApiOps.lean", "Registry.lean"]
            for name in files[stages.index(STAGE):]:
                with open(os.path.join(sys.argv[2], name), "w") as fh:
                    fh.write("/-! GENERATED by tools/rs2lean.py — the translation FAILED, nothing was emitted. -/\n")
                    fh.write('#eval (throw (IO.userError "%s") : IO Unit)\n' % msg)
        sys.exit(2)
