#!/usr/bin/env python3
"""rs2lean.py — translate the pure sizing / hash / constant core of abyssiniandb to Lean 4.

usage: rs2lean.py <repo> <outdir>      (writes <outdir>/Consts.lean and <outdir>/Funcs.lean)

The translator accepts a small, fixed Rust subset (see DESIGN.md §3.2) and FAILS LOUDLY
(exit 2, message with file and construct) on anything else.  Integers become `Nat`;
`<<` on u64 is `% 2^64`; a narrowing `as uN` is `% 2^N`; `panic!` makes the function return
`Option`; `debug_assert!` is dropped (recorded as a comment).  `#[cfg(..)]` attributes are
evaluated against the crate's default feature set read from Cargo.toml.
Key types (src/filedb/dbmap/kt_db*.rs): a key newtype `DbX(Vec<u8>)` is its byte list;
`cmp_u8` and the `From` impls between integers and keys are selected by their `impl` header
(`find_impl`) and their signature is checked against the configured one; byte slices compare
with `cmpBytes`, `u64`s with `compare`; `vu64::decode(..).unwrap()` is the panic path (`none`);
`i64` is `Int` and only occurs in `to_le_bytes` / `from_le_bytes` (two's complement);
`copy_from_slice` into/from a range `x[..n]` only in shapes whose length and bounds
conditions are evident from the enclosing `if` (see `Emit.copy_from_slice`).
When the translation fails, Funcs.lean is replaced by a file that does not build.
Python 3 standard library only.
"""
import re
import sys
import os


class TrError(Exception):
    pass


def fail(msg):
    raise TrError(msg)


# ----------------------------------------------------------------------------- tokenizer
TOKEN_RE = re.compile(r"""
    (?P<ws>\s+)
  | (?P<lc>//[^\n]*)
  | (?P<bc>/\*.*?\*/)
  | (?P<bstr>b"(?:[^"\\]|\\.)*")
  | (?P<str>"(?:[^"\\]|\\.)*")
  | (?P<bchar>b'(?:[^'\\]|\\.)')
  | (?P<num>0x[0-9a-fA-F_]+(?:u8|u16|u32|u64|usize|i32|i64)?|[0-9][0-9_]*(?:u8|u16|u32|u64|usize|i32|i64)?)
  | (?P<id>[A-Za-z_][A-Za-z0-9_]*!?)
  | (?P<op><<=|>>=|\.\.=|::|->|=>|==|!=|<=|>=|&&|\|\||<<|>>|\+=|-=|\*=|/=|%=|\^=|\|=|&=|\.\.|[-+*/%^|&!<>=.,;:#\[\](){}?@~'])
""", re.X | re.S)


def tokenize(src):
    toks = []
    pos = 0
    while pos < len(src):
        m = TOKEN_RE.match(src, pos)
        if not m:
            fail("cannot tokenize at: %r" % src[pos:pos + 40])
        pos = m.end()
        k = m.lastgroup
        if k in ("ws", "lc", "bc"):
            continue
        toks.append((k, m.group(k)))
    return toks


# ----------------------------------------------------------------------------- features
def default_features(repo):
    txt = open(os.path.join(repo, "Cargo.toml")).read()
    m = re.search(r"^\[features\]\s*$(.*?)^\[", txt, re.M | re.S)
    if not m:
        fail("Cargo.toml: no [features] section")
    feats = {}
    for line in m.group(1).splitlines():
        line = line.split("#")[0].strip()
        mm = re.match(r'([A-Za-z0-9_]+)\s*=\s*\[(.*)\]', line)
        if mm:
            feats[mm.group(1)] = [x.strip().strip('"') for x in mm.group(2).split(",") if x.strip()]
    on = set()
    todo = list(feats.get("default", []))
    while todo:
        f = todo.pop()
        if f in on or "/" in f:
            continue
        on.add(f)
        todo.extend(feats.get(f, []))
    return on


# ----------------------------------------------------------------------------- parser
class P:
    def __init__(self, toks, feats, where):
        self.t = toks
        self.i = 0
        self.feats = feats
        self.where = where

    def peek(self, k=0):
        return self.t[self.i + k] if self.i + k < len(self.t) else ("eof", "")

    def next(self):
        tok = self.peek()
        self.i += 1
        return tok

    def at(self, v):
        return self.peek()[1] == v

    def eat(self, v):
        if self.at(v):
            self.i += 1
            return True
        return False

    def expect(self, v):
        if not self.eat(v):
            fail("%s: expected %r, found %r (…%s)" % (self.where, v, self.peek()[1],
                 " ".join(x[1] for x in self.t[max(0, self.i - 6):self.i + 4])))

    # ---- attributes: returns False if a cfg attribute evaluates to false
    def attrs(self):
        ok = True
        while self.at("#"):
            self.next()
            self.expect("[")
            name = self.next()[1]
            if name == "cfg":
                self.expect("(")
                v = self.cfg_pred()
                self.expect(")")
                ok = ok and v
                self.expect("]")
            else:
                depth = 1
                while depth:
                    tk = self.next()[1]
                    if tk == "[":
                        depth += 1
                    elif tk == "]":
                        depth -= 1
                    elif tk == "":
                        fail(self.where + ": unterminated attribute")
        return ok

    def cfg_pred(self):
        name = self.next()[1]
        if name == "feature":
            self.expect("=")
            s = self.next()
            return s[1].strip('"') in self.feats
        if name in ("not", "any", "all"):
            self.expect("(")
            vals = []
            while not self.at(")"):
                vals.append(self.cfg_pred())
                self.eat(",")
            self.expect(")")
            if name == "not":
                return not vals[0]
            return any(vals) if name == "any" else all(vals)
        if name == "debug_assertions":
            return False
        if name == "test":
            return False
        fail("%s: unsupported cfg predicate %r" % (self.where, name))

    # ---- types (skipped, returned as string)
    def type_(self):
        s = ""
        depth = 0
        while True:
            k, v = self.peek()
            if depth == 0 and v in ("=", ";", ",", ")", "{", ">") and not (v == ">" and depth > 0):
                if v == ">" and depth == 0:
                    break
                break
            if v in ("<", "[", "("):
                depth += 1
            if v in (">", "]", ")"):
                depth -= 1
            s += v
            self.next()
        return s

    # ---- blocks and statements
    def block(self):
        self.expect("{")
        stmts = []
        tail = None
        while not self.at("}"):
            ok = self.attrs()
            st = self.stmt()
            if not ok:
                continue
            if st[0] == "tail":
                if not self.at("}"):
                    # expression statement without semicolon (if/for/match blocks)
                    stmts.append(("expr", st[1]))
                else:
                    tail = st[1]
            else:
                stmts.append(st)
        self.expect("}")
        if tail is not None and tail[0] == "if" and tail[3] is None:
            stmts.append(("expr", tail))
            tail = None
        if (tail is not None and tail[0] == "if" and tail[3] is not None and tail[3][0] == "block"
                and tail[2][2] is None and tail[3][2] is None):
            # `if c { …statements… } else { …statements… }` in last position: a statement, not a value
            stmts.append(("expr", tail))
            tail = None
        return ("block", stmts, tail)

    def stmt(self):
        k, v = self.peek()
        if v == "let":
            self.next()
            mut = self.eat("mut")
            pat = self.pattern()
            ty = None
            if self.eat(":"):
                ty = self.type_()
            self.expect("=")
            e = self.expr()
            self.expect(";")
            return ("let", pat, ty, e, mut)
        if v == "for":
            self.next()
            pat = self.pattern()
            self.expect("in")
            it = self.expr(no_struct=True)
            body = self.block()
            return ("for", pat, it, body)
        if v == "while":
            fail(self.where + ": `while` loops are outside the supported subset")
        if v == "return":
            self.next()
            e = None if self.at(";") else self.expr()
            self.eat(";")
            return ("return", e)
        if v in ("debug_assert!", "debug_assert_eq!", "assert!"):
            self.next()
            self.skip_group()
            self.eat(";")
            return ("dassert", v)
        if v == "panic!" or v == "unimplemented!" or v == "unreachable!":
            self.next()
            self.skip_group()
            self.eat(";")
            return ("panic",)
        if v == "{":
            b = self.block()
            return ("expr", b)
        e = self.expr()
        for op in ("^=", "|=", "&=", "+=", "-=", "*=", "<<=", ">>=", "="):
            if self.at(op):
                self.next()
                r = self.expr()
                self.expect(";")
                return ("assign", op, e, r)
        if self.eat(";"):
            return ("expr", e)
        return ("tail", e)

    def skip_group(self):
        open_ = self.next()[1]
        close = {"(": ")", "[": "]", "{": "}"}[open_]
        depth = 1
        while depth:
            tk = self.next()[1]
            if tk == open_:
                depth += 1
            elif tk == close:
                depth -= 1
            elif tk == "":
                fail(self.where + ": unterminated macro group")

    def pattern(self):
        if self.eat("("):
            ps = []
            while not self.at(")"):
                ps.append(self.pattern())
                self.eat(",")
            self.expect(")")
            return ("ptuple", ps)
        if self.eat("&"):
            return self.pattern()
        k, v = self.next()
        if k != "id":
            fail("%s: unsupported pattern at %r" % (self.where, v))
        return ("pvar", v)

    # ---- expressions (precedence climbing)
    BIN = [
        ("||",), ("&&",), ("==", "!=", "<", ">", "<=", ">="), ("|",), ("^",), ("&",),
        ("<<", ">>"), ("+", "-"), ("*", "/", "%"),
    ]

    def expr(self, lvl=0, no_struct=False):
        if lvl == len(self.BIN):
            return self.cast(no_struct)
        lhs = self.expr(lvl + 1, no_struct)
        while self.peek()[1] in self.BIN[lvl] and self.peek()[0] == "op":
            # do not take `|` `&` `<` etc. of compound assignments (tokenized separately)
            op = self.next()[1]
            rhs = self.expr(lvl + 1, no_struct)
            lhs = ("bin", op, lhs, rhs)
        return lhs

    def cast(self, no_struct):
        e = self.unary(no_struct)
        while self.at("as"):
            self.next()
            ty = self.next()[1]
            e = ("cast", e, ty)
        return e

    def unary(self, no_struct):
        if self.at("!"):
            self.next()
            return ("not", self.unary(no_struct))
        if self.at("*") or self.at("&"):
            self.next()
            self.eat("mut")
            return self.unary(no_struct)
        if self.at("-"):
            fail(self.where + ": unary minus is outside the supported subset")
        return self.postfix(no_struct)

    def postfix(self, no_struct):
        e = self.primary(no_struct)
        while True:
            if self.at("."):
                self.next()
                k, name = self.next()
                if k == "num":
                    e = ("field", e, name)
                    continue
                if self.at("::"):      # turbofish on method
                    self.next()
                    self.skip_angle()
                if self.at("("):
                    args = self.args()
                    e = ("mcall", e, name, args)
                else:
                    e = ("field", e, name)
            elif self.at("["):
                self.next()
                if self.at(".."):
                    # `x[..hi]`: the prefix of a slice (only meaningful to `copy_from_slice`, see Emit)
                    self.next()
                    if self.at("]"):
                        fail(self.where + ": full-range index `x[..]` is outside the supported subset")
                    hi = self.expr()
                    self.expect("]")
                    e = ("sliceto", e, hi)
                    continue
                idx = self.expr()
                self.expect("]")
                e = ("index", e, idx)
            elif self.at("?"):
                self.next()
            else:
                return e

    def skip_angle(self):
        self.expect("<")
        depth = 1
        while depth:
            tk = self.next()[1]
            if tk == "<":
                depth += 1
            elif tk == ">":
                depth -= 1
            elif tk == ">>":
                depth -= 2
            elif tk == "":
                fail(self.where + ": unterminated generic arguments")

    def args(self):
        self.expect("(")
        a = []
        while not self.at(")"):
            a.append(self.expr())
            self.eat(",")
        self.expect(")")
        return a

    def primary(self, no_struct):
        k, v = self.peek()
        if k == "num":
            self.next()
            return ("num", parse_int(v))
        if k == "bchar":
            self.next()
            return ("num", parse_bchar(v))
        if k == "bstr":
            self.next()
            return ("array", [("num", b) for b in parse_bstr(v)])
        if v == "(":
            self.next()
            items = []
            trailing = False
            while not self.at(")"):
                items.append(self.expr())
                trailing = self.eat(",")
            self.expect(")")
            if len(items) == 1 and not trailing:
                return items[0]
            return ("tuple", items)
        if v == "[":
            self.next()
            items = []
            while not self.at("]"):
                items.append(self.expr())
                if self.eat(";"):
                    n = self.expr()
                    self.expect("]")
                    return ("repeat", items[0], n)
                self.eat(",")
            self.expect("]")
            return ("array", items)
        if v == "{":
            return self.block()
        if v == "if":
            self.next()
            c = self.expr(no_struct=True)
            t = self.block()
            e = None
            if self.eat("else"):
                e = self.primary(no_struct) if self.at("if") else self.block()
            return ("if", c, t, e)
        if v == "match":
            self.next()
            scrut = self.expr(no_struct=True)
            self.expect("{")
            arms = []
            while not self.at("}"):
                ok = self.attrs()
                path = self.path()
                binder = None
                if self.eat("("):
                    binder = self.next()[1]
                    self.expect(")")
                self.expect("=>")
                body = self.expr()
                self.eat(",")
                if ok:
                    arms.append((path, binder, body))
            self.expect("}")
            return ("match", scrut, arms)
        if v in ("panic!", "unimplemented!"):
            self.next()
            self.skip_group()
            return ("panicx",)
        if v == "return":
            self.next()
            e = self.expr()
            return ("returnx", e)
        if k == "id":
            path = self.path()
            if self.at("("):
                return ("call", path, self.args())
            return ("path", path)
        fail("%s: unsupported expression at %r (…%s)" % (self.where, v,
             " ".join(x[1] for x in self.t[max(0, self.i - 6):self.i + 4])))

    def path(self):
        segs = [self.next()[1]]
        while self.at("::"):
            self.next()
            if self.at("<"):
                self.skip_angle()
                continue
            segs.append(self.next()[1])
        return segs


def parse_int(s):
    s = re.sub(r"(u8|u16|u32|u64|usize|i32|i64)$", "", s).replace("_", "")
    return int(s, 16) if s.startswith("0x") else int(s)


def parse_bchar(s):
    body = s[2:-1]
    if body.startswith("\\"):
        return {"\\0": 0, "\\n": 10, "\\\\": 92, "\\'": 39}[body]
    return ord(body)


def parse_bstr(s):
    body = s[2:-1]
    out = []
    i = 0
    while i < len(body):
        if body[i] == "\\":
            c = body[i + 1]
            if c == "0":
                out.append(0)
            elif c == "n":
                out.append(10)
            elif c == "\\":
                out.append(92)
            elif c == "x":
                out.append(int(body[i + 2:i + 4], 16))
                i += 2
            else:
                fail("unsupported escape in byte string %r" % s)
            i += 2
        else:
            out.append(ord(body[i]))
            i += 1
    return out


# ----------------------------------------------------------------------------- item lookup
def find_item(src, kind, name, where):
    """returns the token slice of `const NAME … ;` or `fn NAME … { … }`."""
    if kind == "const":
        m = re.search(r"\bconst\s+%s\s*:" % re.escape(name), src)
        if not m:
            fail("%s: const %s not found" % (where, name))
        end = src.index(";", find_top_eq(src, m.end()))
        # arrays may contain ';' ([u8; 8]) in the type: find the '=' first
        eq = find_top_eq(src, m.end())
        depth = 0
        j = eq
        while True:
            c = src[j]
            if c in "([{":
                depth += 1
            elif c in ")]}":
                depth -= 1
            elif c == ";" and depth == 0:
                break
            j += 1
        return src[eq + 1:j]
    if kind == "fn":
        m = re.search(r"\bfn\s+%s\s*(<[^()]*>)?\s*\(" % re.escape(name), src)
        if not m:
            fail("%s: fn %s not found" % (where, name))
        # find body start '{' after the signature
        j = src.index("{", m.end())
        # where-clauses do not occur in the supported functions
        depth = 0
        k = j
        while True:
            c = src[k]
            if c == "{":
                depth += 1
            elif c == "}":
                depth -= 1
                if depth == 0:
                    break
            k += 1
        return src[m.start():k + 1]
    fail("bad kind")


def find_impl(src, header, where):
    """returns the text of the one block `impl <header> { … }` (e.g. header `From<u64> for DbU64`).
    `src` must be comment-stripped (the key-type files carry commented-out impls of the same
    shape).  The header is matched token by token, so `From<u64>` does not match `From<&u64>`
    and `for u64` does not match `for DbU64`; generic impls (`impl<…>`) are never selected."""
    pat = r"\bimpl\s+" + r"\s*".join(re.escape(v) for _k, v in tokenize(header)) + r"\s*\{"
    # a word boundary is needed between adjacent identifier tokens (`for DbU64`)
    pat = re.sub(r"(?<=[A-Za-z0-9_])\\s\*(?=[A-Za-z0-9_])", r"\\s+", pat)
    ms = list(re.finditer(pat, src))
    if not ms:
        fail("%s: `impl %s` not found" % (where, header))
    if len(ms) > 1:
        fail("%s: `impl %s` occurs %d times" % (where, header, len(ms)))
    j = ms[0].end() - 1
    depth = 0
    k = j
    while k < len(src):
        c = src[k]
        if c == "{":
            depth += 1
        elif c == "}":
            depth -= 1
            if depth == 0:
                return src[j + 1:k]
        k += 1
    fail("%s: `impl %s`: unterminated block" % (where, header))


def fn_signature(item):
    """the tokens between the function's name and its body:
    `( & self , other : & [ u8 ] ) -> std :: cmp :: Ordering` (compared token-wise)"""
    m = re.match(r"fn\s+[A-Za-z0-9_]+\s*", item)
    return [v for _k, v in tokenize(item[m.end():item.index("{")])]


def find_top_eq(src, start):
    depth = 0
    j = start
    while True:
        c = src[j]
        if c in "([<":
            depth += 1
        elif c in ")]>":
            depth -= 1
        elif c == "=" and depth == 0:
            return j
        j += 1


def strip_comments(src):
    src = re.sub(r"/\*.*?\*/", lambda m: " " * 0 + "\n" * m.group(0).count("\n"), src, flags=re.S)
    src = re.sub(r"//[^\n]*", "", src)
    return src


# ----------------------------------------------------------------------------- emission
WIDTH = {"u8": 8, "u16": 16, "u32": 32, "u64": 64, "usize": 64}
BYTES = "[u8]"                                   # type tag of byte sequences (`&[u8]`, `Vec<u8>`): `List Nat`
BYTES_IDENTITY = ("as_slice", "as_ref", "to_vec")   # methods that are the identity on `List Nat`


class Emit:
    """translates a parsed function body to a Lean term (string)."""

    def __init__(self, where, subst, consts, partial_fns, var_types, self_arrays):
        self.state_vars = {}
        self.pure_fns = {}
        self.default_int = None
        self.where = where
        self.subst = subst            # rust expr text -> (lean name, type)
        self.consts = consts          # rust const name -> lean name
        self.partial_fns = partial_fns
        self.vt = dict(var_types)     # variable -> type
        self.self_arrays = self_arrays
        self.partial = False
        self.notes = []
        self.newtypes = set()         # tuple-struct newtypes over Vec<u8> whose constructor is erased
        self.static_len = {}          # local array variable -> its fixed length (`let mut a = [0u8; 8]`)
        self.len_alias = {}           # immutable local `n` bound by `let n = S.len()` -> Lean text of S
        self.facts = []               # ("lt"|"ge", var, K) known from the enclosing `if var < K` branches

    # -- canonical text of an expression for substitution lookup
    def text(self, e):
        k = e[0]
        if k == "path":
            return "::".join(e[1])
        if k == "field":
            return self.text(e[1]) + "." + e[2]
        if k == "mcall":
            return self.text(e[1]) + "." + e[2] + "(" + ",".join(self.text(a) for a in e[3]) + ")"
        if k == "num":
            return str(e[1])
        if k == "cast":
            return self.text(e[1]) + " as " + e[2]
        return "<%s>" % k

    def ty(self, e):
        """type of an expression if known, else None."""
        t = self.text(e)
        if t in self.subst:
            return self.subst[t][1]
        k = e[0]
        if k == "cast":
            return e[2]
        if k == "path" and len(e[1]) == 1:
            return self.vt.get(e[1][0])
        if k == "field" and t in self.state_vars:
            return self.vt.get(self.state_vars[t])
        if k == "mcall":
            if e[2] in ("len",):
                return "usize"
            if e[2] in ("as_value", "into", "next_power_of_two", "wrapping_add"):
                return self.ty(e[1])
            if e[2] in BYTES_IDENTITY and not e[3] and self.ty(e[1]) == BYTES:
                return BYTES
            if e[2] in ("to_le_bytes", "to_be_bytes") and not e[3] and self.ty(e[1]) in ("u64", "i64"):
                return BYTES
        if k == "call":
            name = e[1][-1]
            if name == "new" and len(e[2]) == 1:
                return self.ty(e[2][0])
            if "::".join(e[1]) == "vu64::encoded_len":
                return "u8"
            if "::".join(e[1]) == "vu64::encode":
                return BYTES
            if "::".join(e[1]) == "u64::from_le_bytes":
                return "u64"
            if "::".join(e[1]) == "i64::from_le_bytes":
                return "i64"
            if len(e[1]) == 1 and name in self.newtypes and len(e[2]) == 1:
                return self.ty(e[2][0])
        if k == "bin":
            a, b = self.ty(e[2]), self.ty(e[3])
            if e[1] in ("==", "!=", "<", ">", "<=", ">=", "&&", "||"):
                return "bool"
            if e[1] in ("<<", ">>"):
                return a
            return a or b
        return None

    def ex(self, e):
        t = self.text(e)
        if t in self.subst:
            return self.subst[t][0]
        k = e[0]
        if k == "num":
            return str(e[1])
        if k == "path":
            p = e[1]
            if len(p) == 1:
                if p[0] in self.consts:
                    return self.consts[p[0]]
                if p[0] in ("true", "false"):
                    return p[0]
                return lean_ident(p[0])
            name = "::".join(p)
            if p[-1] in self.consts:
                return self.consts[p[-1]]
            fail("%s: unsupported path %s" % (self.where, name))
        if k == "field":
            # self.size_ary etc.
            t = self.text(e)
            if t in self.self_arrays:
                return self.self_arrays[t]
            if t in self.state_vars:
                return self.state_vars[t]
            fail("%s: unsupported field access %s" % (self.where, t))
        if k == "cast":
            inner = self.ex(e[1])
            src = self.ty(e[1])
            dst = e[2]
            if dst not in WIDTH:
                fail("%s: unsupported cast to %s" % (self.where, dst))
            if src == "i64" or src == BYTES:
                fail("%s: unsupported cast from %s" % (self.where, src))
            if src in WIDTH and WIDTH[src] <= WIDTH[dst]:
                return inner
            if e[1][0] == "num" and e[1][1] < 2 ** WIDTH[dst]:
                return inner
            return "(%s %% 2^%d)" % (inner, WIDTH[dst])
        if k == "bin":
            op = e[1]
            a, b = self.ex(e[2]), self.ex(e[3])
            if "i64" in (self.ty(e[2]), self.ty(e[3])):
                fail("%s: arithmetic/comparison on i64 (`%s`) is outside the supported subset" % (self.where, op))
            if op == "<<":
                w = WIDTH.get(self.ty(e[2]) or "", None)
                if w is None:
                    fail("%s: `<<` on an operand of unknown width: %s" % (self.where, self.text(e[2])))
                return "((%s <<< %s) %% 2^%d)" % (a, b, w)
            lop = {"+": "+", "-": "-", "*": "*", "/": "/", "%": "%", ">>": ">>>", "^": "^^^",
                   "|": "|||", "&": "&&&", "==": "==", "!=": "!=", "<": "<", ">": ">",
                   "<=": "≤", ">=": "≥", "&&": "&&", "||": "||"}[op]
            if op in ("<", ">", "<=", ">=", "==", "!="):
                return "(decide (%s %s %s))" % (a, {"==": "=", "!=": "≠"}.get(op, lop), b)
            return "(%s %s %s)" % (a, lop, b)
        if k == "not":
            return "(!%s)" % self.ex(e[1])
        if k == "mcall":
            recv, name, args = e[1], e[2], e[3]
            if name in ("as_value", "into", "clone", "iter"):
                return self.ex(recv)
            if name == "len":
                return "(%s).length" % self.ex(recv)
            if name == "take":
                return "((%s).take %s)" % (self.ex(recv), self.ex(args[0]))
            if name == "chunks":
                return "(chunksOf %s %s)" % (self.ex(args[0]), self.atom(recv))
            if name == "next_power_of_two":
                return "(nextPowerOfTwo %s)" % self.ex(recv)
            if name in BYTES_IDENTITY and not args:
                # `.as_slice()` / `.as_ref()` / `.to_vec()` on a byte sequence: the same `List Nat`
                if self.ty(recv) != BYTES:
                    fail("%s: .%s() on something that is not known to be a byte sequence: %s"
                         % (self.where, name, self.text(recv)))
                return self.ex(recv)
            if name in ("to_le_bytes", "to_be_bytes") and not args:
                t = self.ty(recv)
                if t == "u64":
                    v = self.atom(recv)
                elif t == "i64":
                    # two's complement: the 64-bit pattern of an `Int` in [-2^63, 2^63)
                    v = "(%s %% 2^64).toNat" % self.atom(recv)
                else:
                    fail("%s: .%s() on an operand that is not u64/i64: %s" % (self.where, name, self.text(recv)))
                if name == "to_le_bytes":
                    return "(Abyss.Vu64.leBytes %s 8)" % v
                return "(beBytes %s 8)" % v
            if name == "cmp" and len(args) == 1:
                ta, tb = self.ty(recv), self.ty(args[0])
                if ta == BYTES and tb == BYTES:
                    return "(cmpBytes %s %s)" % (self.atom(recv), self.atom(args[0]))
                if ta in WIDTH and ta == tb:
                    return "(compare %s %s)" % (self.atom(recv), self.atom(args[0]))
                fail("%s: `.cmp()` on operands of unsupported or different types (%s, %s): %s"
                     % (self.where, ta, tb, self.text(e)))
            if name == "unwrap":
                fail("%s: `.unwrap()` is only supported on `vu64::decode(..)` in a `let` or in tail position: %s"
                     % (self.where, self.text(e)))
            if name == "wrapping_add":
                w = WIDTH.get(self.ty(recv) or "", None)
                if w is None:
                    fail("%s: wrapping_add on unknown width" % self.where)
                return "((%s + %s) %% 2^%d)" % (self.ex(recv), self.ex(args[0]), w)
            fail("%s: unsupported method .%s()" % (self.where, name))
        if k == "index":
            return "(%s).getD %s 0" % (self.ex(e[1]), self.ex(e[2]))
        if k == "call":
            name = "::".join(e[1])
            if e[1][-1] == "new" and len(e[2]) == 1:
                return self.ex(e[2][0])                       # newtype constructor erased
            if name == "vu64::encoded_len":
                return "(Abyss.Vu64.encodedLen %s)" % self.ex(e[2][0])
            if name == "u64::from_be_bytes" and len(e[2]) == 1:
                return "(beVal %s)" % self.atom(e[2][0])
            if name in ("u64::from_le_bytes", "i64::from_le_bytes") and len(e[2]) == 1:
                a = e[2][0]
                if not (a[0] == "path" and len(a[1]) == 1 and self.static_len.get(a[1][0]) == 8):
                    fail("%s: %s of something that is not a local array of 8 bytes: %s"
                         % (self.where, name, self.text(a)))
                v = "(Abyss.Vu64.ofLeBytes %s)" % self.atom(a)
                return v if name.startswith("u64") else "(toI64 %s)" % v
            if name == "vu64::encode" and len(e[2]) == 1:
                if self.ty(e[2][0]) != "u64":
                    fail("%s: vu64::encode of an operand that is not u64: %s" % (self.where, self.text(e[2][0])))
                return "(Abyss.Vu64.encode %s)" % self.atom(e[2][0])
            if name == "vu64::decode":
                fail("%s: `vu64::decode(..)` is only supported as `vu64::decode(..).unwrap()` in a `let` or in tail position"
                     % self.where)
            if len(e[1]) == 1 and name in self.newtypes and len(e[2]) == 1:
                # tuple-struct newtype over Vec<u8>: constructor erased
                if self.ty(e[2][0]) != BYTES:
                    fail("%s: %s(..) of something that is not known to be a byte sequence: %s"
                         % (self.where, name, self.text(e[2][0])))
                return self.ex(e[2][0])
            if e[1][-1] in self.pure_fns and len(e[1]) == 1:
                return "(%s %s)" % (self.pure_fns[e[1][-1]], " ".join(self.atom(a) for a in e[2]))
            if name in self.partial_fns or e[1][-1] in self.partial_fns:
                fail("%s: call of partial function %s outside tail position" % (self.where, name))
            if name == "std::mem::size_of_val":
                fail("%s: size_of_val unsupported" % self.where)
            fail("%s: unsupported call %s" % (self.where, name))
        if k == "tuple":
            return "(" + ", ".join(self.ex(x) for x in e[1]) + ")"
        if k == "array":
            return "[" + ", ".join(self.ex(x) for x in e[1]) + "]"
        if k == "repeat":
            return "(List.replicate %s %s)" % (self.ex(e[2]), self.ex(e[1]))
        if k == "sliceto":
            fail("%s: range index `%s[..%s]` outside of `copy_from_slice`" % (self.where, self.text(e[1]), self.text(e[2])))
        if k == "block":
            return "(" + self.seq(e[1], e[2], wrap=False) + ")"
        if k == "if":
            if e[3] is None:
                fail("%s: `if` without else in expression position" % self.where)
            return "(if %s then %s else %s)" % (self.cond(e[1]), self.ex(e[2]), self.ex(e[3]))
        fail("%s: unsupported expression kind %s" % (self.where, k))

    def cond(self, e):
        s = self.ex(e)
        return s

    def decode_unwrap(self, e):
        """if `e` is `vu64::decode(X).unwrap()`: the Lean text of X, else None."""
        if not (e[0] == "mcall" and e[2] == "unwrap" and not e[3]):
            return None
        c = e[1]
        if not (c[0] == "call" and "::".join(c[1]) == "vu64::decode" and len(c[2]) == 1):
            return None
        if self.ty(c[2][0]) != BYTES:
            fail("%s: vu64::decode of something that is not known to be a byte sequence: %s"
                 % (self.where, self.text(c[2][0])))
        return self.atom(c[2][0])

    def cond_facts(self, c, positive):
        """facts about local variables that hold in the then- (positive) / else-branch of `if c`"""
        if c[0] == "bin" and c[1] == "<" and c[2][0] == "path" and len(c[2][1]) == 1 and c[3][0] == "num":
            return [("lt" if positive else "ge", c[2][1][0], c[3][1])]
        return []

    def copy_from_slice(self, tgt, src):
        """`tgt.copy_from_slice(src)`: (Lean variable, its new value).  `copy_from_slice` panics
        unless both sides have the same length, and a range index panics when out of bounds; the
        shapes accepted here are those where this is excluded syntactically, so no panic path
        has to be modelled:
          A. `a[..n].copy_from_slice(S)`, `a` a local array of fixed length L, `n` bound by
             `let n = S.len()`, inside the then-branch of `if n < K` with K ≤ L:   a := S ++ a.drop n
          B. `a.copy_from_slice(&S[..K])`, `a` a local array of fixed length K, inside a branch
             where `m ≥ K'` is known for `let m = S.len()`, K ≤ K':               a := S.take K
          C. `a.copy_from_slice(v)` for a plain variable `v` (as in MyHasher::write, where the
             branch condition `len == 8` is what makes the lengths agree):          a := v
        """
        if tgt[0] == "sliceto":
            base, hi = tgt[1], tgt[2]
            if not (base[0] == "path" and len(base[1]) == 1 and base[1][0] in self.static_len):
                fail("%s: copy_from_slice into a range of something that is not a local fixed-length array: %s"
                     % (self.where, self.text(base)))
            a = base[1][0]
            L = self.static_len[a]
            if src[0] == "sliceto" or self.ty(src) != BYTES:
                fail("%s: copy_from_slice into `%s[..]` from an unsupported source" % (self.where, a))
            sx = self.ex(src)
            if not (hi[0] == "path" and len(hi[1]) == 1 and self.len_alias.get(hi[1][0]) == sx):
                fail("%s: `%s[..%s].copy_from_slice(%s)`: the bound is not syntactically the length of the source"
                     % (self.where, a, self.text(hi), self.text(src)))
            n = hi[1][0]
            if not any(f[0] == "lt" and f[1] == n and f[2] <= L for f in self.facts):
                fail("%s: `%s[..%s]`: no enclosing `if %s < K` with K ≤ %d" % (self.where, a, n, n, L))
            av = lean_ident(a)
            return av, "(%s ++ (%s).drop %s)" % (self.atom(src), av, lean_ident(n))
        if src[0] == "sliceto":
            if not (tgt[0] == "path" and len(tgt[1]) == 1 and tgt[1][0] in self.static_len):
                fail("%s: copy_from_slice of a range into something that is not a local fixed-length array: %s"
                     % (self.where, self.text(tgt)))
            a = tgt[1][0]
            L = self.static_len[a]
            base, hi = src[1], src[2]
            if self.ty(base) != BYTES:
                fail("%s: range index on something that is not known to be a byte sequence: %s"
                     % (self.where, self.text(base)))
            if not (hi[0] == "num" and hi[1] == L):
                fail("%s: `%s.copy_from_slice(&%s[..%s])`: the range is not the length %d of the array"
                     % (self.where, a, self.text(base), self.text(hi), L))
            bx = self.ex(base)
            if not any(f[0] == "ge" and self.len_alias.get(f[1]) == bx and f[2] >= L for f in self.facts):
                fail("%s: `%s[..%d]`: not inside a branch where the length is known to be ≥ %d"
                     % (self.where, self.text(base), L, L))
            return lean_ident(a), "((%s).take %d)" % (bx, L)
        if tgt[0] == "path" and len(tgt[1]) == 1:
            self.static_len.pop(tgt[1][0], None)       # the new length is that of `src`, not known here
        return self.var_name(tgt), self.ex(src)

    def var_name_text(self, t):
        if t in self.state_vars:
            return self.state_vars[t]
        return lean_ident(t)

    def var_name(self, e):
        return self.var_name_text(self.text(e))

    def tailx(self, e, wrap):
        """expression in tail/return position of a (possibly partial) function."""
        if e is not None and e[0] == "rawtail":
            return e[1]
        if e is None:
            fail(self.where + ": missing tail expression")
        if e[0] == "panicx":
            self.partial = True
            return "none"
        if e[0] == "returnx":
            return self.tailx(e[1], wrap)
        if e[0] == "block":
            return "(" + self.seq(e[1], e[2], wrap) + ")"
        if e[0] == "if" and e[3] is not None:
            return "(if %s then %s else %s)" % (self.cond(e[1]), self.tailx(e[2], wrap), self.tailx(e[3], wrap))
        if e[0] == "match":
            return self.match(e, wrap)
        if e[0] == "call" and (e[1][-1] in self.partial_fns):
            self.partial = True
            return "(%s %s)" % (self.partial_fns[e[1][-1]], " ".join(self.atom(a) for a in e[2]))
        d = self.decode_unwrap(e)
        if d is not None:
            # `vu64::decode(X).unwrap()`: panics (none) when X is not a vu64
            self.partial = True
            return "((Abyss.Vu64.decode %s).map (·.1))" % d
        s = self.ex(e)
        return ("(some %s)" % s) if wrap else s

    def atom(self, e):
        s = self.ex(e)
        return s if re.match(r"^[A-Za-z0-9_.']+$", s) else "(" + s + ")"

    def match(self, e, wrap):
        scrut = self.text(e[1])
        if scrut not in self.subst:
            fail("%s: match on %s is not configured" % (self.where, scrut))
        out = "(match %s with" % self.subst[scrut][0]
        for path, binder, body in e[2]:
            ctor = "." + lean_ident(lower_first(path[-1]))
            if binder:
                self.vt[binder] = "u64"
                out += " | %s %s => %s" % (ctor, lean_ident(binder), self.tailx(body, wrap))
            else:
                out += " | %s => %s" % (ctor, self.tailx(body, wrap))
        return out + ")"

    def forget(self, v):
        """a (re)declared or assigned variable: what was known about its former value is dropped"""
        self.static_len.pop(v, None)
        self.len_alias.pop(v, None)
        self.facts = [f for f in self.facts if f[1] != v]
        for n in [n for n, sx in self.len_alias.items() if mentions(sx, lean_ident(v))]:
            del self.len_alias[n]

    def known(self):
        return (dict(self.static_len), dict(self.len_alias), list(self.facts))

    def after_branches(self, before, states, assigned):
        """what is still known after control flow joins: known before, unchanged in every branch,
        and not about a variable that a branch assigns"""
        for v in assigned:
            self.forget(v)
        out = []
        for i in (0, 1):
            out.append({v: x for v, x in before[i].items() if all(st[i].get(v) == x for st in states)})
        self.static_len, self.len_alias = out
        self.facts = [f for f in before[2] if f[1] not in assigned and all(f in st[2] for st in states)]

    def bind(self, pat):
        if pat[0] == "pvar":
            return lean_ident(pat[1])
        return "(" + ", ".join(self.bind(p) for p in pat[1]) + ")"

    def seq(self, stmts, tail, wrap):
        """statement list + tail -> Lean term."""
        if not stmts:
            return self.tailx(tail, wrap)
        st, rest = stmts[0], stmts[1:]
        k = st[0]
        if k == "dassert":
            self.notes.append("dropped " + st[1])
            return self.seq(rest, tail, wrap)
        if k == "let":
            _, pat, ty, e, _mut = st
            txt = self.text(e)
            if txt in self.subst and self.subst[txt][0] is None:
                return self.seq(rest, tail, wrap)              # configured to be dropped
            d = self.decode_unwrap(e)
            if d is not None:
                # `let x: u64 = vu64::decode(X).unwrap();` panics (none) when X is not a vu64
                if pat[0] != "pvar" or ty != "u64":
                    fail("%s: `let … = vu64::decode(..).unwrap()` must bind one variable annotated `u64`" % self.where)
                self.partial = True
                self.forget(pat[1])
                self.vt[pat[1]] = "u64"
                return "match Abyss.Vu64.decode %s with\n  | none => none\n  | some (%s, _) =>\n  %s" % (
                    d, lean_ident(pat[1]), self.seq(rest, tail, wrap))
            rhs = self.ex(e)
            t = (ty if ty in WIDTH else None) or self.ty(e)
            alias = None
            if e[0] == "mcall" and e[2] == "len" and not e[3] and not _mut and self.ty(e[1]) == BYTES:
                alias = self.ex(e[1])                          # `let n = S.len()`
            for v in pat_vars(pat):
                self.forget(v)
            if pat[0] == "pvar":
                if e[0] == "repeat" and e[1] == ("num", 0) and e[2][0] == "num":
                    self.static_len[pat[1]] = e[2][1]          # `let mut a = [0u8; N]`
                if alias is not None and not mentions(alias, lean_ident(pat[1])):
                    self.len_alias[pat[1]] = alias
            if t is None and e[0] == "num" and _mut:
                t = self.default_int or None
            if pat[0] == "pvar" and t:
                self.vt[pat[1]] = t
            if pat[0] == "ptuple" and e[0] == "block" and e[2] is not None and e[2][0] == "tuple":
                # types of tuple components from the block's tail
                saved = dict(self.vt)
                for s2 in e[1]:
                    if s2[0] == "let" and s2[1][0] == "pvar":
                        tt = (s2[2] if s2[2] in WIDTH else None) or self.ty(s2[3])
                        if tt:
                            self.vt[s2[1][1]] = tt
                for p, comp in zip(pat[1], e[2][1]):
                    tt = self.ty(comp)
                    if p[0] == "pvar" and tt:
                        saved[p[1]] = tt
                self.vt = saved
            return "let %s := %s\n  %s" % (self.bind(pat), rhs, self.seq(rest, tail, wrap))
        if k == "assign":
            _, op, lhs, rhs = st
            if self.text(lhs) in self.state_vars:
                v = self.state_vars[self.text(lhs)]
                new = self.ex(rhs) if op == "=" else self.ex(("bin", op[:-1], lhs, rhs))
                return "let %s := %s\n  %s" % (v, new, self.seq(rest, tail, wrap))
            if lhs[0] != "path" or len(lhs[1]) != 1:
                fail("%s: unsupported assignment target %s" % (self.where, self.text(lhs)))
            v = lhs[1][0]
            if op == "=":
                new = self.ex(rhs)
            else:
                new = self.ex(("bin", op[:-1], lhs, rhs))
            self.forget(v)
            return "let %s := %s\n  %s" % (lean_ident(v), new, self.seq(rest, tail, wrap))
        if k == "expr":
            e = st[1]
            if e[0] == "block":
                # plain nested block: its statements act on the enclosing variables
                if e[2] is not None:
                    fail(self.where + ": nested block with a value in statement position")
                return self.seq(list(e[1]) + list(rest), tail, wrap)
            if e[0] == "mcall" and e[2] == "copy_from_slice" and len(e[3]) == 1:
                # `x.copy_from_slice(src)` with equal lengths: x := src
                tgt, new = self.copy_from_slice(e[1], e[3][0])
                return "let %s := %s\n  %s" % (tgt, new, self.seq(rest, tail, wrap))
            if e[0] == "if" and e[3] is not None and e[3][0] == "block" and e[2][2] is None and e[3][2] is None:
                # statement `if c { … } else { … }` that only assigns outer variables
                vs = assigned_vars(e[2][1] + e[3][1], self)
                if not vs:
                    fail("%s: `if` statement without effect" % self.where)
                names = [self.var_name_text(v) for v in vs]
                tup = names[0] if len(names) == 1 else "(" + ", ".join(names) + ")"
                saved = dict(self.vt)
                known = self.known()
                c = self.cond(e[1])
                self.facts = known[2] + self.cond_facts(e[1], True)
                a = self.seq(e[2][1], ("rawtail", tup), False)
                ka = self.known()
                self.vt = dict(saved)
                self.static_len, self.len_alias = dict(known[0]), dict(known[1])
                self.facts = known[2] + self.cond_facts(e[1], False)
                b = self.seq(e[3][1], ("rawtail", tup), False)
                kb = self.known()
                self.vt = saved
                self.after_branches(known, [ka, kb], [v for v in vs if v not in self.state_vars])
                return "let %s := if %s then (%s) else (%s)\n  %s" % (tup, c, a, b, self.seq(rest, tail, wrap))
            if e[0] == "if" and e[3] is None:
                then = e[2]
                # `if c { return e; }` / `if c { panic!() }`
                last = then[1][-1] if then[1] else None
                if then[2] is None and last is not None and last[0] in ("return", "panic") and len(then[1]) == 1:
                    if last[0] == "panic":
                        self.partial = True
                        tv = "none"
                    else:
                        tv = self.tailx(last[1], wrap)
                    return "if %s then %s else\n  %s" % (self.cond(e[1]), tv, self.seq(rest, tail, wrap))
                if then[2] is not None and then[2][0] == "panicx" and not then[1]:
                    self.partial = True
                    return "if %s then none else\n  %s" % (self.cond(e[1]), self.seq(rest, tail, wrap))
                fail("%s: unsupported `if` statement shape" % self.where)
            fail("%s: unsupported expression statement %s" % (self.where, e[0]))
        if k == "for" and assigned_vars(st[3][1], self):
            # loop that updates outer variables: a left fold over the iterated list
            _, pat, it, body = st
            vs = assigned_vars(body[1], self)
            names = [self.var_name_text(v) for v in vs]
            tup = names[0] if len(names) == 1 else "(" + ", ".join(names) + ")"
            if body[2] is not None:
                fail(self.where + ": `for` body with a value")
            itx = self.iter(it)
            known = self.known()
            for v in pat_vars(pat):
                self.forget(v)
            for v in vs:
                if v not in self.state_vars:
                    self.forget(v)                 # the body sees the result of any number of rounds
            inner = self.seq(body[1], ("rawtail", tup), False)
            self.after_branches(known, [self.known()], [v for v in vs if v not in self.state_vars])
            return "let %s := (%s).foldl (fun %s %s =>\n    %s) %s\n  %s" % (
                tup, itx, tup, self.bind(pat), inner, tup, self.seq(rest, tail, wrap))
        if k == "for":
            _, pat, it, body = st
            # shape: for PAT in ITER { if COND { return E; } }
            b = body[1]
            if not (len(b) == 1 and body[2] is None and b[0][0] == "expr" and b[0][1][0] == "if"
                    and b[0][1][3] is None):
                fail("%s: unsupported `for` body (only `if c { return e; }`)" % self.where)
            ife = b[0][1]
            then = ife[2]
            if not (len(then[1]) == 1 and then[1][0][0] == "return" and then[2] is None):
                fail("%s: unsupported `for` body (only `if c { return e; }`)" % self.where)
            if it[0] == "bin" and it[1] == "..":
                fail(self.where + ": range parsed as binary")
            itx = self.iter(it)
            v = self.bind(pat)
            cond = self.cond(ife[1])
            ret = self.tailx(then[1][0][1], wrap)
            return "match (%s).find? (fun %s => %s) with\n  | some %s => %s\n  | none =>\n  %s" % (
                itx, v, cond, v, ret, self.seq(rest, tail, wrap))
        if k == "return":
            return self.tailx(st[1], wrap)
        if k == "panic":
            self.partial = True
            return "none"
        fail("%s: unsupported statement %s" % (self.where, k))

    def iter(self, it):
        if it[0] == "range":
            return "(List.range' %s (%s - %s))" % (self.ex(it[1]), self.ex(it[2]), self.ex(it[1]))
        return self.ex(it)


def assigned_vars(stmts, emit):
    """names (rust text) of variables assigned (not declared) in a statement list, in order"""
    out = []
    declared = set()

    def visit(sts):
        for st in sts:
            k = st[0]
            if k == "let" and st[1][0] == "pvar":
                declared.add(st[1][1])
            elif k == "assign":
                t = emit.text(st[2])
                if t not in declared and t not in out:
                    out.append(t)
            elif k == "expr":
                e = st[1]
                if e[0] == "if":
                    visit(e[2][1])
                    if e[3] is not None and e[3][0] == "block":
                        visit(e[3][1])
                elif e[0] == "block":
                    visit(e[1])
                elif e[0] == "mcall" and e[2] == "copy_from_slice":
                    t = emit.text(e[1][1] if e[1][0] == "sliceto" else e[1])
                    if t not in declared and t not in out:
                        out.append(t)
            elif k == "for":
                visit(st[3][1])
    visit(stmts)
    return out


def pat_vars(pat):
    if pat[0] == "pvar":
        return [pat[1]]
    return [v for p in pat[1] for v in pat_vars(p)]


def mentions(lean_text, ident):
    """does the Lean text contain the identifier as a whole word?"""
    return re.search(r"(?<![A-Za-z0-9_.'])%s(?![A-Za-z0-9_'])" % re.escape(ident), lean_text) is not None


def lean_ident(s):
    parts = s.strip("_").split("_")
    out = parts[0] + "".join(p.capitalize() for p in parts[1:])
    if out in ("end", "from", "at", "open", "in", "do", "then", "else", "if", "fun", "let", "have", "show", "by", "match", "with"):
        out += "'"
    return out


def lower_first(s):
    return s[0].lower() + s[1:]


# `a..b` ranges: patch the parser to recognise them inside `for … in a..b`
_old_expr = P.expr


def _expr_with_range(self, lvl=0, no_struct=False):
    e = _old_expr(self, lvl, no_struct)
    if lvl == 0 and self.at(".."):
        self.next()
        hi = _old_expr(self, 0, no_struct)
        return ("range", e, hi)
    return e


P.expr = _expr_with_range


# ----------------------------------------------------------------------------- driver
def translate_fn(repo, feats, relpath, rust_name, lean_name, params, subst, consts, partial_fns,
                 self_arrays=None, var_types=None, ret_tuple=None, pick_let=None, state_vars=None,
                 pure_fns=None, default_int=None, result=None, impl=None, expect_sig=None,
                 force_option=False, newtypes=None):
    """impl: look the function up inside the block `impl <impl> { … }` only.
    expect_sig: the function's signature (text between its name and its body) must be this,
    token for token — the parameter names and types of `params`/`var_types` are configuration,
    this ties them to the source.
    force_option: the Lean function returns `Option` even when no panic path was found.
    newtypes: names of tuple-struct newtypes over `Vec<u8>` whose constructor is erased."""
    where = "%s::%s" % (relpath, rust_name) if impl is None else "%s::<impl %s>::%s" % (relpath, impl, rust_name)
    src = strip_comments(open(os.path.join(repo, relpath)).read())
    if impl is not None:
        src = find_impl(src, impl, where)
        n = len(re.findall(r"\bfn\s+%s\b" % re.escape(rust_name), src))
        if n != 1:
            fail("%s: %d definitions of fn %s in the impl block" % (where, n, rust_name))
    item = find_item(src, "fn", rust_name, where)
    if expect_sig is not None:
        got, want = fn_signature(item), [v for _k, v in tokenize(expect_sig)]
        if got != want:
            fail("%s: signature is `%s`, the translation is configured for `%s`" % (where, " ".join(got), " ".join(want)))
    toks = tokenize(item)
    if pick_let:
        # translate only the first `let <pick_let> = <expr>;` of the function whose cfg
        # attributes hold; the rest of the function is not parsed.
        body = None
        for i in range(len(toks) - 2):
            if toks[i][1] == "let" and toks[i + 1][1] == pick_let and toks[i + 2][1] == "=":
                # attributes directly in front of the `let`
                j = i
                ok = True
                while j > 0 and toks[j - 1][1] == "]":
                    depth = 0
                    k2 = j - 1
                    while True:
                        if toks[k2][1] == "]":
                            depth += 1
                        elif toks[k2][1] == "[":
                            depth -= 1
                            if depth == 0:
                                break
                        k2 -= 1
                    if toks[k2 - 1][1] != "#":
                        break
                    ok = ok and P(toks[k2 - 1:j], feats, where).attrs()
                    j = k2 - 1
                if not ok:
                    continue
                st = P(toks[i:], feats, where).stmt()
                body = ("block", [], st[3])
                break
        if body is None:
            fail("%s: statement `let %s = …` not found" % (where, pick_let))
    else:
        # skip signature up to the body '{'
        p = P(toks, feats, where)
        depth = 0
        while True:
            k, v = p.peek()
            if v == "{" and depth == 0:
                break
            if v in ("(", "<", "["):
                depth += 1
            if v in (")", ">", "]"):
                depth -= 1
            if v == ">>":
                depth -= 2
            if v == "":
                fail(where + ": body not found")
            p.next()
        body = p.block()
    em = Emit(where, subst, consts, partial_fns, var_types or {}, self_arrays or {})
    em2 = Emit(where, subst, consts, partial_fns, var_types or {}, self_arrays or {})
    for x in (em, em2):
        x.state_vars = dict(state_vars or {})
        x.pure_fns = dict(pure_fns or {})
        x.default_int = default_int
        x.newtypes = set(newtypes or ())
        for (pn, pt) in params:
            x.vt[pn] = pt
    if result is not None:
        # the function returns () and its effect is the final value of a state variable
        body = ("block", body[1], ("rawtail", result))
    # first pass to learn whether the function is partial
    em2.seq(body[1], body[2], wrap=False)
    partial = em2.partial
    term = em.seq(body[1], body[2], wrap=partial or force_option)
    return partial, term, em.notes


def const_value(repo, feats, relpath, name, consts_env):
    where = "%s::%s" % (relpath, name)
    src = strip_comments(open(os.path.join(repo, relpath)).read())
    item = find_item(src, "const", name, where)
    p = P(tokenize(item), feats, where)
    e = p.expr()
    return eval_const(e, consts_env, where)


def eval_const(e, env, where):
    k = e[0]
    if k == "num":
        return e[1]
    if k == "array":
        return [eval_const(x, env, where) for x in e[1]]
    if k == "repeat":
        return [eval_const(e[1], env, where)] * eval_const(e[2], env, where)
    if k == "bin":
        a, b = eval_const(e[2], env, where), eval_const(e[3], env, where)
        return {"+": a + b, "-": a - b, "*": a * b, "/": a // b if b else 0, "<<": a << b, ">>": a >> b}[e[1]]
    if k == "path" and len(e[1]) == 1 and e[1][0] in env:
        return env[e[1][0]]
    if k == "cast":
        return eval_const(e[1], env, where)
    fail("%s: unsupported constant expression (%s)" % (where, k))


def lean_val(v):
    if isinstance(v, list):
        return "[" + ", ".join(str(x) for x in v) + "]"
    return str(v)


def signature_of(repo, feats, relpath):
    """byte string returned by `fn signature() -> [u8; 8]`."""
    where = relpath + "::signature"
    src = strip_comments(open(os.path.join(repo, relpath)).read())
    item = find_item(src, "fn", "signature", where)
    m = re.search(r"\{\s*\*?\s*(b\"(?:[^\"\\]|\\.)*\")\s*\}", item)
    if not m:
        fail(where + ": body is not a byte-string literal")
    return parse_bstr(m.group(1))


def main():
    repo, out = sys.argv[1], sys.argv[2]
    feats = default_features(repo)
    os.makedirs(out, exist_ok=True)
    K = "src/filedb/inner/key.rs"
    V = "src/filedb/inner/val.rs"
    H = "src/filedb/inner/htx.rs"
    PI = "src/filedb/inner/piece.rs"
    L = "src/lib.rs"

    # ---------------- constants
    env = {}
    C = []

    def const(lean, rel, name, local_env=None):
        e = dict(env)
        if local_env:
            e.update(local_env)
        v = const_value(repo, feats, rel, name, e)
        C.append((lean, v, "%s `%s`" % (rel, name)))
        return v

    key_first = const("keyFreeOffset1st", K, "REC_SIZE_FREE_OFFSET_1ST")
    const("keyFreeOffsets", K, "REC_SIZE_FREE_OFFSET", {"REC_SIZE_FREE_OFFSET_1ST": key_first})
    const("keySizeAry", K, "REC_SIZE_ARY")
    const("keyHeaderSz", K, "DAT_HEADER_SZ")
    const("keySig1", K, "DAT_HEADER_SIGNATURE")
    const("keyChunkSize", K, "CHUNK_SIZE")
    val_first = const("valFreeOffset1st", V, "REC_SIZE_FREE_OFFSET_1ST")
    const("valFreeOffsets", V, "REC_SIZE_FREE_OFFSET", {"REC_SIZE_FREE_OFFSET_1ST": val_first})
    const("valSizeAry", V, "REC_SIZE_ARY")
    const("valHeaderSz", V, "DAT_HEADER_SZ")
    const("valSig1", V, "DAT_HEADER_SIGNATURE")
    const("valChunkSize", V, "CHUNK_SIZE")
    const("htxHeaderSz", H, "HTX_HEADER_SZ")
    const("htxSig1", H, "HTX_HEADER_SIGNATURE")
    const("htxChunkSize", H, "CHUNK_SIZE")
    const("defaultHtSize", H, "DEFAULT_HT_SIZE")
    const("htxHtSizeOffset", H, "HTX_HT_SIZE_OFFSET")
    const("htxItemCountOffset", H, "HTX_ITEM_COUNT_OFFSET")
    for lean, f in (("sigString", "kt_dbstring.rs"), ("sigBytes", "kt_dbbytes.rs"), ("sigU64", "kt_dbu64.rs"),
                    ("sigI64", "kt_dbi64.rs"), ("sigVu64", "kt_dbvu64.rs")):
        rel = "src/filedb/dbmap/" + f
        C.append((lean, signature_of(repo, feats, rel), rel + " `signature()`"))

    with open(os.path.join(out, "Consts.lean"), "w") as fh:
        fh.write("/-! GENERATED by tools/rs2lean.py from /repo — do not edit. Constants and tables. -/\n")
        fh.write("namespace Abyss.Gen\n\n")
        for lean, v, src in C:
            ty = "List Nat" if isinstance(v, list) else "Nat"
            fh.write("/-- %s -/\ndef %s : %s := %s\n\n" % (src, lean, ty, lean_val(v)))
        fh.write("end Abyss.Gen\n")

    # ---------------- functions
    F = []

    def fn(lean, rel, rust, params, sig, **kw):
        item = "`%s`" % rust if not kw.get("impl") else "`impl %s`, `fn %s`" % (kw["impl"], rust)
        partial, term, notes = translate_fn(repo, feats, rel, rust, lean, params, kw.pop("subst", {}),
                                            kw.pop("consts", {}), kw.pop("partial_fns", {}), **kw)
        F.append((lean, sig, partial, term, "%s %s" % (rel, item), notes))
        return partial

    fn("xorshift64s", L, "_xorshift64s", [("a", "u64")], "(a : Nat) : Nat")
    # MyHasher::write(&mut self, bytes): the state `self.0` becomes parameter/result `h`
    fn("hasherWrite", L, "write", [("h", "u64")], "(h : Nat) (bytes : List Nat) : Nat",
       state_vars={"self.0": "h"}, pure_fns={"_xorshift64s": "xorshift64s"}, default_int="u64", result="h",
       var_types={"b": "u8"})
    arrays = {"self.size_ary": "sizeAry", "self.free_list_offset": "freeListOffset"}
    sub_ps = {"piece_size.as_value()": ("pieceSize0", "u32"), "need_size.as_value()": ("needSize0", "u32")}
    fn("roundup", PI, "roundup", [("piece_size", "u32")], "(sizeAry : List Nat) (pieceSize0 : Nat) : Nat",
       self_arrays=arrays, subst=sub_ps)
    fn("isLargePieceSize", PI, "is_large_piece_size", [("piece_size", "u32")],
       "(sizeAry : List Nat) (pieceSize0 : Nat) : Bool", self_arrays=arrays, subst=sub_ps)
    fn("freePieceListOffsetOfHeader", PI, "free_piece_list_offset_of_header", [("piece_size", "u32")],
       "(freeListOffset sizeAry : List Nat) (pieceSize0 : Nat) : Nat", self_arrays=arrays, subst=sub_ps)
    # value: (encorded_piece_len, piece_len, value_len)
    fn("valueEncodedPieceSize", V, "encoded_piece_size", [], "(valueLen : Nat) : Nat × Nat × Nat",
       subst={"self.value.len()": ("valueLen", "usize")})
    fn("keyEncodedPieceSize", K, "encoded_piece_size", [],
       "(keyLen valueOffset bucketNextOffset : Nat) : Nat × Nat × Nat",
       subst={"key.len()": ("keyLen", "usize"), "self.key.as_bytes()": (None, None),
              "self.value_offset.as_value()": ("valueOffset", "u64"),
              "self.bucket_next_offset.as_value()": ("bucketNextOffset", "u64")})
    part = fn("capacityToBucketsSize", H, "capacity_to_buckets_size", [("cap", "u64")], "(cap : Nat) : Option Nat")
    if not part:
        fail(H + "::capacity_to_buckets_size: expected a panic for capacity 0")
    fn("bucketsOf", H, "open_with_params", [], "(p : HashBucketsParam) : Option Nat",
       subst={"params.buckets_size": ("p", None)}, consts={"DEFAULT_HT_SIZE": "defaultHtSize"},
       partial_fns={"capacity_to_buckets_size": "capacityToBucketsSize"}, pick_let="buckets_size")
    # htx file length at creation: `let off = NodePieceOffset::new(HTX_HEADER_SZ + buckets_size * 8 + buckets_size / 8);`
    fn("htxInitLen", H, "open_with_params", [("buckets_size", "u64")], "(bucketsSize : Nat) : Nat",
       consts={"HTX_HEADER_SZ": "htxHeaderSz"}, pick_let="off")

    # ---- key types: stored-key comparison and integer <-> key conversions
    # (src/filedb/dbmap/kt_db*.rs; a key newtype `DbX(Vec<u8>)` is its byte list)
    KT = "src/filedb/dbmap/"
    for sfx, ty_ in (("String", "DbString"), ("Bytes", "DbBytes"), ("U64", "DbU64"), ("I64", "DbI64"),
                     ("Vu64", "DbVu64")):
        # `none` = the call panics (`vu64::decode(..).unwrap()`)
        fn("cmpU8" + sfx, KT + "kt_%s.rs" % ty_.lower(), "cmp_u8", [("other", BYTES)],
           "(mine other : List Nat) : Option Ordering", impl="DbMapKeyType for " + ty_,
           expect_sig="(&self, other: &[u8]) -> std::cmp::Ordering", force_option=True,
           subst={"self.0": ("mine", BYTES)})

    def conv(lean, file_ty, impl, sig_rs, params, sig_lean, arg=None, **kw):
        subst = {arg + ".0": ("k", BYTES)} if arg else {}
        return fn(lean, KT + "kt_%s.rs" % file_ty.lower(), "from", params, sig_lean, impl=impl, expect_sig=sig_rs,
                  subst=subst, newtypes=[file_ty], **kw)

    conv("u64ToKey", "DbU64", "From<u64> for DbU64", "(a: u64) -> Self", [("a", "u64")], "(a : Nat) : List Nat")
    conv("i64ToKey", "DbI64", "From<i64> for DbI64", "(a: i64) -> Self", [("a", "i64")], "(a : Int) : List Nat")
    conv("vu64ToKey", "DbVu64", "From<u64> for DbVu64", "(a: u64) -> Self", [("a", "u64")], "(a : Nat) : List Nat")
    conv("bytesKeyOfU64", "DbBytes", "From<u64> for DbBytes", "(a: u64) -> Self", [("a", "u64")],
         "(a : Nat) : List Nat")
    conv("stringKeyOfU64", "DbString", "From<u64> for DbString", "(a: u64) -> Self", [("a", "u64")],
         "(a : Nat) : List Nat")
    conv("keyToU64", "DbU64", "From<&DbU64> for u64", "(db_int: &DbU64) -> u64", [], "(k : List Nat) : Nat",
         arg="db_int")
    conv("keyToI64", "DbI64", "From<&DbI64> for i64", "(db_int: &DbI64) -> i64", [], "(k : List Nat) : Int",
         arg="db_int")
    part = conv("keyToVu64", "DbVu64", "From<&DbVu64> for u64", "(db_int: &DbVu64) -> u64", [],
                "(k : List Nat) : Option Nat", arg="db_int")
    if not part:
        fail(KT + "kt_dbvu64.rs::<impl From<&DbVu64> for u64>::from: expected a panic path (`unwrap`)")

    with open(os.path.join(out, "Funcs.lean"), "w") as fh:
        fh.write("import Abyss.Vu64\nimport Abyss.Gen.Consts\n")
        fh.write("/-! GENERATED by tools/rs2lean.py from /repo — do not edit. Pure functions. -/\n")
        fh.write("namespace Abyss.Gen\n\n")
        fh.write("/-- `u64::next_power_of_two` (for values whose result fits; 0 ↦ 1). -/\n")
        fh.write("def nextPowerOfTwo (x : Nat) : Nat := if x ≤ 1 then 1 else 2 ^ (Nat.log2 (x - 1) + 1)\n\n")
        fh.write("/-- `slice.chunks(k)`: consecutive pieces of `k` elements, the last one may be shorter -/\n")
        fh.write("def chunksOf (k : Nat) (l : List Nat) : List (List Nat) :=\n  (List.range ((l.length + k - 1) / k)).map fun i => (l.drop (i * k)).take k\n\n")
        fh.write("/-- `u64::from_be_bytes` -/\ndef beVal (bs : List Nat) : Nat := bs.foldl (fun a b => a * 256 + b) 0\n\n")
        fh.write("/-- `<[u8] as Ord>::cmp`: lexicographic order of byte slices -/\n")
        fh.write("def cmpBytes : List Nat → List Nat → Ordering\n  | [], [] => .eq\n  | [], _ :: _ => .lt\n"
                 "  | _ :: _, [] => .gt\n"
                 "  | x :: xs, y :: ys => if x < y then .lt else if x > y then .gt else cmpBytes xs ys\n\n")
        fh.write("/-- `uN::to_be_bytes`: `k` big-endian bytes of `v` -/\n")
        fh.write("def beBytes (v k : Nat) : List Nat := (Abyss.Vu64.leBytes v k).reverse\n\n")
        fh.write("/-- the `i64` with the 64-bit two's complement pattern `u` (`u < 2^64`) -/\n")
        fh.write("def toI64 (u : Nat) : Int := if u < 2^63 then (u : Int) else (u : Int) - 2^64\n\n")
        fh.write("/-- src/filedb/mod.rs `HashBucketsParam` -/\n")
        fh.write("inductive HashBucketsParam where\n  | bucketsSize (x : Nat)\n  | capacity (x : Nat)\n  | default\n  deriving Repr, DecidableEq\n\n")
        for lean, sig, partial, term, src, notes in F:
            fh.write("/-- %s%s -/\n" % (src, ("; " + ", ".join(sorted(set(notes)))) if notes else ""))
            fh.write("def %s %s :=\n  %s\n\n" % (lean, sig, term))
        fh.write("end Abyss.Gen\n")
    print("rs2lean: wrote %d constants, %d functions (features: %s)" % (len(C), len(F), ",".join(sorted(feats))))


if __name__ == "__main__":
    try:
        main()
    except TrError as e:
        print("rs2lean: UNSUPPORTED: %s" % e, file=sys.stderr)
        # nothing was emitted; a Funcs.lean left over from an earlier run must not be mistaken for
        # the translation of this source: replace it by a file that fails to build with the reason
        if len(sys.argv) > 2 and os.path.isdir(sys.argv[2]):
            msg = ("rs2lean: UNSUPPORTED: %s" % e).replace("\\", "\\\\").replace('"', '\\"').replace("\n", " ")
            with open(os.path.join(sys.argv[2], "Funcs.lean"), "w") as fh:
                fh.write("/-! GENERATED by tools/rs2lean.py — the translation FAILED, nothing was emitted. -/\n")
                fh.write('#eval (throw (IO.userError "%s") : IO Unit)\n' % msg)
        sys.exit(2)
