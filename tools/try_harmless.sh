#!/bin/sh
# applies a (property-preserving) patch to /repo, runs the translator and the Lean build, reports, undoes the patch
#   usage: try_harmless.sh <patch>…
for P in "$@"; do
  git -C /repo apply "$P" || { echo "$(basename $P): does not apply"; continue; }
  T0=$(date +%s)
  OUT=$(python3 /verif/tools/rs2lean.py /repo /verif/lean/Abyss/Gen 2>&1); RC=$?
  if [ $RC -ne 0 ]; then echo "$(basename $P): TRANSLATOR rc=$RC: $(echo "$OUT" | grep -m1 UNSUPPORTED | cut -c1-300)";
  else
    B=$(cd /verif/lean && lake build Abyss abyss-driver 2>&1 | grep -E "^error|error:" | head -3)
    if [ -n "$B" ]; then echo "$(basename $P): BUILD: $(echo "$B" | cut -c1-300)"; else echo "$(basename $P): ok ($(( $(date +%s) - T0 )) s)"; fi
  fi
  git -C /repo checkout -- .
done
python3 /verif/tools/rs2lean.py /repo /verif/lean/Abyss/Gen >/dev/null 2>&1; (cd /verif/lean && lake build Abyss abyss-driver 2>&1 | tail -1)
