#!/bin/sh
# confirm a proposed property-breaking change in a scratch worktree:
#   usage: confirm_mut.sh <name> <dir-with patch.diff + demo_*.rs>
# 1 the 55 tests pass with the change; 2 the demonstration fails with it; 3 passes without it.
set -u
NAME=$1; SRC=$2; WT=/tmp/confirm_$NAME
git -C /repo worktree remove --force $WT >/dev/null 2>&1
git -C /repo worktree add --detach $WT HEAD >/dev/null 2>&1 || exit 2
cd $WT
DEMO=$(ls $SRC/demo_*.rs | head -1); DN=$(basename $DEMO .rs)
r3=FAIL; r1=FAIL; r2=FAIL
cp $DEMO tests/; timeout 600 cargo test --offline --test $DN >/tmp/confirm_$NAME.3.log 2>&1 && r3=pass
rm tests/$DN.rs
git apply $SRC/patch.diff || { echo "patch does not apply"; cd /; git -C /repo worktree remove --force $WT; exit 2; }
timeout 900 cargo test --workspace --no-fail-fast --offline >/tmp/confirm_$NAME.1.log 2>&1
P=$(grep -E "^test result" /tmp/confirm_$NAME.1.log | awk '{p+=$4; f+=$6} END {print p":"f}')
[ "$P" = "55:0" ] && r1=pass
cp $DEMO tests/; timeout 600 cargo test --offline --test $DN >/tmp/confirm_$NAME.2.log 2>&1 || r2=fails
echo "suite_with_change=$r1 ($P) demo_with_change=$r2 demo_without_change=$r3"
cd /; git -C /repo worktree remove --force $WT
[ "$r1" = pass ] && [ "$r2" = fails ] && [ "$r3" = pass ]
