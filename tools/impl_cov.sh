#!/bin/sh
# one-off measurement (not part of any check): which lines of /repo/src the correspondence harness executes.
# Builds the harness with -C instrument-coverage on the nightly toolchain (its llvm-tools match), runs every
# quick check with that binary, and prints llvm-cov's per-file summary plus the never-executed lines.
#   usage: tools/impl_cov.sh [scratch-dir]      (scratch is removed at the end)
set -eu
S=${1:-/tmp/abyss-implcov}
B=$(dirname $(rustc +nightly --print target-libdir))/bin
rm -rf "$S"; mkdir -p "$S/prof"
(cd /verif/harness && CARGO_TARGET_DIR=$S/target RUSTFLAGS="--cfg abyssiniandb_verif -C instrument-coverage" cargo +nightly build --offline >/dev/null 2>&1)
for i in 01 02 03 04 05 06 07 08 09 10 11 12 13 14 15 16 17 18; do
  ABYSS_HARNESS_BIN=$S/target/debug/abyss-harness LLVM_PROFILE_FILE=$S/prof/p-%p-%m.profraw /verif/check C$i --tier quick | grep -E '^(OK|VIOLATION)' >&2 || true
done
$B/llvm-profdata merge -sparse $S/prof/*.profraw -o $S/all.profdata
$B/llvm-cov report $S/target/debug/abyss-harness -instr-profile=$S/all.profdata --ignore-filename-regex='(\.cargo|rustc|harness/src|rustup)' | awk '{printf "%-50s %8s %8s %8s\n", $1, $8, $9, $10}'
$B/llvm-cov show $S/target/debug/abyss-harness -instr-profile=$S/all.profdata --ignore-filename-regex='(\.cargo|rustc|harness/src|rustup)' --show-line-counts-or-regions=false > $S/show.txt
python3 - "$S/show.txt" <<'PY'
import re,sys
cur=None
for l in open(sys.argv[1]):
    m=re.match(r'^(/repo/src/\S+):$',l.strip())
    if m: cur=m.group(1); continue
    m=re.match(r'^\s*(\d+)\|\s*0\|(.*)$',l.rstrip('\n'))
    if m and cur and 'fn ' in m.group(2): print("never called:",cur,m.group(1),m.group(2).strip()[:100])
PY
rm -rf "$S"
