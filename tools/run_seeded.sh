#!/bin/sh
# apply a seeded change to /repo, run the given checks, undo it.   usage: run_seeded.sh <patch.diff> Cxx [Cyy…]
set -u
PATCH=$1; shift
cd /verif
git -C /repo diff --quiet || { echo "/repo is not clean"; exit 2; }
git -C /repo apply $PATCH || exit 2
for p in "$@"; do
  out=$(./check $p 2>&1 | grep -E "^(OK|VIOLATION|violation detail|KNOWN)" | tr '\n' ' ')
  echo "$p: $out"
done
git -C /repo checkout -- .
# rebuild harness/lean state against the clean tree lazily: the next check does it
