#!/bin/sh
# apply a seeded change to /repo, run the given checks, undo it.   usage: run_seeded.sh <patch.diff> Cxx [Cyy…]
set -u
PATCH=$1; shift
cd /verif
git -C /repo diff --quiet || { echo "/repo is not clean"; exit 2; }
git -C /repo apply $PATCH || exit 2
for p in "$@"; do
  cp evidence/$p.json /tmp/evidence_$p.json.keep 2>/dev/null
  out=$(./check $p 2>&1 | grep -E "^(OK|VIOLATION|violation detail|KNOWN)" | tr '\n' ' ')
  echo "$p: $out"
  # the evidence file of a run against a changed tree is not kept
  mv /tmp/evidence_$p.json.keep evidence/$p.json 2>/dev/null
done
git -C /repo checkout -- .
# rebuild harness/lean state against the clean tree lazily: the next check does it
