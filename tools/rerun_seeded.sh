#!/bin/sh
# regression over the seeded changes: apply each to /repo, run the check of its property, undo.
#   usage: tools/rerun_seeded.sh [names…]     prints one line per change: caught ✓ / (m) / MISSED
cd /verif
NAMES=${*:-$(ls seeded)}
for n in $NAMES; do
  P=$(python3 -c "import json;print(json.load(open('seeded/$n/meta.json'))['property'])")
  R=$(tools/run_seeded.sh /verif/seeded/$n/patch.diff $P 2>&1)
  case "$R" in
    *no-failing-input-found*) echo "$n $P (m)";;
    *VIOLATION*) echo "$n $P ✓";;
    *) echo "$n $P MISSED: $(echo "$R" | tail -1 | cut -c1-200)";;
  esac
done
git -C /repo status --short | head -3
