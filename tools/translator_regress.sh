#!/bin/bash
# regression of the translator's tolerance and of its soundness guard (run after every change of tools/rs2lean.py):
#   1. every property-preserving rewrite of /verif/translator_tests/harmless/*.diff: the translator exits 0 and the
#      generated definitions equal those of the unchanged tree after comments are stripped and bound variables renamed
#      (tools/leannorm.py: identical / same-terms / same-alpha …)
#   2. every seeded change of /verif/seeded/*/patch.diff and every adversarial rewrite (behaviour changes dressed up as
#      renames / inlinings, /verif/translator_tests/adversarial/*.diff) is noticed: exit 2, or different terms —
#      except the seeded changes listed in OUTSIDE (changes outside the translated code)
# works in a scratch worktree of /repo's HEAD (never in /repo), removes it afterwards
W=$(mktemp -d /tmp/abyss-trreg.XXXXXX)
TR=/verif/tools/rs2lean.py
REPO=$W/repo
OUTSIDE=""
fail=0
git -C /repo worktree add --detach $REPO HEAD >/dev/null 2>&1 || { echo "cannot create the scratch worktree"; exit 2; }
restore() { git -C $REPO checkout -q -- . ; git -C $REPO clean -fdq src 2>/dev/null; }
trap 'git -C /repo worktree remove --force $REPO >/dev/null 2>&1; rm -rf $W' EXIT
mkdir -p $W/base
python3 $TR $REPO $W/base >/dev/null 2>$W/base.err || { echo "FAIL: translator fails on the unchanged tree: $(cat $W/base.err)"; exit 1; }
classify() {
    local p=$1 d=$W/cls
    rm -rf $d; mkdir -p $d
    restore
    if ! git -C $REPO apply $p 2>/dev/null; then echo "?noapply"; return; fi
    python3 $TR $REPO $d >/dev/null 2>$d/err; local rc=$?
    restore
    if [ $rc = 2 ]; then echo a; return; fi
    if [ $rc != 0 ]; then echo "?rc$rc"; return; fi
    if python3 /verif/tools/leannorm.py cmp $W/base $d >/dev/null; then echo c; else echo b; fi
}
echo "== 1. harmless rewrites: exit 0, same terms"
for p in /verif/translator_tests/harmless/*.diff; do
    d=$W/h; rm -rf $d; mkdir -p $d
    restore
    if ! git -C $REPO apply $p 2>/dev/null; then echo "   FAIL $(basename $p): patch does not apply"; fail=1; continue; fi
    python3 $TR $REPO $d >/dev/null 2>$d/err; rc=$?
    restore
    if [ $rc != 0 ]; then echo "   FAIL $(basename $p): exit $rc: $(head -c 300 $d/err)"; fail=1; continue; fi
    r=$(python3 /verif/tools/leannorm.py cmp $W/base $d)
    case "$r" in
        DIFFERENT*) echo "   FAIL $(basename $p): $r"; fail=1;;
        *) printf "   ok   %-34s %s\n" $(basename $p) "$r";;
    esac
done
echo "== 2. seeded changes and adversarial rewrites: noticed (a = exit 2, b = different terms)"
for p in /verif/seeded/*/patch.diff /verif/translator_tests/adversarial/*.diff; do
    name=$(basename $(dirname $p)); [ "$name" = adversarial ] && name=$(basename $p .diff)
    n=$(classify $p)
    case "$n" in a|b) v=ok;; c) case " $OUTSIDE " in *" $name "*) v="ok (outside the translated code)";; *) v=FAIL; fail=1;; esac;; *) v=FAIL; fail=1;; esac
    printf "   %-40s (%s) %s\n" $name "$n" "$v"
done
if [ $fail = 0 ]; then echo "REGRESS: PASS"; else echo "REGRESS: FAIL"; fi
exit $fail
