//! Independent decoder of the three files of a map, written from the layout documentation
//! (doc comments of htx.rs / key.rs / val.rs and the vu64 format table). Shares no code with the
//! crate and none with the Lean model. Used as the implementation-side oracle for C05/C06/C17.
use std::collections::{BTreeMap, BTreeSet};
use std::path::Path;

pub const CLASSES: [u64; 16] = [16, 24, 32, 48, 64, 80, 96, 112, 128, 256, 384, 512, 640, 768, 896, 1024];

fn u64le(b: &[u8], o: usize) -> Option<u64> {
    Some(u64::from_le_bytes(b.get(o..o + 8)?.try_into().ok()?))
}
/// vu64 at `o`: (value, encoded length)
fn vu64(b: &[u8], o: usize) -> Option<(u64, usize)> {
    let first = *b.get(o)?;
    let l = first.leading_ones() as usize + 1;
    let rest = b.get(o + 1..o + l)?;
    let mut follow: u128 = 0;
    for (i, x) in rest.iter().enumerate() {
        follow |= (*x as u128) << (8 * i);
    }
    let v = if l == 1 {
        first as u128
    } else if l <= 7 {
        (follow << (8 - l)) | (first as u128 & ((1u128 << (8 - l)) - 1))
    } else {
        follow
    };
    Some((v as u64, l))
}

/// the documented placement hash: length prefix (8 LE bytes) then the key, folded in 8-byte
/// big-endian chunks through x ^= x>>12; x ^= x<<25; x ^= x>>27.
pub fn hash(key: &[u8]) -> u64 {
    fn xs(mut x: u64) -> u64 {
        x ^= x >> 12;
        x ^= x << 25;
        x ^= x >> 27;
        x
    }
    let mut h: u64 = 0;
    let mut feed = |bytes: &[u8]| {
        for c in bytes.chunks(8) {
            let mut a: u64 = 0;
            for b in c {
                a = (a << 8) | *b as u64;
            }
            h = xs(h.wrapping_add(a));
        }
    };
    feed(&(key.len() as u64).to_le_bytes());
    feed(key);
    h
}

/// state of the documented hash of a key of `total_len` bytes after its first `prefix.len()` bytes (a multiple of 8)
pub fn hash_prefix(total_len: usize, prefix: &[u8]) -> u64 {
    fn xs(mut x: u64) -> u64 {
        x ^= x >> 12;
        x ^= x << 25;
        x ^= x >> 27;
        x
    }
    let mut h: u64 = xs(u64::from_be_bytes((total_len as u64).to_le_bytes()));
    for c in prefix.chunks(8) {
        let mut a: u64 = 0;
        for b in c {
            a = (a << 8) | *b as u64;
        }
        h = xs(h.wrapping_add(a));
    }
    h
}

/// `groups` groups of `per` different keys each; the keys of one group have the same documented 64-bit hash
/// (16 + `tail` bytes: two 8-byte words A‖B with state(A) + B equal within a group, then a common tail)
pub fn colliding_keys(salt: u64, groups: usize, per: usize, tail: usize) -> Vec<Vec<Vec<u8>>> {
    let len = 16 + tail;
    let mut out = Vec::new();
    for g in 0..groups {
        let target = (salt.wrapping_mul(0x9E37_79B9_7F4A_7C15) ^ (g as u64).wrapping_mul(0xD1B5_4A32_D192_ED03)) | 1;
        let mut grp = Vec::new();
        for i in 0..per {
            let a = format!("c{:03}g{}k{}", salt % 1000, g % 10, i % 10).into_bytes();
            let a = &a[..8];
            let b = target.wrapping_sub(hash_prefix(len, a));
            let mut k = a.to_vec();
            k.extend_from_slice(&b.to_be_bytes());
            k.extend(std::iter::repeat(b'~').take(tail));
            grp.push(k);
        }
        debug_assert!(grp.iter().all(|k| hash(k) == hash(&grp[0])));
        out.push(grp);
    }
    out
}

pub fn class_of(size: u64) -> usize {
    CLASSES.iter().position(|c| *c == size).unwrap_or(15)
}

#[derive(Default, Debug)]
pub struct Decoded {
    pub n: u64,
    pub count: u64,
    pub entries: Vec<(Vec<u8>, Vec<u8>)>,
    /// (offset, size, used?, payload length) in address order
    pub key_slots: Vec<(u64, u64, bool, u64)>,
    pub val_slots: Vec<(u64, u64, bool, u64)>,
    pub key_free: Vec<Vec<u64>>,
    pub val_free: Vec<Vec<u64>>,
    pub nonempty_buckets: u64,
    pub errors: Vec<String>,
    pub key_len: u64,
    pub val_len: u64,
}

fn walk_slots(b: &[u8], what: &str, errs: &mut Vec<String>) -> Vec<(u64, u64)> {
    let mut out = Vec::new();
    let mut o = 192usize;
    while o < b.len() {
        match vu64(b, o) {
            Some((s8, _)) if s8 > 0 && o + (s8 as usize) * 8 <= b.len() => {
                out.push((o as u64, s8 * 8));
                o += (s8 as usize) * 8;
            }
            Some((s8, _)) => {
                errs.push(format!("{}: slot at {} has size {} (file length {}): tiling broken", what, o, s8 * 8, b.len()));
                break;
            }
            None => {
                errs.push(format!("{}: truncated slot at {}", what, o));
                break;
            }
        }
    }
    out
}

fn free_lists(b: &[u8], first: usize, starts: &BTreeMap<u64, u64>, what: &str, errs: &mut Vec<String>) -> Vec<Vec<u64>> {
    let mut lists = Vec::new();
    for c in 0..16 {
        let mut l = Vec::new();
        let mut cur = u64le(b, first + 8 * c).unwrap_or(0);
        let mut seen = BTreeSet::new();
        while cur != 0 {
            if !seen.insert(cur) {
                errs.push(format!("{}: free list {} is cyclic at {}", what, c, cur));
                break;
            }
            let Some(sz) = starts.get(&cur) else {
                errs.push(format!("{}: free list {} points to {} which is not a slot", what, c, cur));
                break;
            };
            if class_of(*sz) != c {
                errs.push(format!("{}: slot {} of size {} is on free list {}", what, cur, sz, c));
            }
            let Some((_, l1)) = vu64(b, cur as usize) else { break };
            if b.get(cur as usize + l1) != Some(&0) {
                errs.push(format!("{}: free slot {} has a non-zero length marker", what, cur));
            }
            l.push(cur);
            cur = u64le(b, cur as usize + l1 + 1).unwrap_or(0);
        }
        lists.push(l);
    }
    lists
}

pub fn decode(dir: &Path, name: &str, sig2: &[u8; 8]) -> Decoded {
    let mut d = Decoded::default();
    let rd = |e: &str| std::fs::read(dir.join(format!("{}.{}", name, e))).unwrap_or_default();
    let (htx, key, val) = (rd("htx"), rd("key"), rd("val"));
    d.key_len = key.len() as u64;
    d.val_len = val.len() as u64;
    let mut errs = Vec::new();
    if htx.len() < 128 || &htx[0..8] != b"abysdbH\0" || &htx[8..16] != sig2 {
        errs.push("htx: bad header".into());
        d.errors = errs;
        return d;
    }
    if key.len() < 192 || &key[0..8] != b"abysdbK\0" || &key[8..16] != sig2 {
        errs.push("key: bad header".into());
    }
    if val.len() < 192 || &val[0..8] != b"abysdbV\0" || &val[8..16] != sig2 {
        errs.push("val: bad header".into());
    }
    if !errs.is_empty() {
        d.errors = errs;
        return d;
    }
    d.n = u64le(&htx, 16).unwrap_or(0);
    d.count = u64le(&htx, 24).unwrap_or(0);
    if d.n == 0 || (htx.len() as u64) < 128 + 8 * d.n {
        errs.push(format!("htx: bucket count {} does not fit file length {}", d.n, htx.len()));
        d.errors = errs;
        return d;
    }
    let kslots = walk_slots(&key, "key", &mut errs);
    let vslots = walk_slots(&val, "val", &mut errs);
    let kstart: BTreeMap<u64, u64> = kslots.iter().cloned().collect();
    let vstart: BTreeMap<u64, u64> = vslots.iter().cloned().collect();
    d.key_free = free_lists(&key, 48, &kstart, "key", &mut errs);
    d.val_free = free_lists(&val, 32, &vstart, "val", &mut errs);
    let kfree: BTreeSet<u64> = d.key_free.iter().flatten().cloned().collect();
    let vfree: BTreeSet<u64> = d.val_free.iter().flatten().cloned().collect();
    // chains
    let mut kused: BTreeMap<u64, u64> = BTreeMap::new(); // key offset -> key length
    let mut vused: BTreeMap<u64, u64> = BTreeMap::new(); // value offset -> value length
    let mut keys_seen: BTreeSet<Vec<u8>> = BTreeSet::new();
    let bm_start = 128 + 8 * d.n as usize;
    for i in 0..d.n {
        let mut cur = u64le(&htx, 128 + 8 * i as usize).unwrap_or(0);
        let bit = htx.get(bm_start + (i / 8) as usize).map(|b| (b >> (i % 8)) & 1 == 1).unwrap_or(false);
        if cur != 0 {
            d.nonempty_buckets += 1;
            if !bit {
                errs.push(format!("htx: bucket {} is non-empty but its bitmap bit is clear", i));
            }
        } else if bit {
            errs.push(format!("htx: bucket {} is empty but its bitmap bit is set", i));
        }
        let mut seen = BTreeSet::new();
        while cur != 0 {
            if !seen.insert(cur) {
                errs.push(format!("chain of bucket {} is cyclic at {}", i, cur));
                break;
            }
            let Some(sz) = kstart.get(&cur) else {
                errs.push(format!("chain of bucket {} points to {} which is not a key slot", i, cur));
                break;
            };
            if kfree.contains(&cur) {
                errs.push(format!("key slot {} is on a chain and on a free list", cur));
            }
            let o = cur as usize;
            let parsed = (|| {
                let (_, l1) = vu64(&key, o)?;
                let (klen, l2) = vu64(&key, o + l1)?;
                let ks = o + l1 + l2;
                let k = key.get(ks..ks + klen as usize)?.to_vec();
                let (vo8, l3) = vu64(&key, ks + klen as usize)?;
                let (nx8, l4) = vu64(&key, ks + klen as usize + l3)?;
                let used = l1 + l2 + klen as usize + l3 + l4;
                Some((k, vo8 * 8, nx8 * 8, used as u64))
            })();
            let Some((k, vo, nx, used)) = parsed else {
                errs.push(format!("key record at {} is truncated", cur));
                break;
            };
            if used > *sz {
                errs.push(format!("key record at {} needs {} bytes but its slot has {}", cur, used, sz));
            }
            if hash(&k) % d.n != i {
                errs.push(format!("key at {} hashes to bucket {} but is on the chain of bucket {}", cur, hash(&k) % d.n, i));
            }
            if !keys_seen.insert(k.clone()) {
                errs.push(format!("key at {} appears twice", cur));
            }
            if kused.insert(cur, k.len() as u64).is_some() {
                errs.push(format!("key slot {} is on two chains", cur));
            }
            // its value record
            match vstart.get(&vo) {
                None => errs.push(format!("key record at {} refers to value offset {} which is not a value slot", cur, vo)),
                Some(vsz) => {
                    if vfree.contains(&vo) {
                        errs.push(format!("value slot {} is referenced by a key and on a free list", vo));
                    }
                    let pv = (|| {
                        let (_, l1) = vu64(&val, vo as usize)?;
                        let (vlen, l2) = vu64(&val, vo as usize + l1)?;
                        let s = vo as usize + l1 + l2;
                        Some((val.get(s..s + vlen as usize)?.to_vec(), (l1 + l2) as u64 + vlen))
                    })();
                    match pv {
                        None => errs.push(format!("value record at {} is truncated", vo)),
                        Some((v, used)) => {
                            if used > *vsz {
                                errs.push(format!("value record at {} needs {} bytes but its slot has {}", vo, used, vsz));
                            }
                            if vused.insert(vo, v.len() as u64).is_some() {
                                errs.push(format!("value slot {} is shared by two keys", vo));
                            }
                            d.entries.push((k, v));
                        }
                    }
                }
            }
            cur = nx;
        }
    }
    if d.count != kused.len() as u64 {
        errs.push(format!("stored item count {} but {} keys are reachable", d.count, kused.len()));
    }
    for (o, sz) in &kslots {
        let used = kused.contains_key(o);
        if !used && !kfree.contains(o) {
            errs.push(format!("key slot {} (size {}) is neither in use nor on a free list", o, sz));
        }
        d.key_slots.push((*o, *sz, used, kused.get(o).cloned().unwrap_or(0)));
    }
    for (o, sz) in &vslots {
        let used = vused.contains_key(o);
        if !used && !vfree.contains(o) {
            errs.push(format!("value slot {} (size {}) is neither in use nor on a free list", o, sz));
        }
        d.val_slots.push((*o, *sz, used, vused.get(o).cloned().unwrap_or(0)));
    }
    d.errors = errs;
    d
}

fn hist(items: impl Iterator<Item = u64>) -> String {
    let mut m: BTreeMap<u64, u64> = BTreeMap::new();
    for x in items {
        *m.entry(x).or_default() += 1;
    }
    format!("[{}]", m.iter().map(|(a, b)| format!("{}:{}", a, b)).collect::<Vec<_>>().join(","))
}

impl Decoded {
    /// the statistics line (same format as Impl::stats / the model) recomputed from the decoded files
    pub fn stats_line(&self) -> String {
        let fl = |l: &Vec<Vec<u64>>| {
            format!("[{}]", CLASSES.iter().enumerate().map(|(i, c)| format!("{}:{}", c, l[i].len())).collect::<Vec<_>>().join(","))
        };
        format!(
            "fk={} fv={} kps={} vps={} kl={} vl={} fill={}:{}",
            fl(&self.key_free),
            fl(&self.val_free),
            hist(self.key_slots.iter().filter(|s| s.2 && s.3 > 0).map(|s| s.1)),
            hist(self.val_slots.iter().filter(|s| s.2 && s.3 > 0).map(|s| s.1)),
            hist(self.key_slots.iter().filter(|s| s.2 && s.3 > 0).map(|s| s.3)),
            hist(self.val_slots.iter().filter(|s| s.2 && s.3 > 0).map(|s| s.3)),
            self.nonempty_buckets,
            self.nonempty_buckets * 1000 / self.n.max(1)
        )
    }
}

/// C06: a file may grow only when no free slot of a suitable size exists. Judged on two
/// consecutive decoded images: if a slot of size S was appended, then every slot that was free
/// before and could have served the request (same class for small sizes; size >= S on the shared
/// large list) must be in use now.
pub fn extend_rule(prev: &Decoded, next: &Decoded) -> Option<String> {
    for (what, ps, ns, pl) in [("key", &prev.key_slots, &next.key_slots, prev.key_len), ("val", &prev.val_slots, &next.val_slots, prev.val_len)] {
        let now_used: BTreeMap<u64, bool> = ns.iter().map(|s| (s.0, s.2)).collect();
        for app in ns.iter().filter(|s| s.0 >= pl) {
            let s_app = app.1;
            for old in ps.iter().filter(|s| !s.2) {
                let fits = if s_app < 1024 { old.1 == s_app } else { old.1 >= s_app };
                if fits && now_used.get(&old.0) == Some(&false) {
                    return Some(format!("{} file grew by a slot of {} bytes at {} although the free slot at {} ({} bytes) was available", what, s_app, app.0, old.0, old.1));
                }
            }
        }
    }
    None
}
