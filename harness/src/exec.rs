//! Where the implementation runs: in this process, or in a child process (`abyss-harness child`)
//! that can be killed, limited (RLIMIT_FSIZE) or replaced by a fresh one ("reopen in a new process").
use crate::imp::Impl;
use crate::proto::*;
use std::io::{BufRead, BufReader, Write};
use std::panic::{catch_unwind, AssertUnwindSafe};
use std::path::{Path, PathBuf};
use std::process::{Child, ChildStdin, ChildStdout, Command, Stdio};

pub struct ChildExec {
    pub dir: PathBuf,
    child: Option<(Child, ChildStdin, BufReader<ChildStdout>)>,
    pub maps: Vec<(usize, Kt, Params)>,
    pub cur: usize,
    pub spawned: u64,
}

impl ChildExec {
    pub fn new(dir: &Path) -> ChildExec {
        ChildExec { dir: dir.to_path_buf(), child: None, maps: Vec::new(), cur: 0, spawned: 0 }
    }
    fn ensure(&mut self) {
        if self.child.is_none() {
            let exe = std::env::current_exe().unwrap();
            let mut c = Command::new(exe)
                .arg("child")
                .arg("--dir")
                .arg(&self.dir)
                .stdin(Stdio::piped())
                .stdout(Stdio::piped())
                .stderr(Stdio::null())
                .spawn()
                .expect("spawn child");
            let i = c.stdin.take().unwrap();
            let o = BufReader::new(c.stdout.take().unwrap());
            self.child = Some((c, i, o));
            self.spawned += 1;
        }
    }
    pub fn send(&mut self, line: &str) -> String {
        self.ensure();
        let (_, i, o) = self.child.as_mut().unwrap();
        if writeln!(i, "{}", line).is_err() || i.flush().is_err() {
            return "child-dead".into();
        }
        let mut ans = String::new();
        match o.read_line(&mut ans) {
            Ok(0) | Err(_) => "child-dead".into(),
            Ok(_) => ans.trim_end().to_string(),
        }
    }
    /// end the process after a clean close of every handle
    pub fn quit(&mut self) {
        if self.child.is_some() {
            let _ = self.send("!closeall");
            let _ = self.send("!quit");
            if let Some((mut c, _, _)) = self.child.take() {
                let _ = c.wait();
            }
        }
    }
    /// SIGKILL: nothing is flushed
    pub fn kill9(&mut self) {
        if let Some((mut c, _, _)) = self.child.take() {
            let _ = c.kill();
            let _ = c.wait();
        }
    }
    /// a fresh process that has all maps open again
    pub fn respawn(&mut self) -> Result<(), String> {
        self.ensure();
        let maps = self.maps.clone();
        let cur = self.cur;
        for (id, kt, p) in maps.iter() {
            let a = self.send(&Op::Map(*id, *kt, *p).text());
            if a != "ok" {
                return Err(a);
            }
        }
        if let Some((id, kt, p)) = maps.iter().find(|m| m.0 == cur) {
            let a = self.send(&Op::Map(*id, *kt, *p).text());
            if a != "ok" {
                return Err(a);
            }
        }
        Ok(())
    }
}
impl Drop for ChildExec {
    fn drop(&mut self) {
        self.kill9();
    }
}

pub enum Exec {
    In(Impl),
    Child(ChildExec),
}

impl Exec {
    /// executes one op; a panic of the in-process implementation becomes `panic:<msg>`.
    pub fn exec(&mut self, op: &Op) -> String {
        match self {
            Exec::In(imp) => match catch_unwind(AssertUnwindSafe(|| imp.exec(op))) {
                Ok(s) => s,
                Err(e) => {
                    let msg = e.downcast_ref::<String>().cloned().or_else(|| e.downcast_ref::<&str>().map(|s| s.to_string())).unwrap_or_default();
                    format!("panic:{}", msg.chars().take(80).collect::<String>().replace('\n', " "))
                }
            },
            Exec::Child(c) => {
                match op {
                    Op::Map(id, kt, p) => {
                        if !c.maps.iter().any(|m| m.0 == *id) {
                            c.maps.push((*id, *kt, *p));
                        }
                        c.cur = *id;
                    }
                    Op::Reopen(p) => {
                        // "reopen" in child mode = a fresh process
                        let cur = c.cur;
                        if let Some(m) = c.maps.iter_mut().find(|m| m.0 == cur) {
                            m.2 = *p;
                        }
                        c.quit();
                        return match c.respawn() {
                            Ok(()) => "ok".into(),
                            Err(e) => e,
                        };
                    }
                    _ => {}
                }
                c.send(&op.text())
            }
        }
    }
    pub fn close_all(&mut self) -> bool {
        match self {
            Exec::In(imp) => catch_unwind(AssertUnwindSafe(|| imp.close_all())).is_ok(),
            Exec::Child(c) => {
                c.quit();
                true
            }
        }
    }
    pub fn reopen_all(&mut self) -> Result<(), String> {
        match self {
            Exec::In(imp) => match catch_unwind(AssertUnwindSafe(|| imp.reopen_all())) {
                Ok(Ok(())) => Ok(()),
                Ok(Err(e)) => Err(format!("err:{:?}", e.kind())),
                Err(_) => Err("panic".into()),
            },
            Exec::Child(c) => c.respawn(),
        }
    }
    /// (map id, key type) of the open maps
    pub fn maps(&self) -> Vec<(usize, Kt)> {
        match self {
            Exec::In(imp) => imp.maps.iter().map(|m| (imp.names.iter().find(|(_, n)| **n == m.name).map(|(i, _)| *i).unwrap_or_else(|| m.name[1..].parse().unwrap_or(0)), m.kt)).collect(),
            Exec::Child(c) => c.maps.iter().map(|m| (m.0, m.1)).collect(),
        }
    }
    pub fn cur(&self) -> usize {
        match self {
            Exec::In(imp) => imp.maps.get(imp.cur).map(|m| imp.names.iter().find(|(_, n)| **n == m.name).map(|(i, _)| *i).unwrap_or_else(|| m.name[1..].parse().unwrap_or(0))).unwrap_or(0),
            Exec::Child(c) => c.cur,
        }
    }
    /// io-trace events since the last call ("name:event,…")
    pub fn take_trace(&mut self) -> String {
        match self {
            Exec::In(_) => abyssiniandb::filedb::verif::take_io_trace().iter().map(|(n, e)| format!("{}:{}", n, e)).collect::<Vec<_>>().join(","),
            Exec::Child(c) => c.send("!trace"),
        }
    }
    pub fn finish(self) {
        match self {
            Exec::In(mut imp) => {
                let _ = catch_unwind(AssertUnwindSafe(|| imp.close_all()));
                std::mem::forget(imp);
            }
            Exec::Child(mut c) => c.quit(),
        }
    }
}

extern "C" {
    fn setrlimit(resource: i32, rlim: *const [u64; 2]) -> i32;
    fn signal(signum: i32, handler: usize) -> usize;
    fn prctl(option: i32, arg2: u64, arg3: u64, arg4: u64, arg5: u64) -> i32;
}
/// a child must not outlive the harness (the watchdog ends the harness with `exit`, and a child stuck
/// in a non-terminating call would spin forever): ask the kernel to SIGKILL it when the parent dies
pub fn die_with_parent() {
    const PR_SET_PDEATHSIG: i32 = 1;
    unsafe {
        prctl(PR_SET_PDEATHSIG, 9, 0, 0, 0);
    }
}
const RLIMIT_FSIZE: i32 = 1;
const SIGXFSZ: i32 = 25;
const SIG_IGN: usize = 1;

pub fn set_fsize_limit(n: u64) -> bool {
    unsafe {
        signal(SIGXFSZ, SIG_IGN);
        setrlimit(RLIMIT_FSIZE, &[n, u64::MAX]) == 0
    }
}

/// the child process: one line in, one line out
pub fn child_main(dir: &Path) -> i32 {
    die_with_parent();
    let mut imp = Impl::new(dir);
    let stdin = std::io::stdin();
    let mut out = std::io::stdout();
    for line in stdin.lock().lines() {
        let Ok(line) = line else { break };
        let line = line.trim();
        let ans = if let Some(ctl) = line.strip_prefix('!') {
            let t: Vec<&str> = ctl.split_whitespace().collect();
            match t.first().copied() {
                Some("closeall") => {
                    let _ = catch_unwind(AssertUnwindSafe(|| imp.close_all()));
                    "ok".to_string()
                }
                Some("quit") => {
                    let _ = writeln!(out, "ok");
                    let _ = out.flush();
                    std::mem::forget(imp);
                    return 0;
                }
                Some("trace") => abyssiniandb::filedb::verif::take_io_trace().iter().map(|(n, e)| format!("{}:{}", n, e)).collect::<Vec<_>>().join(","),
                Some("rlimit") => {
                    let n: u64 = t.get(1).and_then(|s| s.parse().ok()).unwrap_or(u64::MAX);
                    if set_fsize_limit(n) { "ok".into() } else { "err".into() }
                }
                Some("dirty") => "ok".into(),
                _ => "bad-control".into(),
            }
        } else {
            match Op::parse(line) {
                None => "bad-op".to_string(),
                Some(op) => {
                    let budget: u64 = std::env::var("ABYSS_CHILD_BUDGET_MS").ok().and_then(|s| s.parse().ok()).unwrap_or(30_000);
                    let wid = crate::run::watch_begin(budget, format!("child op {}", line));
                    let r = match catch_unwind(AssertUnwindSafe(|| imp.exec(&op))) {
                        Ok(s) => s,
                        Err(e) => {
                            let msg = e.downcast_ref::<String>().cloned().or_else(|| e.downcast_ref::<&str>().map(|s| s.to_string())).unwrap_or_default();
                            format!("panic:{}", msg.chars().take(80).collect::<String>().replace('\n', " "))
                        }
                    };
                    crate::run::watch_end(wid);
                    r
                }
            }
        };
        if writeln!(out, "{}", ans).is_err() {
            break;
        }
        let _ = out.flush();
    }
    std::mem::forget(imp);
    0
}
