//! Runs operations on the real crate (in-process) and prints canonical results.
use crate::proto::*;
use abyssiniandb::filedb::{
    CheckFileDbMap, FileBufSizeParam, FileDb, FileDbMap, FileDbParams, HashBucketsParam,
};
use abyssiniandb::{DbBytes, DbI64, DbMap, DbMapKeyType, DbString, DbU64, DbVu64, DbXxx, DbXxxBase, DbXxxObjectSafe};
use std::fmt::Display;
use std::io;
use std::path::{Path, PathBuf};

pub fn to_params(p: &Params) -> FileDbParams {
    let bk = match p.bk {
        Bk::Default => HashBucketsParam::Default,
        Bk::Size(n) => HashBucketsParam::BucketsSize(n),
        Bk::Cap(c) => HashBucketsParam::Capacity(c),
    };
    let b = |x: &Buf| match x {
        Buf::Auto => FileBufSizeParam::Auto,
        Buf::Size(s) => FileBufSizeParam::Size(*s),
        Buf::PerMille(m) => FileBufSizeParam::PerMille(*m),
    };
    if p.default_bufs {
        FileDbParams { buckets_size: bk, ..Default::default() }
    } else {
        FileDbParams {
            buckets_size: bk,
            key_buf_size: b(&p.key),
            val_buf_size: b(&p.val),
            htx_buf_size: b(&p.htx),
            ..Default::default()
        }
    }
}

pub trait AnyMap {
    fn put(&mut self, k: &[u8], v: &[u8]) -> io::Result<()>;
    fn get(&mut self, k: &[u8]) -> io::Result<Option<Vec<u8>>>;
    fn get_string(&mut self, k: &[u8]) -> io::Result<Option<String>>;
    fn put_string(&mut self, k: &[u8], v: &str) -> io::Result<()>;
    fn del_string(&mut self, k: &[u8]) -> io::Result<Option<String>>;
    fn bulk_get_string(&mut self, ks: &[Vec<u8>]) -> io::Result<Vec<Option<String>>>;
    fn bulk_del_string(&mut self, ks: &[Vec<u8>]) -> io::Result<Vec<Option<String>>>;
    fn del(&mut self, k: &[u8]) -> io::Result<Option<Vec<u8>>>;
    fn inc(&mut self, k: &[u8]) -> io::Result<bool>;
    fn len(&self) -> io::Result<u64>;
    fn is_empty(&self) -> io::Result<bool>;
    fn iter(&mut self, flavour: u8) -> String;
    fn stats(&self) -> io::Result<String>;
    fn flush(&mut self) -> io::Result<()>;
    fn sync_all(&mut self) -> io::Result<()>;
    fn sync_data(&mut self) -> io::Result<()>;
    fn read_fill(&mut self) -> io::Result<()>;
    fn bulk_get(&mut self, ks: &[Vec<u8>]) -> io::Result<Vec<Option<Vec<u8>>>>;
    fn bulk_del(&mut self, ks: &[Vec<u8>]) -> io::Result<Vec<Option<Vec<u8>>>>;
    fn bulk_put(&mut self, kvs: &[(Vec<u8>, Vec<u8>)]) -> io::Result<()>;
    fn bulk_put_string(&mut self, kvs: &[(Vec<u8>, Vec<u8>)]) -> io::Result<()>;
    fn put_from_iter(&mut self, kvs: &[(Vec<u8>, Vec<u8>)]) -> io::Result<()>;
    fn clone_box(&self) -> Box<dyn AnyMap>;
    fn is_dirty(&self) -> bool;
}

pub struct TM<KT: DbMapKeyType> {
    pub m: FileDbMap<KT>,
    pub mk: fn(&[u8], u64) -> KT,
    /// does the key convert back to what the harness decodes from its bytes?
    pub back_ok: fn(&KT) -> bool,
    pub tick: u64,
}

fn pairs<A: Display, C: Display>(v: &[(A, C)]) -> String {
    format!("[{}]", v.iter().map(|(a, b)| format!("{}:{}", a, b)).collect::<Vec<_>>().join(","))
}
/// "[(16, 2), (5120, 1)]" -> "[16:2,5120:1]"
fn display_pairs(s: &str) -> String {
    let inner = s.trim().trim_start_matches('[').trim_end_matches(']');
    if inner.trim().is_empty() {
        return "[]".into();
    }
    let items: Vec<String> = inner
        .split("),")
        .map(|p| p.replace(['(', ')', ' '], "").replace(',', ":"))
        .collect();
    format!("[{}]", items.join(","))
}

impl<KT> TM<KT>
where
    KT: DbMapKeyType + Display + for<'a> From<&'a KT>,
{
    fn key(&mut self, k: &[u8]) -> KT {
        self.tick += 1;
        (self.mk)(k, self.tick)
    }
    fn collect<I: Iterator>(&self, mut it: I, f: impl Fn(&I::Item) -> String, len0: u64) -> String {
        let mut items = Vec::new();
        let mut hints = Vec::new();
        let mut hint_ok = true;
        loop {
            let (lo, hi) = it.size_hint();
            if hi != Some(lo) {
                hint_ok = false;
            }
            hints.push(lo.to_string());
            match it.next() {
                Some(x) => items.push(f(&x)),
                None => break,
            }
            if items.len() as u64 > len0 + 5 {
                items.push("RUNAWAY".into());
                break;
            }
        }
        let fused = (0..3).all(|_| it.next().is_none());
        format!(
            "n={} items=[{}] hints=[{}] {}{}",
            items.len(),
            items.join(","),
            hints.join(","),
            if fused { "fused" } else { "NOTFUSED" },
            if hint_ok { "" } else { " HINT-UPPER-MISMATCH" }
        )
    }
}

impl<KT> AnyMap for TM<KT>
where
    KT: DbMapKeyType + Display + for<'a> From<&'a KT>,
{
    fn put(&mut self, k: &[u8], v: &[u8]) -> io::Result<()> {
        let key = self.key(k);
        if self.tick % 2 == 0 {
            self.m.put(&key, v)
        } else {
            self.m.put_kt(&key, v)
        }
    }
    fn get(&mut self, k: &[u8]) -> io::Result<Option<Vec<u8>>> {
        let key = self.key(k);
        self.m.get(&key)
    }
    fn get_string(&mut self, k: &[u8]) -> io::Result<Option<String>> {
        let key = self.key(k);
        self.m.get_string(&key)
    }
    fn put_string(&mut self, k: &[u8], v: &str) -> io::Result<()> {
        let key = self.key(k);
        self.m.put_string(&key, v)
    }
    fn del_string(&mut self, k: &[u8]) -> io::Result<Option<String>> {
        let key = self.key(k);
        self.m.delete_string(&key)
    }
    fn bulk_get_string(&mut self, ks: &[Vec<u8>]) -> io::Result<Vec<Option<String>>> {
        let keys: Vec<KT> = ks.iter().map(|k| self.key(k)).collect();
        let refs: Vec<&KT> = keys.iter().collect();
        self.m.bulk_get_string(&refs)
    }
    fn bulk_del_string(&mut self, ks: &[Vec<u8>]) -> io::Result<Vec<Option<String>>> {
        let keys: Vec<KT> = ks.iter().map(|k| self.key(k)).collect();
        let refs: Vec<&KT> = keys.iter().collect();
        self.m.bulk_delete_string(&refs)
    }
    fn del(&mut self, k: &[u8]) -> io::Result<Option<Vec<u8>>> {
        let key = self.key(k);
        self.m.delete(&key)
    }
    fn inc(&mut self, k: &[u8]) -> io::Result<bool> {
        let key = self.key(k);
        self.m.includes_key(&key)
    }
    fn len(&self) -> io::Result<u64> {
        self.m.len()
    }
    fn is_empty(&self) -> io::Result<bool> {
        self.m.is_empty()
    }
    fn iter(&mut self, flavour: u8) -> String {
        let len0 = self.m.len().unwrap_or(0);
        let back = self.back_ok;
        let kv = move |x: &(KT, Vec<u8>)| {
            format!("{}={}{}", brepr(x.0.as_bytes()), brepr(&x.1), if back(&x.0) { "" } else { "!conv" })
        };
        match flavour {
            0 => self.collect(self.m.iter(), kv, len0),
            1 => {
                let it = self.m.iter_mut();
                self.collect(it, kv, len0)
            }
            2 => self.collect(self.m.keys(), |k: &KT| brepr(k.as_bytes()), len0),
            3 => self.collect(self.m.values(), |v: &Vec<u8>| brepr(v), len0),
            4 => self.collect(self.m.clone().into_iter(), kv, len0),
            5 => self.collect((&self.m).into_iter(), kv, len0),
            _ => {
                let it = (&mut self.m).into_iter();
                self.collect(it, kv, len0)
            }
        }
    }
    fn stats(&self) -> io::Result<String> {
        let fk = self.m.count_of_free_key_piece()?;
        let fv = self.m.count_of_free_value_piece()?;
        let kps = self.m.key_piece_size_stats()?;
        let vps = self.m.value_piece_size_stats()?;
        let kl = self.m.key_length_stats()?;
        let vl = self.m.value_length_stats()?;
        let (c, pm) = self.m.htx_filling_rate_per_mill()?;
        Ok(format!(
            "fk={} fv={} kps={} vps={} kl={} vl={} fill={}:{}",
            pairs(&fk),
            pairs(&fv),
            display_pairs(&kps.to_string()),
            display_pairs(&vps.to_string()),
            display_pairs(&kl.to_string()),
            display_pairs(&vl.to_string()),
            c,
            pm
        ))
    }
    fn flush(&mut self) -> io::Result<()> {
        self.m.flush()
    }
    fn sync_all(&mut self) -> io::Result<()> {
        self.m.sync_all()
    }
    fn sync_data(&mut self) -> io::Result<()> {
        self.m.sync_data()
    }
    fn read_fill(&mut self) -> io::Result<()> {
        self.m.read_fill_buffer()
    }
    fn bulk_get(&mut self, ks: &[Vec<u8>]) -> io::Result<Vec<Option<Vec<u8>>>> {
        let keys: Vec<KT> = ks.iter().map(|k| self.key(k)).collect();
        let refs: Vec<&KT> = keys.iter().collect();
        self.m.bulk_get(&refs)
    }
    fn bulk_del(&mut self, ks: &[Vec<u8>]) -> io::Result<Vec<Option<Vec<u8>>>> {
        let keys: Vec<KT> = ks.iter().map(|k| self.key(k)).collect();
        let refs: Vec<&KT> = keys.iter().collect();
        self.m.bulk_delete(&refs)
    }
    fn bulk_put(&mut self, kvs: &[(Vec<u8>, Vec<u8>)]) -> io::Result<()> {
        let keys: Vec<KT> = kvs.iter().map(|kv| self.key(&kv.0)).collect();
        let bulk: Vec<(&KT, &[u8])> = keys.iter().zip(kvs.iter()).map(|(k, kv)| (k, kv.1.as_slice())).collect();
        self.m.bulk_put(&bulk)
    }
    fn bulk_put_string(&mut self, kvs: &[(Vec<u8>, Vec<u8>)]) -> io::Result<()> {
        let keys: Vec<KT> = kvs.iter().map(|kv| self.key(&kv.0)).collect();
        let bulk: Vec<(&KT, String)> = keys
            .iter()
            .zip(kvs.iter())
            .map(|(k, kv)| (k, String::from_utf8(kv.1.clone()).expect("bulk_put_string value must be UTF-8")))
            .collect();
        self.m.bulk_put_string(&bulk)
    }
    fn put_from_iter(&mut self, kvs: &[(Vec<u8>, Vec<u8>)]) -> io::Result<()> {
        let v: Vec<(KT, Vec<u8>)> = kvs.iter().map(|kv| (self.key(&kv.0), kv.1.clone())).collect();
        self.m.put_from_iter(v.into_iter())
    }
    fn clone_box(&self) -> Box<dyn AnyMap> {
        Box::new(TM { m: self.m.clone(), mk: self.mk, back_ok: self.back_ok, tick: self.tick })
    }
    fn is_dirty(&self) -> bool {
        self.m.is_dirty()
    }
}

// ---- key constructors through the public conversions of each key type
/// every byte-ish `From` conversion of a key type, chosen by the tick (all must give the same key)
fn mk_any<KT>(k: &[u8], t: u64) -> KT
where
    KT: for<'a> From<&'a [u8]> + From<Vec<u8>> + for<'a> From<&'a str> + From<String> + for<'a> From<&'a String> + for<'a> From<&'a KT>,
    KT: for<'a> From<&'a [u8; 1]> + for<'a> From<&'a [u8; 2]> + for<'a> From<&'a [u8; 3]> + for<'a> From<&'a [u8; 8]> + for<'a> From<&'a [u8; 9]>,
{
    let utf8 = std::str::from_utf8(k).ok();
    match (t / 2) % 7 {
        0 => KT::from(k),
        1 => KT::from(k.to_vec()),
        2 if utf8.is_some() => KT::from(utf8.unwrap()),
        3 if utf8.is_some() => KT::from(utf8.unwrap().to_string()),
        4 if utf8.is_some() => KT::from(&utf8.unwrap().to_string()),
        5 => match k.len() {
            1 => KT::from(<&[u8; 1]>::try_from(k).unwrap()),
            2 => KT::from(<&[u8; 2]>::try_from(k).unwrap()),
            3 => KT::from(<&[u8; 3]>::try_from(k).unwrap()),
            8 => KT::from(<&[u8; 8]>::try_from(k).unwrap()),
            9 => KT::from(<&[u8; 9]>::try_from(k).unwrap()),
            _ => KT::from(k),
        },
        6 => {
            let a = KT::from(k);
            KT::from(&a)
        }
        _ => KT::from(k),
    }
}
fn mk_str(k: &[u8], t: u64) -> DbString {
    if k.len() == 8 && t % 5 == 0 {
        let x = u64::from_be_bytes(k.try_into().unwrap());
        return if t % 2 == 0 { DbString::from(x) } else { DbString::from(&x) };
    }
    mk_any(k, t)
}
fn mk_bytes(k: &[u8], t: u64) -> DbBytes {
    if k.len() == 8 && t % 5 == 0 {
        let x = u64::from_be_bytes(k.try_into().unwrap());
        return if t % 2 == 0 { DbBytes::from(x) } else { DbBytes::from(&x) };
    }
    mk_any(k, t)
}
fn mk_u64(k: &[u8], t: u64) -> DbU64 {
    if k.len() == 8 {
        let x = u64::from_le_bytes(k.try_into().unwrap());
        if t % 2 == 0 {
            DbU64::from(x)
        } else {
            DbU64::from(&x)
        }
    } else {
        mk_any(k, t)
    }
}
fn mk_i64(k: &[u8], t: u64) -> DbI64 {
    if k.len() == 8 {
        let x = i64::from_le_bytes(k.try_into().unwrap());
        if t % 2 == 0 {
            DbI64::from(x)
        } else {
            DbI64::from(&x)
        }
    } else {
        mk_any(k, t)
    }
}
/// the harness's own vu64 decoder (written from the format table in the vu64 documentation)
pub fn vu64_decode(k: &[u8]) -> Option<u64> {
    let b = *k.first()?;
    let l = b.leading_ones() as usize + 1;
    if k.len() != l {
        return None;
    }
    let mut follow: u128 = 0;
    for (i, x) in k[1..].iter().enumerate() {
        follow |= (*x as u128) << (8 * i);
    }
    let v: u128 = if l == 1 {
        b as u128
    } else if l <= 7 {
        (follow << (8 - l)) | ((b as u128) & ((1u128 << (8 - l)) - 1))
    } else {
        follow
    };
    Some(v as u64)
}
pub fn vu64_encode(v: u64) -> Vec<u8> {
    let l = if v < 1 << 7 { 1 } else if v < 1 << 14 { 2 } else if v < 1 << 21 { 3 } else if v < 1 << 28 { 4 }
        else if v < 1 << 35 { 5 } else if v < 1 << 42 { 6 } else if v < 1 << 49 { 7 } else if v < 1 << 56 { 8 } else { 9 };
    let mut out = Vec::new();
    if l == 1 {
        out.push(v as u8);
    } else if l <= 7 {
        let prefix: u16 = 256 - (1u16 << (9 - l));
        out.push((prefix as u64 + (v & ((1 << (8 - l)) - 1))) as u8);
        let mut r = v >> (8 - l);
        for _ in 0..l - 1 {
            out.push((r & 0xff) as u8);
            r >>= 8;
        }
    } else {
        out.push(if l == 8 { 0xFE } else { 0xFF });
        let mut r = v;
        for _ in 0..l - 1 {
            out.push((r & 0xff) as u8);
            r >>= 8;
        }
    }
    out
}
fn mk_vu64(k: &[u8], t: u64) -> DbVu64 {
    match vu64_decode(k) {
        Some(x) if vu64_encode(x) == k => {
            if t % 2 == 0 {
                DbVu64::from(x)
            } else {
                DbVu64::from(&x)
            }
        }
        _ if t % 2 == 0 => DbVu64::from(k),
        _ => DbVu64::from(k.to_vec()),
    }
}
fn back_any<KT>(_k: &KT) -> bool {
    true
}
fn back_u64(k: &DbU64) -> bool {
    let b = k.as_bytes();
    if b.len() != 8 {
        return true;
    }
    let want = u64::from_le_bytes(b.try_into().unwrap());
    u64::from(k) == want && u64::from(k.clone()) == want
}
fn back_i64(k: &DbI64) -> bool {
    let b = k.as_bytes();
    if b.len() != 8 {
        return true;
    }
    let want = i64::from_le_bytes(b.try_into().unwrap());
    i64::from(k) == want && i64::from(k.clone()) == want
}
fn back_vu64(k: &DbVu64) -> bool {
    match vu64_decode(k.as_bytes()) {
        Some(want) => u64::from(k) == want && u64::from(k.clone()) == want,
        None => true,
    }
}

pub fn open_map(db: &FileDb, kt: Kt, name: &str, p: &Params) -> io::Result<Box<dyn AnyMap>> {
    let fp = to_params(p);
    if p.bk == Bk::Default && p.default_bufs {
        // the parameterless entry points
        return Ok(match kt {
            Kt::Str => Box::new(TM { m: db.db_map_string(name)?, mk: mk_str, back_ok: back_any, tick: 0 }),
            Kt::Bytes => Box::new(TM { m: db.db_map_bytes(name)?, mk: mk_bytes, back_ok: back_any, tick: 0 }),
            Kt::U64 => Box::new(TM { m: db.db_map_u64(name)?, mk: mk_u64, back_ok: back_u64, tick: 0 }),
            Kt::I64 => Box::new(TM { m: db.db_map_i64(name)?, mk: mk_i64, back_ok: back_i64, tick: 0 }),
            Kt::Vu64 => Box::new(TM { m: db.db_map_vu64(name)?, mk: mk_vu64, back_ok: back_vu64, tick: 0 }),
        });
    }
    Ok(match kt {
        Kt::Str => Box::new(TM { m: db.db_map_string_with_params(name, fp)?, mk: mk_str, back_ok: back_any, tick: 0 }),
        Kt::Bytes => Box::new(TM { m: db.db_map_bytes_with_params(name, fp)?, mk: mk_bytes, back_ok: back_any, tick: 0 }),
        Kt::U64 => Box::new(TM { m: db.db_map_u64_with_params(name, fp)?, mk: mk_u64, back_ok: back_u64, tick: 0 }),
        Kt::I64 => Box::new(TM { m: db.db_map_i64_with_params(name, fp)?, mk: mk_i64, back_ok: back_i64, tick: 0 }),
        Kt::Vu64 => Box::new(TM { m: db.db_map_vu64_with_params(name, fp)?, mk: mk_vu64, back_ok: back_vu64, tick: 0 }),
    })
}

pub struct MapSlot {
    pub name: String,
    pub kt: Kt,
    pub params: Params,
    pub handles: Vec<Box<dyn AnyMap>>,
    pub rr: usize,
}

/// the implementation under test: one database directory, several maps, several handles.
pub struct Impl {
    pub dir: PathBuf,
    pub db: Option<FileDb>,
    pub maps: Vec<MapSlot>,
    pub cur: usize,
    /// optional file-name stems per map id (default `m<id>`)
    pub names: std::collections::BTreeMap<usize, String>,
}

fn res<T>(r: io::Result<T>, f: impl FnOnce(T) -> String) -> String {
    match r {
        Ok(x) => f(x),
        Err(e) => format!("err:{:?}", e.kind()),
    }
}

impl Impl {
    pub fn new(dir: &Path) -> Impl {
        Impl { dir: dir.to_path_buf(), db: None, maps: Vec::new(), cur: 0, names: Default::default() }
    }
    fn db(&mut self) -> io::Result<FileDb> {
        if self.db.is_none() {
            self.db = Some(abyssiniandb::open_file(&self.dir)?);
        }
        Ok(self.db.as_ref().unwrap().clone())
    }
    /// open (or create) map `idx`
    pub fn open(&mut self, idx: usize, kt: Kt, p: &Params) -> io::Result<()> {
        let db = self.db()?;
        let name = self.names.get(&idx).cloned().unwrap_or_else(|| format!("m{}", idx));
        if let Some(pos) = self.maps.iter().position(|m| m.name == name) {
            self.cur = pos;
            if self.maps[pos].handles.is_empty() {
                let h = open_map(&db, kt, &name, p)?;
                self.maps[pos].handles.push(h);
            }
            return Ok(());
        }
        let h = open_map(&db, kt, &name, p)?;
        self.maps.push(MapSlot { name, kt, params: *p, handles: vec![h], rr: 0 });
        self.cur = self.maps.len() - 1;
        Ok(())
    }
    pub fn cur_name(&self) -> String {
        self.maps[self.cur].name.clone()
    }
    fn h(&mut self) -> &mut Box<dyn AnyMap> {
        let m = &mut self.maps[self.cur];
        m.rr = (m.rr + 1) % m.handles.len();
        let i = m.rr;
        &mut m.handles[i]
    }
    pub fn close_all(&mut self) {
        for m in self.maps.iter_mut() {
            m.handles.clear();
        }
        self.db = None;
    }
    pub fn reopen_all(&mut self) -> io::Result<()> {
        let db = self.db()?;
        for m in self.maps.iter_mut() {
            if m.handles.is_empty() {
                m.handles.push(open_map(&db, m.kt, &m.name, &m.params)?);
            }
        }
        Ok(())
    }
    /// executes one operation, returns the canonical result string.
    pub fn exec(&mut self, op: &Op) -> String {
        match op {
            Op::Put(k, v) => res(self.h().put(&k.bytes(), &v.bytes()), |_| "ok".into()),
            Op::Get(k) => res(self.h().get(&k.bytes()), |r| repr_opt(&r)),
            Op::GetString(k) => res(self.h().get_string(&k.bytes()), |r| repr_opt(&r.map(|s| s.into_bytes()))),
            Op::PutString(k, v) => match String::from_utf8(v.bytes()) {
                Ok(sv) => res(self.h().put_string(&k.bytes(), &sv), |_| "ok".into()),
                Err(_) => "bad-op".into(),
            },
            Op::DelString(k) => res(self.h().del_string(&k.bytes()), |r| repr_opt(&r.map(|s| s.into_bytes()))),
            Op::BulkGetString(ks) => {
                let ks: Vec<Vec<u8>> = ks.iter().map(|k| k.bytes()).collect();
                res(self.h().bulk_get_string(&ks), |v| v.iter().map(|o| repr_opt(&o.clone().map(|s| s.into_bytes()))).collect::<Vec<_>>().join("|"))
            }
            Op::BulkDelString(ks) => {
                let ks: Vec<Vec<u8>> = ks.iter().map(|k| k.bytes()).collect();
                res(self.h().bulk_del_string(&ks), |v| v.iter().map(|o| repr_opt(&o.clone().map(|s| s.into_bytes()))).collect::<Vec<_>>().join("|"))
            }
            Op::Del(k) => res(self.h().del(&k.bytes()), |r| repr_opt(&r)),
            Op::Inc(k) => res(self.h().inc(&k.bytes()), |b| b.to_string()),
            Op::Len => res(self.h().len(), |n| n.to_string()),
            Op::Empty => res(self.h().is_empty(), |b| b.to_string()),
            Op::IsDirty => self.h().is_dirty().to_string(),
            Op::Iter(f) => self.h().iter(*f),
            Op::Stats => res(self.h().stats(), |s| s),
            Op::Flush => res(self.h().flush(), |_| "ok".into()),
            Op::SyncAll => res(self.h().sync_all(), |_| "ok".into()),
            Op::SyncData => res(self.h().sync_data(), |_| "ok".into()),
            Op::DbSyncAll => res(self.db.as_ref().unwrap().sync_all(), |_| "ok".into()),
            Op::DbSyncData => res(self.db.as_ref().unwrap().sync_data(), |_| "ok".into()),
            Op::ReadFill => res(self.h().read_fill(), |_| "ok".into()),
            Op::BulkGet(ks) => {
                let ks: Vec<Vec<u8>> = ks.iter().map(|k| k.bytes()).collect();
                res(self.h().bulk_get(&ks), |v| v.iter().map(repr_opt).collect::<Vec<_>>().join("|"))
            }
            Op::BulkDel(ks) => {
                let ks: Vec<Vec<u8>> = ks.iter().map(|k| k.bytes()).collect();
                res(self.h().bulk_del(&ks), |v| v.iter().map(repr_opt).collect::<Vec<_>>().join("|"))
            }
            Op::BulkPut(kvs) => {
                let kvs: Vec<(Vec<u8>, Vec<u8>)> = kvs.iter().map(|(k, v)| (k.bytes(), v.bytes())).collect();
                res(self.h().bulk_put(&kvs), |_| "ok".into())
            }
            Op::BulkPutString(kvs) => {
                let kvs: Vec<(Vec<u8>, Vec<u8>)> = kvs.iter().map(|(k, v)| (k.bytes(), v.bytes())).collect();
                res(self.h().bulk_put_string(&kvs), |_| "ok".into())
            }
            Op::PutFromIter(kvs) => {
                let kvs: Vec<(Vec<u8>, Vec<u8>)> = kvs.iter().map(|(k, v)| (k.bytes(), v.bytes())).collect();
                res(self.h().put_from_iter(&kvs), |_| "ok".into())
            }
            Op::Reopen(p) => {
                self.close_all();
                let cur = self.cur;
                self.maps[cur].params = *p;
                res(self.reopen_all(), |_| "ok".into())
            }
            Op::Cmp(_) => "ok".into(),
            Op::Map(i, kt, p) => res(self.open(*i, *kt, p), |_| "ok".into()),
            Op::Rehandle(mode) => {
                let name = self.cur_name();
                let (kt, p) = (self.maps[self.cur].kt, self.maps[self.cur].params);
                let newh: io::Result<Box<dyn AnyMap>> = match mode {
                    0 => Ok(self.maps[self.cur].handles[0].clone_box()),
                    1 => self.db().and_then(|db| open_map(&db, kt, &name, &p)),
                    _ => self.db().and_then(|db| open_map(&db.clone(), kt, &name, &p)),
                };
                res(newh, |h| {
                    let m = &mut self.maps[self.cur];
                    if m.handles.len() >= 4 {
                        m.handles.remove(0);
                    }
                    m.handles.push(h);
                    "ok".into()
                })
            }
        }
    }
}
