#![allow(dead_code, unused_mut)]
mod decoder;
mod driver;
mod exec;
mod gen;
mod imp;
mod json;
mod proto;
mod rabuf_scen;
mod rng;
mod run;
mod scen;

fn main() {
    if std::env::var("ABYSS_DEBUG").is_ok() {
        std::panic::set_hook(Box::new(|i| eprintln!("panic: {}", i)));
    } else {
        std::panic::set_hook(Box::new(|_| {}));
    }
    run::start_watchdog();
    let args: Vec<String> = std::env::args().collect();
    let code = scen::dispatch(&args[1..]);
    std::process::exit(code);
}
