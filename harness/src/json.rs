//! minimal JSON writer
pub fn esc(s: &str) -> String {
    let mut o = String::with_capacity(s.len() + 2);
    o.push('"');
    for c in s.chars() {
        match c {
            '"' => o.push_str("\\\""),
            '\\' => o.push_str("\\\\"),
            '\n' => o.push_str("\\n"),
            '\t' => o.push_str("\\t"),
            c if (c as u32) < 0x20 => o.push_str(&format!("\\u{:04x}", c as u32)),
            c => o.push(c),
        }
    }
    o.push('"');
    o
}
pub fn obj(fields: &[(&str, String)]) -> String {
    format!("{{{}}}", fields.iter().map(|(k, v)| format!("{}:{}", esc(k), v)).collect::<Vec<_>>().join(","))
}
pub fn arr(items: &[String]) -> String {
    format!("[{}]", items.join(","))
}
pub fn map_u64(m: &std::collections::BTreeMap<String, u64>) -> String {
    format!("{{{}}}", m.iter().map(|(k, v)| format!("{}:{}", esc(k), v)).collect::<Vec<_>>().join(","))
}
