//! The Lean model driver as a child process (one request line -> one answer line).
use std::io::{BufRead, BufReader, Write};
use std::process::{Child, ChildStdin, ChildStdout, Command, Stdio};

pub struct Driver {
    child: Child,
    stdin: ChildStdin,
    stdout: BufReader<ChildStdout>,
    pub requests: u64,
}

impl Driver {
    pub fn spawn(path: &str) -> std::io::Result<Driver> {
        let mut child = Command::new(path).stdin(Stdio::piped()).stdout(Stdio::piped()).spawn()?;
        let stdin = child.stdin.take().unwrap();
        let stdout = BufReader::new(child.stdout.take().unwrap());
        Ok(Driver { child, stdin, stdout, requests: 0 })
    }
    pub fn ask(&mut self, line: &str) -> String {
        self.requests += 1;
        if writeln!(self.stdin, "{}", line).is_err() || self.stdin.flush().is_err() {
            return "DRIVER-DEAD".into();
        }
        let mut ans = String::new();
        match self.stdout.read_line(&mut ans) {
            Ok(0) | Err(_) => "DRIVER-DEAD".into(),
            Ok(_) => ans.trim_end().to_string(),
        }
    }
}
impl Drop for Driver {
    fn drop(&mut self) {
        let _ = self.child.kill();
        let _ = self.child.wait();
    }
}
