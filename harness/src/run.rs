//! Runs one sequence on the implementation, the Lean model (driver) and the BTreeMap oracle,
//! and reports where they differ, per facet.
use crate::driver::Driver;
use crate::exec::{ChildExec, Exec};
use crate::imp::Impl;
use crate::proto::*;
use std::collections::BTreeMap;
use std::panic::{catch_unwind, AssertUnwindSafe};
use std::path::Path;
use std::sync::atomic::{AtomicU64, Ordering};
use std::sync::Mutex;

/// watchdog: (deadline in ms since start, description) per running op
pub static WATCH: Mutex<Vec<(u64, u64, String)>> = Mutex::new(Vec::new());
pub static WATCH_ID: AtomicU64 = AtomicU64::new(1);
pub static START: std::sync::OnceLock<std::time::Instant> = std::sync::OnceLock::new();

pub fn now_ms() -> u64 {
    START.get_or_init(std::time::Instant::now).elapsed().as_millis() as u64
}
thread_local! {
    /// file holding the sequence this thread is running (named in HANG reports)
    pub static CURRENT_SEQ: std::cell::RefCell<String> = std::cell::RefCell::new(String::new());
}

pub fn watch_begin(budget_ms: u64, what: String) -> u64 {
    let what = CURRENT_SEQ.with(|c| {
        let c = c.borrow();
        if c.is_empty() || what.contains("seq-file=") { what.clone() } else { format!("{} seq-file={}", what, c) }
    });
    let id = WATCH_ID.fetch_add(1, Ordering::SeqCst);
    WATCH.lock().unwrap().push((id, now_ms() + budget_ms, what));
    id
}
pub fn watch_end(id: u64) {
    WATCH.lock().unwrap().retain(|e| e.0 != id);
}
/// starts the watchdog thread: an operation over its budget is a hang -> the whole process
/// prints `HANG <what>` and exits with status 3 (the case was saved before it was started).
pub fn start_watchdog() {
    std::thread::spawn(|| loop {
        std::thread::sleep(std::time::Duration::from_millis(200));
        let now = now_ms();
        let g = WATCH.lock().unwrap();
        if let Some(e) = g.iter().find(|e| e.1 < now) {
            println!("HANG {}", e.2);
            use std::io::Write;
            let _ = std::io::stdout().flush();
            std::process::exit(3);
        }
    });
}

#[derive(Clone, Debug)]
pub struct Diff {
    pub idx: usize,
    pub facet: &'static str, // "api" | "bytes" | "oracle" | "open"
    pub op: String,
    pub got: String,
    pub want: String,
}

#[derive(Default, Clone, Debug)]
pub struct Cov {
    pub ops: BTreeMap<String, u64>,
    pub vlen_classes: BTreeMap<String, u64>,
    pub klen: BTreeMap<String, u64>,
    /// sizes of the batches of the bulk calls
    pub batch: BTreeMap<String, u64>,
    pub cmps: u64,
    pub found_hits: u64,
    pub overwrite: u64,
    pub delete_hit: u64,
    pub max_key_file: u64,
    pub max_val_file: u64,
    pub panics: u64,
    /// branches of the Lean model taken (reported by the driver)
    pub model_branches: BTreeMap<String, u64>,
}
impl Cov {
    pub fn merge(&mut self, o: &Cov) {
        for (k, v) in &o.ops {
            *self.ops.entry(k.clone()).or_default() += v;
        }
        for (k, v) in &o.vlen_classes {
            *self.vlen_classes.entry(k.clone()).or_default() += v;
        }
        for (k, v) in &o.klen {
            *self.klen.entry(k.clone()).or_default() += v;
        }
        for (k, v) in &o.batch {
            *self.batch.entry(k.clone()).or_default() += v;
        }
        self.cmps += o.cmps;
        self.found_hits += o.found_hits;
        self.overwrite += o.overwrite;
        self.delete_hit += o.delete_hit;
        self.max_key_file = self.max_key_file.max(o.max_key_file);
        self.max_val_file = self.max_val_file.max(o.max_val_file);
        self.panics += o.panics;
        for (k, v) in &o.model_branches {
            *self.model_branches.entry(k.clone()).or_default() += v;
        }
    }
}

pub fn batch_class(l: usize) -> String {
    match l {
        0 => "0".into(),
        1 => "1".into(),
        2..=8 => "2-8".into(),
        9..=32 => "9-32".into(),
        33..=200 => "33-200".into(),
        201..=1024 => "201-1024".into(),
        _ => ">1024".into(),
    }
}

pub fn len_class(l: usize) -> String {
    match l {
        0 => "0".into(),
        1..=13 => "1-13".into(),
        14..=100 => "14-100".into(),
        101..=1000 => "101-1000".into(),
        1001..=4095 => "1001-4095".into(),
        4096..=131071 => "4K-128K".into(),
        _ => ">=128K".into(),
    }
}

pub struct RunOpts {
    /// compare with the model driver (false = oracle only)
    pub model: bool,
    /// send `cmp` to the driver after every update (mode 1 = drop+reopen, 0 = flush)
    pub cmp_every: Option<u8>,
    /// compare once at the end after drop
    pub cmp_end: bool,
    /// stop at the first difference
    pub stop_first: bool,
    pub op_budget_ms: u64,
    /// evaluate the model's executable invariant after every update
    pub check_inv: bool,
    /// run the independent decoder at every byte comparison point and at every stats call
    pub decoder: bool,
    /// run the implementation in a child process (reopen = fresh process)
    pub child: bool,
    /// at every flush/sync: copy the directory, compare the copy with the model (facet sync-bytes),
    /// open the copy and compare its contents with the oracle (facet sync-oracle), check the io-trace (facet trace)
    pub sync_check: bool,
    /// child mode only: SIGKILL the writer right after a successful flush/sync, then look at the directory
    pub kill_after_sync: bool,
    /// C15: between two byte comparisons without an update in between the files must not change,
    /// and read-only calls must not extend a file (`set_len` in the io-trace)
    pub ro_check: bool,
    /// at byte comparison points the Lean reader parses the implementation's files: must succeed,
    /// give the model's state and satisfy the executable invariant (facet "parse")
    pub parse_check: bool,
    /// mirror every model request to the engine generated from the Rust source (driver `ge …`) and compare
    pub gen_engine: bool,
}
impl Default for RunOpts {
    fn default() -> Self {
        RunOpts { model: true, cmp_every: None, cmp_end: true, stop_first: true, op_budget_ms: 20_000, check_inv: false, decoder: false, child: false, sync_check: false, kill_after_sync: false, ro_check: false, parse_check: false, gen_engine: false }
    }
}

pub struct Outcome {
    pub diffs: Vec<Diff>,
    pub steps: usize,
    pub cov: Cov,
    pub transcript: Vec<String>,
}

type Oracle = BTreeMap<Vec<u8>, Vec<u8>>;

/// opens `dir` with a fresh in-process instance of the crate and compares every map in `scope`
/// with its oracle: length, every key, absent keys, full traversal.
pub fn check_dir_against_oracle(dir: &Path, scope: &[(usize, Kt)], oracles: &BTreeMap<usize, Oracle>) -> Option<String> {
    let r = catch_unwind(AssertUnwindSafe(|| {
        let mut imp = Impl::new(dir);
        for (id, kt) in scope {
            let Some(o) = oracles.get(id) else { continue };
            if let Err(e) = imp.open(*id, *kt, &Params::buckets(1)) {
                return Some(format!("m{} does not open: {:?}", id, e.kind()));
            }
            let l = imp.exec(&Op::Len);
            if l != o.len().to_string() {
                return Some(format!("m{}: len {} but {} entries were stored", id, l, o.len()));
            }
            for (k, v) in o.iter() {
                let g = imp.exec(&Op::Get(B::Hex(k.clone())));
                if g != repr_opt(&Some(v.clone())) {
                    return Some(format!("m{}: get {} = {} but {} was stored", id, hex(k), g, brepr(v)));
                }
            }
            let it = imp.exec(&Op::Iter(0));
            match iter_multiset(&it) {
                Some((n, _)) if n == o.len() => {}
                _ => return Some(format!("m{}: traversal yields {} but {} entries were stored", id, it.chars().take(60).collect::<String>(), o.len())),
            }
        }
        imp.close_all();
        std::mem::forget(imp);
        None
    }));
    match r {
        Ok(x) => x,
        Err(e) => {
            let msg = e.downcast_ref::<String>().cloned().or_else(|| e.downcast_ref::<&str>().map(|s| s.to_string())).unwrap_or_default();
            Some(format!("opening the directory panics: {}", msg.chars().take(80).collect::<String>()))
        }
    }
}

pub fn sig_of(kt: Kt) -> [u8; 8] {
    match kt {
        Kt::Str => *b"string\0\0",
        Kt::Bytes => *b"bytes\0\0\0",
        Kt::U64 => *b"u64_le\0\0",
        Kt::I64 => *b"i64_le\0\0",
        Kt::Vu64 => *b"u64_le\0\0",
    }
}

fn sorted_order(keys: &[Vec<u8>]) -> Vec<usize> {
    let mut idx: Vec<usize> = (0..keys.len()).collect();
    idx.sort_by(|&a, &b| keys[a].cmp(&keys[b]));
    idx
}

/// expected result of `iter` flavour `f` from the model's full line
fn iter_expect(model: &str, f: u8) -> String {
    if f != 2 && f != 3 {
        return model.to_string();
    }
    // n=.. items=[a=b,c=d] hints=[..] fused
    let Some(s) = model.find("items=[") else { return model.to_string() };
    let Some(e) = model[s..].find(']') else { return model.to_string() };
    let inner = &model[s + 7..s + e];
    let items: Vec<String> = if inner.is_empty() {
        vec![]
    } else {
        inner
            .split(',')
            .map(|it| {
                let mut p = it.split('=');
                let k = p.next().unwrap_or("");
                let v = p.next().unwrap_or("");
                if f == 2 { k.to_string() } else { v.to_string() }
            })
            .collect()
    };
    format!("{}items=[{}]{}", &model[..s], items.join(","), &model[s + e + 1..])
}

fn iter_multiset(line: &str) -> Option<(usize, Vec<String>)> {
    let s = line.find("items=[")?;
    let e = line[s..].find(']')?;
    let inner = &line[s + 7..s + e];
    let mut items: Vec<String> = if inner.is_empty() { vec![] } else { inner.split(',').map(|x| x.to_string()).collect() };
    items.sort();
    let n: usize = line.strip_prefix("n=")?.split(' ').next()?.parse().ok()?;
    Some((n, items))
}

pub fn run_seq(seq: &Seq, dir: &Path, driver: &mut Option<Driver>, opts: &RunOpts) -> Outcome {
    run_seq_with_state(seq, dir, driver, opts, BTreeMap::new())
}

/// like `run_seq`, but map m0 already exists on disk (and in the driver) with contents `oracle0`
pub fn run_seq_with_state(seq: &Seq, dir: &Path, driver: &mut Option<Driver>, opts: &RunOpts, oracle0: Oracle) -> Outcome {
    let preexisting = !oracle0.is_empty() || dir.join("m0.htx").exists();
    let mut imp = if opts.child { Exec::Child(ChildExec::new(dir)) } else { Exec::In(Impl::new(dir)) };
    let mut diffs: Vec<Diff> = Vec::new();
    let mut cov = Cov::default();
    let mut transcript = Vec::new();
    let mut oracles: BTreeMap<usize, Oracle> = BTreeMap::new();
    let mut model_maps: BTreeMap<usize, bool> = BTreeMap::new(); // map id -> cmp allowed
    if preexisting {
        oracles.insert(0, oracle0);
        model_maps.insert(0, true);
    }
    let mut cur: usize = 0;
    let mut dead = false;
    let mut prev_dec: BTreeMap<usize, crate::decoder::Decoded> = BTreeMap::new();
    let mut pending_sync: std::collections::BTreeSet<usize> = Default::default();
    // the dirty flag each map must report (None = not tracked across this point)
    let mut dirty_flag: BTreeMap<usize, Option<bool>> = Default::default();
    let mut ever_opened: std::collections::BTreeSet<usize> = Default::default();
    let mut last_hash: Option<Vec<(String, u64, u64)>> = None;
    let mut updated_since_cmp = true;
    let mut clear_trace = false;

    let mut all_ops: Vec<Op> = vec![Op::Map(0, seq.kt, seq.params)];
    all_ops.extend(seq.ops.iter().cloned());
    if opts.cmp_end {
        all_ops.push(Op::Cmp(1));
    }
    let dirs = dir.to_string_lossy().to_string();
    let mut steps = 0;

    let mut i = 0;
    while i < all_ops.len() {
        let op = all_ops[i].clone();
        let idx = i;
        i += 1;
        if dead {
            break;
        }
        steps += 1;
        *cov.ops.entry(op.kind().to_string()).or_default() += 1;
        let name = format!("m{}", cur);
        // a `_string` variant is judged as its byte-level call; its outputs pass through from_utf8_lossy,
        // which the model does not have: the api facet judges it only when every value involved is valid UTF-8
        let (bop, sview) = op.base();
        let lossy = |v: Option<Vec<u8>>| -> Option<Vec<u8>> {
            if sview { v.map(|b| String::from_utf8_lossy(&b).to_string().into_bytes()) } else { v }
        };
        let sview_exact = !sview || {
            let o = oracles.get(&cur);
            let okv = |k: &B| o.and_then(|o| o.get(&k.bytes())).map(|v| std::str::from_utf8(v).is_ok()).unwrap_or(true);
            match &bop {
                Op::Get(k) | Op::Del(k) => okv(k),
                Op::BulkGet(ks) | Op::BulkDel(ks) => ks.iter().all(okv),
                _ => true,
            }
        };
        // ---------------- model side
        let mut want: Option<String> = None;
        let mut gen_diffs: Vec<(String, String, String)> = Vec::new();
        let mut ask = |d: &mut Option<Driver>, line: String| -> String {
            match d {
                Some(d) if opts.model => {
                    let a = d.ask(&line);
                    if opts.gen_engine {
                        // `<name> open|put|get|del|inc|len|cmp …`: the same request to the generated engine
                        let t: Vec<&str> = line.split_whitespace().collect();
                        if t.len() >= 2 && ["open", "put", "get", "del", "inc", "len", "cmp", "iter", "stats"].contains(&t[1]) && t[0].starts_with('m') {
                            let g = d.ask(&format!("ge {}", line));
                            if g != a {
                                gen_diffs.push((line.clone(), g, a.clone()));
                            }
                        }
                    }
                    a
                }
                _ => "-".into(),
            }
        };
        match &bop {
            Op::Map(id, kt, p) => {
                cur = *id;
                if !model_maps.contains_key(id) {
                    let (kind, x) = match p.bk {
                        Bk::Default => ("default", 0),
                        Bk::Size(n) => ("size", n),
                        Bk::Cap(c) => ("cap", c),
                    };
                    let n = ask(driver, format!("gen buckets {} {}", kind, x));
                    if n == "panic" {
                        want = Some("panic".into());
                    } else {
                        if n != "-" {
                            let a = ask(driver, format!("m{} open {} {}", id, kt.name(), n));
                            want = Some(a);
                        }
                        model_maps.insert(*id, p.bk != Bk::Default);
                        oracles.entry(*id).or_default();
                    }
                } else {
                    want = Some("ok".into());
                }
            }
            Op::Put(k, v) => {
                *cov.vlen_classes.entry(len_class(v.len())).or_default() += 1;
                *cov.klen.entry(len_class(k.len())).or_default() += 1;
                want = Some(ask(driver, format!("{} put {} {}", name, k.tok(), v.tok())));
            }
            Op::Get(k) => want = Some(ask(driver, format!("{} get {}", name, k.tok()))),
            Op::Del(k) => want = Some(ask(driver, format!("{} del {}", name, k.tok()))),
            Op::Inc(k) => want = Some(ask(driver, format!("{} inc {}", name, k.tok()))),
            Op::Len => want = Some(ask(driver, format!("{} len", name))),
            Op::Empty => want = Some(ask(driver, format!("{} empty", name))),
            Op::Iter(f) => {
                let m = ask(driver, format!("{} iter", name));
                want = Some(if m == "-" { m } else { iter_expect(&m, *f) });
            }
            Op::Stats => want = Some(ask(driver, format!("{} stats", name))),
            Op::Flush | Op::SyncAll | Op::SyncData | Op::DbSyncAll | Op::DbSyncData | Op::ReadFill | Op::Reopen(_) => {
                want = Some(ask(driver, format!("{} noop {}", name, op.kind())));
            }
            Op::BulkGet(ks) => {
                *cov.batch.entry(batch_class(ks.len())).or_default() += 1;
                let r: Vec<String> = ks.iter().map(|k| ask(driver, format!("{} get {}", name, k.tok()))).collect();
                want = Some(if opts.model && driver.is_some() { r.join("|") } else { "-".into() });
            }
            Op::BulkDel(ks) => {
                *cov.batch.entry(batch_class(ks.len())).or_default() += 1;
                let kb: Vec<Vec<u8>> = ks.iter().map(|k| k.bytes()).collect();
                let mut r = vec![String::new(); ks.len()];
                for j in sorted_order(&kb) {
                    r[j] = ask(driver, format!("{} del {}", name, ks[j].tok()));
                }
                want = Some(if opts.model && driver.is_some() { r.join("|") } else { "-".into() });
            }
            Op::BulkPut(kvs) | Op::BulkPutString(kvs) => {
                *cov.batch.entry(batch_class(kvs.len())).or_default() += 1;
                let kb: Vec<Vec<u8>> = kvs.iter().map(|k| k.0.bytes()).collect();
                let mut ok = true;
                for j in sorted_order(&kb) {
                    let a = ask(driver, format!("{} put {} {}", name, kvs[j].0.tok(), kvs[j].1.tok()));
                    ok = ok && (a == "ok" || a == "-");
                }
                want = Some(if !(opts.model && driver.is_some()) { "-".into() } else if ok { "ok".into() } else { "FAIL".into() });
            }
            Op::PutFromIter(kvs) => {
                *cov.batch.entry(batch_class(kvs.len())).or_default() += 1;
                let mut ok = true;
                for (k, v) in kvs {
                    let a = ask(driver, format!("{} put {} {}", name, k.tok(), v.tok()));
                    ok = ok && (a == "ok" || a == "-");
                }
                want = Some(if !(opts.model && driver.is_some()) { "-".into() } else if ok { "ok".into() } else { "FAIL".into() });
            }
            Op::Cmp(_) | Op::Rehandle(_) | Op::IsDirty => {}
            Op::GetString(_) | Op::PutString(..) | Op::DelString(_) | Op::BulkGetString(_) | Op::BulkDelString(_) => unreachable!(),
        }
        if !sview_exact {
            want = Some("-".into());
        }
        // ---------------- implementation side
        let wid = watch_begin(opts.op_budget_ms, format!("op={} {}", idx, op.text()));
        let got = imp.exec(&op);
        if got.starts_with("panic") || got == "child-dead" {
            cov.panics += 1;
            dead = true;
        }
        watch_end(wid);
        if got.starts_with("panic") && want.as_deref() == Some("panic") {
            // expected panic at creation (Capacity(0)): the case ends here
            transcript.push(format!("{} => panic (expected)", op.text()));
            break;
        }
        // ---------------- oracle side
        let mut oracle_want: Option<String> = None;
        if let Some(o) = oracles.get_mut(&cur) {
            match &bop {
                Op::Put(k, v) => {
                    if o.insert(k.bytes(), v.bytes()).is_some() {
                        cov.overwrite += 1;
                    }
                    oracle_want = Some("ok".into());
                }
                Op::Get(k) => {
                    let r = o.get(&k.bytes()).cloned();
                    if r.is_some() {
                        cov.found_hits += 1;
                    }
                    oracle_want = Some(repr_opt(&lossy(r)));
                }
                Op::Del(k) => {
                    let r = o.remove(&k.bytes());
                    if r.is_some() {
                        cov.delete_hit += 1;
                    }
                    oracle_want = Some(repr_opt(&lossy(r)));
                }
                Op::Inc(k) => oracle_want = Some(o.contains_key(&k.bytes()).to_string()),
                Op::Len => oracle_want = Some(o.len().to_string()),
                Op::IsDirty => oracle_want = dirty_flag.get(&cur).cloned().flatten().map(|b| b.to_string()),
                Op::Empty => oracle_want = Some(o.is_empty().to_string()),
                Op::BulkGet(ks) => {
                    oracle_want = Some(ks.iter().map(|k| repr_opt(&lossy(o.get(&k.bytes()).cloned()))).collect::<Vec<_>>().join("|"))
                }
                Op::BulkDel(ks) => {
                    // element-wise in input order (batches have no repeated keys)
                    oracle_want = Some(ks.iter().map(|k| repr_opt(&lossy(o.remove(&k.bytes())))).collect::<Vec<_>>().join("|"))
                }
                Op::BulkPut(kvs) | Op::BulkPutString(kvs) | Op::PutFromIter(kvs) => {
                    for (k, v) in kvs {
                        o.insert(k.bytes(), v.bytes());
                    }
                    oracle_want = Some("ok".into());
                }
                Op::Iter(f) => {
                    let mut items: Vec<String> = o
                        .iter()
                        .map(|(k, v)| match f {
                            2 => brepr(k),
                            3 => brepr(v),
                            _ => format!("{}={}", brepr(k), brepr(v)),
                        })
                        .collect();
                    items.sort();
                    let hints: Vec<String> = (0..=o.len()).rev().map(|x| x.to_string()).collect();
                    oracle_want = Some(format!("n={} items=[{}] hints=[{}] fused", o.len(), items.join(","), hints.join(",")));
                }
                Op::Flush | Op::SyncAll | Op::SyncData | Op::DbSyncAll | Op::DbSyncData | Op::ReadFill | Op::Reopen(_) => {
                    oracle_want = Some("ok".into())
                }
                _ => {}
            }
        }
        if opts.decoder && matches!(op, Op::Stats) && !dead {
            let _ = imp.exec(&Op::Flush);
            let curid = imp.cur();
            if let Some(slot) = imp.maps().into_iter().find(|m| m.0 == curid) {
                let dec = crate::decoder::decode(dir, &format!("m{}", slot.0), &sig_of(slot.1));
                if dec.errors.is_empty() {
                    oracle_want = Some(dec.stats_line());
                } else {
                    diffs.push(Diff { idx, facet: "decoder", op: op.text(), got: dec.errors[0].clone(), want: "consistent structure".into() });
                }
            }
        }
        transcript.push(format!("{} => {}", op.text(), got));
        if let Some(ow) = &oracle_want {
            let same = if let Op::Iter(_) = op {
                // order-insensitive for the oracle
                match (iter_multiset(&got), iter_multiset(ow)) {
                    (Some(a), Some(b)) => {
                        a == b
                            && got.split(" hints=").nth(1).map(|s| s.to_string()) == ow.split(" hints=").nth(1).map(|s| s.to_string())
                    }
                    _ => false,
                }
            } else {
                &got == ow
            };
            if !same {
                diffs.push(Diff { idx, facet: "oracle", op: op.text(), got: got.clone(), want: ow.clone() });
            }
        }
        if let Some(w) = &want {
            if w != "-" && &got != w {
                let facet = if matches!(op, Op::Map(..)) { "open" } else { "api" };
                diffs.push(Diff { idx, facet, op: op.text(), got: got.clone(), want: w.clone() });
            }
        }
        let changed = match &bop {
            Op::Put(..) => true,
            Op::BulkPut(v) | Op::BulkPutString(v) | Op::PutFromIter(v) => !v.is_empty(),
            Op::Del(..) => got.starts_with("some"),
            Op::BulkDel(..) => got.contains("some"),
            _ => false,
        };
        if changed {
            pending_sync.insert(cur);
            dirty_flag.insert(cur, Some(true));
        }
        match &op {
            // a freshly opened map reports dirty (its header may have been created)
            Op::Map(id, ..) if !dirty_flag.contains_key(id) && got == "ok" => {
                dirty_flag.insert(*id, Some(true));
            }
            Op::Reopen(_) if got == "ok" => {
                for v in dirty_flag.values_mut() {
                    *v = Some(true);
                }
            }
            Op::Flush | Op::SyncAll | Op::SyncData if got == "ok" => {
                dirty_flag.insert(cur, Some(false));
            }
            Op::DbSyncAll | Op::DbSyncData if got == "ok" => {
                for v in dirty_flag.values_mut() {
                    *v = Some(false);
                }
            }
            _ => {}
        }
        if !got.starts_with("some") && !got.starts_with("none") && !["ok", "true", "false"].contains(&got.as_str()) && !got.starts_with("n=") && !got.chars().next().map(|c| c.is_ascii_digit()).unwrap_or(false) && !got.starts_with("fk=") {
            // an error / panic / dead child: nothing is known about the flags afterwards
            for v in dirty_flag.values_mut() {
                *v = None;
            }
        }
        if op.is_update() {
            updated_since_cmp = true;
        } else if opts.ro_check && !updated_since_cmp && !matches!(op, Op::Cmp(_) | Op::Map(..) | Op::Reopen(_)) {
            let tr = imp.take_trace();
            if tr.split(',').any(|e| e.ends_with(":set_len")) {
                diffs.push(Diff { idx, facet: "trace", op: op.text(), got: format!("io-trace [{}]", tr.chars().take(120).collect::<String>()), want: "no set_len (a read-only call must not extend a file)".into() });
            }
        }
        if let Op::Map(id, ..) = &op {
            if !ever_opened.contains(id) {
                ever_opened.insert(*id);
                pending_sync.insert(*id);
            }
        }
        let is_sync = matches!(op, Op::Flush | Op::SyncAll | Op::SyncData | Op::DbSyncAll | Op::DbSyncData);
        if opts.sync_check && is_sync && !dead && got == "ok" {
            let db_level = matches!(op, Op::DbSyncAll | Op::DbSyncData);
            let scope: Vec<(usize, Kt)> = imp.maps().into_iter().filter(|m| db_level || m.0 == cur).collect();
            // --- io trace
            let tr = imp.take_trace();
            let want_ev = match op { Op::Flush => "flush", Op::SyncAll | Op::DbSyncAll => "sync_all", _ => "sync_data" };
            let dirty_in_scope = scope.iter().filter(|m| pending_sync.contains(&m.0)).count();
            for f in ["val", "key", "htx"] {
                let have = tr.split(',').filter(|e| *e == format!("{}:{}", f, want_ev)).count();
                if have < dirty_in_scope {
                    diffs.push(Diff { idx, facet: "trace", op: op.text(), got: format!("{} `{}:{}` events in [{}]", have, f, want_ev, tr.chars().take(200).collect::<String>()), want: format!("{} (one per map with pending updates)", dirty_in_scope) });
                }
            }
            // --- the directory at this very moment
            // killing the writer is only a fair crash point for the maps in scope: an out-of-scope map with
            // pending updates would legitimately lose them (then the directory is copied instead)
            let others_pending = pending_sync.iter().any(|id| !scope.iter().any(|m| m.0 == *id));
            let snap = if opts.kill_after_sync && opts.child && !others_pending {
                if let Exec::Child(c) = &mut imp { c.kill9(); }
                dir.to_path_buf()
            } else {
                let snap = dir.with_extension("snap");
                let _ = std::fs::remove_dir_all(&snap);
                let _ = std::fs::create_dir_all(&snap);
                if let Ok(rd) = std::fs::read_dir(dir) {
                    for e in rd.flatten() {
                        let _ = std::fs::copy(e.path(), snap.join(e.file_name()));
                    }
                }
                snap
            };
            for (id, _) in &scope {
                if model_maps.get(id) == Some(&true) && opts.model && driver.is_some() {
                    let a = ask(driver, format!("m{} cmp {}", id, snap.to_string_lossy()));
                    cov.cmps += 1;
                    if a != "htx=ok key=ok val=ok" {
                        diffs.push(Diff { idx, facet: "sync-bytes", op: format!("snapshot of m{} at {}", id, op.text()), got: a, want: "htx=ok key=ok val=ok".into() });
                    }
                }
            }
            if let Some(e) = check_dir_against_oracle(&snap, &scope, &oracles) {
                diffs.push(Diff { idx, facet: "sync-oracle", op: format!("open the directory as it is when {} returns", op.text()), got: e, want: "opens to exactly the current map state".into() });
            }
            if snap != dir {
                let _ = std::fs::remove_dir_all(&snap);
            } else {
                if imp.reopen_all().is_err() {
                    dead = true;
                }
                for v in dirty_flag.values_mut() {
                    *v = Some(true);
                }
            }
            for m in &scope {
                pending_sync.remove(&m.0);
            }
        } else if opts.sync_check && is_sync {
            let _ = imp.take_trace();
        }
        if opts.check_inv && op.is_update() && opts.model && driver.is_some() {
            let a = ask(driver, format!("m{} check", cur));
            if a != "inv-ok" {
                diffs.push(Diff { idx, facet: "inv", op: op.text(), got: a, want: "inv-ok".into() });
            }
        }
        // ---------------- byte comparison
        let do_cmp = match &op {
            Op::Cmp(m) => Some(*m),
            o if o.is_update() => opts.cmp_every,
            _ => None,
        };
        if let (Some(mode), false) = (do_cmp, dead) {
            if opts.model && driver.is_some() {
                // the comparison point syncs (mode 0: every map clean) or reopens (mode 1: every map fresh)
                for v in dirty_flag.values_mut() {
                    *v = Some(mode != 0);
                }
                let wid = watch_begin(opts.op_budget_ms, format!("op={} cmp-prepare", idx));
                let prep: Result<(), ()> = if mode == 0 {
                    let r = imp.exec(&Op::DbSyncData);
                    if r == "ok" { Ok(()) } else { Err(()) }
                } else if imp.close_all() {
                    Ok(())
                } else {
                    Err(())
                };
                watch_end(wid);
                if prep.is_err() {
                    dead = true;
                    diffs.push(Diff { idx, facet: "api", op: "cmp-prepare".into(), got: "panic".into(), want: "ok".into() });
                } else {
                    for (id, allowed) in model_maps.clone() {
                        if !allowed {
                            continue;
                        }
                        let a = ask(driver, format!("m{} cmp {}", id, dirs));
                        cov.cmps += 1;
                        if a != "htx=ok key=ok val=ok" {
                            diffs.push(Diff { idx, facet: "bytes", op: format!("cmp m{} after {}", id, op.text()), got: a, want: "htx=ok key=ok val=ok".into() });
                        }
                    }
                    if opts.parse_check {
                        for (id, allowed) in model_maps.clone() {
                            let total: u64 = ["htx", "key", "val"].iter().map(|e| std::fs::metadata(dir.join(format!("m{}.{}", id, e))).map(|m| m.len()).unwrap_or(0)).sum();
                            if !allowed || total > 400_000 {
                                continue;
                            }
                            let a = ask(driver, format!("m{} parse {}", id, dirs));
                            if a != "parse=ok same=ok inv=ok" {
                                diffs.push(Diff { idx, facet: "parse", op: format!("Lean reader on the files of m{} after {}", id, op.text()), got: a, want: "parse=ok same=ok inv=ok".into() });
                            }
                        }
                    }
                    if opts.ro_check {
                        let mut h: Vec<(String, u64, u64)> = Vec::new();
                        if let Ok(rd) = std::fs::read_dir(dir) {
                            let mut names: Vec<_> = rd.flatten().map(|e| e.path()).collect();
                            names.sort();
                            for pth in names {
                                let data = std::fs::read(&pth).unwrap_or_default();
                                let mut x: u64 = 0xcbf29ce484222325;
                                for b in &data {
                                    x ^= *b as u64;
                                    x = x.wrapping_mul(0x100000001b3);
                                }
                                h.push((pth.file_name().unwrap().to_string_lossy().to_string(), data.len() as u64, x));
                            }
                        }
                        if let Some(prev) = &last_hash {
                            if !updated_since_cmp && prev != &h {
                                let which = prev.iter().zip(h.iter()).find(|(a, b)| a != b).map(|(a, b)| format!("{}: length {} -> {}", a.0, a.1, b.1)).unwrap_or_default();
                                diffs.push(Diff { idx, facet: "ro-bytes", op: "files before / after a read-only session".into(), got: format!("changed ({})", which), want: "byte-for-byte identical".into() });
                            }
                        }
                        last_hash = Some(h);
                        updated_since_cmp = false;
                        clear_trace = true;
                    }
                    if opts.decoder {
                        for (id, allowed) in model_maps.clone() {
                            if !allowed {
                                continue;
                            }
                            let Some(slot) = imp.maps().into_iter().find(|m| m.0 == id) else { continue };
                            let dec = crate::decoder::decode(dir, &format!("m{}", id), &sig_of(slot.1));
                            if let Some(e) = dec.errors.first() {
                                diffs.push(Diff { idx, facet: "decoder", op: format!("decode m{} after {}", id, op.text()), got: e.clone(), want: "consistent structure".into() });
                            } else if let Some(o) = oracles.get(&id) {
                                let mut got: Vec<(Vec<u8>, Vec<u8>)> = dec.entries.clone();
                                got.sort();
                                let want: Vec<(Vec<u8>, Vec<u8>)> = o.iter().map(|(k, v)| (k.clone(), v.clone())).collect();
                                if got != want {
                                    diffs.push(Diff { idx, facet: "decoder", op: format!("decode m{} after {}", id, op.text()), got: format!("{} entries decoded", got.len()), want: format!("{} entries, equal to the map contents", want.len()) });
                                }
                            }
                            // (judged across single put/delete calls only: a batch call may reuse a free slot
                            // and free it again before it extends the file for a later pair)
                            if let (Some(prev), true) = (prev_dec.get(&id), matches!(bop, Op::Put(..) | Op::Del(..))) {
                                if let Some(e) = crate::decoder::extend_rule(prev, &dec) {
                                    diffs.push(Diff { idx, facet: "decoder", op: format!("extend-only-if-needed m{} after {}", id, op.text()), got: e, want: "file extended only when no free slot fits".into() });
                                }
                            }
                            prev_dec.insert(id, dec);
                        }
                    }
                    for e in ["key", "val"] {
                        if let Ok(md) = std::fs::metadata(dir.join(format!("m{}.{}", cur, e))) {
                            if e == "key" {
                                cov.max_key_file = cov.max_key_file.max(md.len());
                            } else {
                                cov.max_val_file = cov.max_val_file.max(md.len());
                            }
                        }
                    }
                    if mode == 1 {
                        let wid = watch_begin(opts.op_budget_ms, format!("op={} reopen-after-cmp", idx));
                        let r = imp.reopen_all();
                        watch_end(wid);
                        match r {
                            Ok(()) => {}
                            _ => {
                                dead = true;
                                diffs.push(Diff { idx, facet: "oracle", op: "drop every handle, then open the directory again (reopen-after-cmp)".into(), got: "panic/err".into(), want: "ok".into() });
                            }
                        }
                    }
                }
            }
        }
        if clear_trace {
            let _ = imp.take_trace();
            clear_trace = false;
        }
        for (l, g, a) in gen_diffs.drain(..) {
            let facet = if l.contains(" cmp ") { "gen-bytes" } else { "gen-api" };
            diffs.push(Diff { idx, facet, op: format!("generated engine: {}", l), got: g, want: a });
        }
        if opts.stop_first && !diffs.is_empty() {
            break;
        }
    }
    // drop handles quietly (after a panic the RefCells may be poisoned; never unwind from drop)
    imp.finish();
    if let (true, Some(d)) = (opts.model, driver.as_mut()) {
        for kv in d.ask("cov").split(',') {
            let mut it = kv.split('=');
            if let (Some(k), Some(v)) = (it.next(), it.next()) {
                if let Ok(v) = v.parse::<u64>() {
                    cov.model_branches.insert(k.to_string(), v);
                }
            }
        }
    }
    Outcome { diffs, steps, cov, transcript }
}
