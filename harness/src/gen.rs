//! Generators of operation sequences. Structured, mostly-valid input drawn from the crate's own
//! types: key pools that collide, lengths on slot-class and offset-width boundaries, etc.
use crate::imp::vu64_encode;
use crate::proto::*;
use crate::rng::Rng;

pub const CLASSES: [usize; 16] = [16, 24, 32, 48, 64, 80, 96, 112, 128, 256, 384, 512, 640, 768, 896, 1024];

#[derive(Clone, Debug)]
pub struct Profile {
    pub kt: Kt,
    pub params: Params,
    pub n_ops: usize,
    pub pool: usize,
    /// weights: put, get, del, inc, len, empty, iter, stats, flush/sync, reopen, cmp, bulk, readfill, rehandle
    pub w: [u64; 14],
    /// 0 = small values, 1 = class edges, 2 = with large (>= 1 KiB), 3 = with huge (>= 64 KiB)
    pub val_mode: u8,
    /// 0 = mixed key lengths, 1 = 11-byte keys (key slot exactly full), 2 = long keys too
    pub key_mode: u8,
    pub cmp_mode: u8,
    /// a key outside the pool is used once in `fresh` operations (12 by default; the live set keeps growing)
    pub fresh: u64,
    /// largest batch of a bulk call (8 by default; above 8: 62% 0..8, 30% 9..200, 8% 201..bulk_max keys)
    pub bulk_max: usize,
}

impl Profile {
    pub fn basic(kt: Kt, n: u64, n_ops: usize) -> Profile {
        Profile {
            kt,
            params: Params::buckets(n),
            n_ops,
            pool: 12,
            w: [45, 15, 15, 5, 3, 2, 2, 1, 1, 0, 0, 0, 0, 0],
            val_mode: 1,
            key_mode: 0,
            cmp_mode: 1,
            fresh: 12,
            bulk_max: 8,
        }
    }
}

pub fn int_boundaries(rng: &mut Rng) -> u64 {
    match rng.below(6) {
        0 => {
            let k = rng.below(65);
            let base: u64 = if k == 64 { u64::MAX } else { (1u64 << k).wrapping_sub(0) };
            match rng.below(3) {
                0 => base.wrapping_sub(1),
                1 => base,
                _ => base.wrapping_add(1),
            }
        }
        1 => {
            // vu64 encoding-length boundaries 2^(7k)
            let k = rng.range(1, 9);
            let base: u64 = if 7 * k >= 64 { u64::MAX } else { 1u64 << (7 * k) };
            match rng.below(3) {
                0 => base.wrapping_sub(1),
                1 => base,
                _ => base.wrapping_add(1),
            }
        }
        2 => rng.below(300),
        3 => 1u64 << rng.below(64),
        4 => (i64::MIN as u64).wrapping_add(rng.below(3)).wrapping_sub(1),
        _ => rng.next(),
    }
}

pub fn gen_key(rng: &mut Rng, kt: Kt, key_mode: u8) -> B {
    match kt {
        Kt::U64 | Kt::I64 => B::Hex(int_boundaries(rng).to_le_bytes().to_vec()),
        Kt::Vu64 => B::Hex(vu64_encode(int_boundaries(rng))),
        Kt::Str | Kt::Bytes => {
            let len = match key_mode {
                1 => 11,
                // key lengths whose record exactly fills a slot class while both offsets need 2 bytes
                // (klen = class - 6), or the chain tail's (next = 0: class - 5)
                3 => *rng.pick(&[10usize, 10, 11, 18, 18, 19, 26, 27, 42, 58, 10, 18]),
                _ => {
                    let choices: &[usize] = if key_mode == 2 {
                        &[0, 1, 2, 3, 5, 8, 11, 12, 13, 19, 43, 100, 126, 127, 128, 300, 1100, 5000]
                    } else {
                        &[0, 1, 1, 2, 2, 3, 3, 5, 8, 11, 11, 12, 13, 19, 43, 100]
                    };
                    *rng.pick(choices)
                }
            };
            if len <= 24 {
                let alpha: &[u8] = if kt == Kt::Str { b"abkz019_" } else { &[0, 1, 97, 98, 0x80, 0xff, 0xc3, 0x28] };
                B::Hex((0..len).map(|_| *rng.pick(alpha)).collect())
            } else {
                // long keys: pattern bytes (ASCII range for string keys is not required: DbString holds bytes)
                B::Pat(len, rng.below(1000))
            }
        }
    }
}

pub fn gen_val_len(rng: &mut Rng, mode: u8) -> usize {
    let r = rng.below(100);
    match mode {
        0 => rng.below(14) as usize,
        _ => {
            if r < 10 {
                0
            } else if r < 35 {
                rng.below(14) as usize
            } else if r < 75 || mode == 1 {
                let c = *rng.pick(&CLASSES);
                (c + 1).saturating_sub(rng.below(7) as usize)
            } else if r < 93 || mode == 2 {
                match rng.below(4) {
                    0 => rng.range(1000, 1300) as usize,
                    1 => *rng.pick(&[1021usize, 1022, 1023, 1024, 1148, 1149, 1150, 1151, 1152, 2044, 2045, 2046]),
                    2 => rng.range(1300, 6000) as usize,
                    _ => rng.range(4090, 4100) as usize,
                }
            } else {
                *rng.pick(&[16380usize, 16381, 16382, 16383, 16384, 70_000, 131_066, 131_067, 131_068, 131_072, 300_000])
            }
        }
    }
}

pub fn gen_val(rng: &mut Rng, mode: u8) -> B {
    let len = gen_val_len(rng, mode);
    if len <= 16 && rng.chance(1, 2) {
        B::Hex((0..len).map(|_| rng.below(256) as u8).collect())
    } else {
        B::Pat(len, rng.below(1000))
    }
}

/// C08/C01/C05: one- or two-bucket map whose key records exactly fill their slots; both files are
/// pushed beyond 16 KiB by one huge entry that is deleted again, then old entries are overwritten
/// with longer values and deleted: value records move past an offset-width boundary, key records
/// follow, predecessors cascade toward the bucket.
pub fn gen_cascade(rng: &mut Rng, kt: Kt, n_ops: usize) -> Seq {
    gen_cascade_infl(rng, kt, n_ops, 16_400, 17_500)
}

/// the same with a chosen size of the inflating entry (C09: beyond 128 KiB the offset estimate of a
/// key record has no slack left)
pub fn gen_cascade_infl(rng: &mut Rng, kt: Kt, n_ops: usize, lo: u64, hi: u64) -> Seq {
    let mut pool: Vec<B> = Vec::new();
    while pool.len() < rng.range(3, 30) as usize {
        let k = gen_key(rng, kt, 3);
        if !pool.iter().any(|x| x.bytes() == k.bytes()) {
            pool.push(k);
        }
    }
    // the first key put is the chain tail (next = 0): give it a tail-exact length (class - 5) often
    if rng.chance(2, 3) {
        let l = *rng.pick(&[11usize, 11, 19, 27, 43]);
        let alpha: &[u8] = b"abkz019_";
        pool[0] = B::Hex((0..l).map(|_| *rng.pick(alpha)).collect());
    }
    let mut ops = Vec::new();
    for k in &pool {
        ops.push(Op::Put(k.clone(), B::Pat(rng.below(10) as usize, 1)));
    }
    let big = B::Pat(rng.range(16_500, 17_500) as usize, 4242);
    ops.push(Op::Put(big.clone(), B::Pat(rng.range(lo, hi) as usize, 7)));
    if rng.chance(3, 4) {
        ops.push(Op::Del(big.clone()));
    }
    for _ in 0..n_ops {
        let k = rng.pick(&pool).clone();
        ops.push(match rng.below(10) {
            0..=5 => Op::Put(k, B::Pat(rng.range(20, 400) as usize, rng.below(100))),
            6 | 7 => Op::Del(k),
            8 => Op::Get(k),
            _ => Op::Put(gen_key(rng, kt, 3), B::Pat(rng.below(30) as usize, 3)),
        });
    }
    for k in &pool {
        ops.push(Op::Get(k.clone()));
    }
    ops.push(Op::Len);
    ops.push(Op::Iter(0));
    ops.push(Op::Stats);
    Seq { kt, params: Params::buckets(*rng.pick(&[1u64, 1, 2])), ops }
}

/// histories over groups of different keys with one and the same 64-bit hash (whatever the table size they share a
/// bucket, and nothing that looks at the hash alone can tell them apart); lookups stand directly in front of updates
pub fn gen_collide(rng: &mut Rng, kt: Kt, n_ops: usize) -> Seq {
    let groups = crate::decoder::colliding_keys(rng.below(1000), rng.range(1, 3) as usize, rng.range(2, 3) as usize, *rng.pick(&[0usize, 0, 3, 8]));
    let pool: Vec<B> = groups.into_iter().flatten().map(B::Hex).collect();
    let mut ops = Vec::new();
    for _ in 0..n_ops {
        let k = rng.pick(&pool).clone();
        let k2 = rng.pick(&pool).clone();
        match rng.below(12) {
            0..=3 => ops.push(Op::Put(k, B::Pat(rng.below(60) as usize, rng.below(100)))),
            4 | 5 => ops.push(Op::Del(k)),
            6 => {
                ops.push(Op::Get(k));
                ops.push(Op::Put(k2, B::Pat(rng.below(60) as usize, rng.below(100))));
            }
            7 => {
                ops.push(Op::Inc(k));
                ops.push(Op::Del(k2));
            }
            8 => {
                ops.push(Op::Get(k));
                ops.push(Op::Del(k2));
            }
            9 => ops.push(Op::Get(k)),
            10 => ops.push(Op::Inc(k)),
            _ => ops.push(Op::Len),
        }
    }
    for k in &pool {
        ops.push(Op::Get(k.clone()));
    }
    ops.push(Op::Len);
    ops.push(Op::Iter(0));
    Seq { kt, params: Params::buckets(*rng.pick(&[1u64, 8, 64, 1024])), ops }
}

/// bulk calls whose batches hold different keys with one and the same 64-bit hash (no key twice in a batch)
pub fn gen_collide_bulk(rng: &mut Rng, kt: Kt) -> Seq {
    let groups = crate::decoder::colliding_keys(rng.below(1000), rng.range(2, 4) as usize, rng.range(2, 3) as usize, *rng.pick(&[0usize, 3]));
    let pool: Vec<B> = groups.into_iter().flatten().map(B::Hex).collect();
    let shuffled = |rng: &mut Rng, v: &Vec<B>| {
        let mut w = v.clone();
        for i in (1..w.len()).rev() {
            let j = rng.below(i as u64 + 1) as usize;
            w.swap(i, j);
        }
        w
    };
    let mut ops = Vec::new();
    for round in 0..4u64 {
        let ks = shuffled(rng, &pool);
        let some: Vec<B> = ks.iter().filter(|_| rng.chance(3, 4)).cloned().collect();
        ops.push(Op::BulkPut(some.iter().enumerate().map(|(j, k)| (k.clone(), B::Pat(10 + j, round * 50 + j as u64))).collect()));
        ops.push(Op::BulkGet(shuffled(rng, &pool)));
        ops.push(Op::Len);
        let del: Vec<B> = shuffled(rng, &pool).into_iter().filter(|_| rng.chance(1, 2)).collect();
        ops.push(Op::BulkDel(del));
        ops.push(Op::BulkGet(shuffled(rng, &pool)));
        ops.push(Op::Len);
    }
    Seq { kt, params: Params::buckets(*rng.pick(&[1u64, 8, 64])), ops }
}

pub fn gen_history(rng: &mut Rng, p: &Profile) -> Seq {
    let pool: Vec<B> = {
        let mut v: Vec<B> = Vec::new();
        while v.len() < p.pool {
            let k = gen_key(rng, p.kt, p.key_mode);
            if !v.iter().any(|x| x.bytes() == k.bytes()) {
                v.push(k);
            } else if p.kt != Kt::Str && p.kt != Kt::Bytes && v.len() > 2 && rng.chance(1, 50) {
                break;
            } else if rng.chance(1, 200) {
                break;
            }
        }
        v
    };
    let total: u64 = p.w.iter().sum();
    let mut ops = Vec::new();
    let buckets_params = [
        Params::buckets(1),
        Params::buckets(7),
        Params { bk: Bk::Cap(100), ..Params::buckets(1) },
        Params { bk: Bk::Size(64), key: Buf::Size(300_000), val: Buf::PerMille(1000), htx: Buf::Auto, default_bufs: false },
    ];
    for _ in 0..p.n_ops {
        let mut r = rng.below(total);
        let mut which = 0;
        for (i, w) in p.w.iter().enumerate() {
            if r < *w {
                which = i;
                break;
            }
            r -= *w;
        }
        let key = |rng: &mut Rng| -> B {
            if rng.chance(1, p.fresh) {
                gen_key(rng, p.kt, p.key_mode)
            } else {
                rng.pick(&pool).clone()
            }
        };
        ops.push(match which {
            0 => {
                let (k, v) = (key(rng), gen_val(rng, p.val_mode));
                if rng.chance(1, 6) && v.len() < 5000 && std::str::from_utf8(&v.bytes()).is_ok() {
                    Op::PutString(k, v)
                } else {
                    Op::Put(k, v)
                }
            }
            1 => {
                if rng.chance(1, 6) {
                    Op::GetString(key(rng))
                } else {
                    Op::Get(key(rng))
                }
            }
            2 => {
                if rng.chance(1, 6) {
                    Op::DelString(key(rng))
                } else {
                    Op::Del(key(rng))
                }
            }
            3 => Op::Inc(key(rng)),
            4 => Op::Len,
            5 => {
                if rng.chance(1, 3) {
                    Op::IsDirty
                } else {
                    Op::Empty
                }
            }
            6 => Op::Iter(rng.below(7) as u8),
            7 => Op::Stats,
            8 => match rng.below(5) {
                0 => Op::Flush,
                1 => Op::SyncAll,
                2 => Op::SyncData,
                3 => Op::DbSyncAll,
                _ => Op::DbSyncData,
            },
            9 => Op::Reopen(if rng.chance(1, 2) { p.params } else { *rng.pick(&buckets_params) }),
            10 => Op::Cmp(p.cmp_mode),
            11 => {
                let size_class = if p.bulk_max > 8 { rng.below(100) } else { 0 };
                // (long runs: fewer of the larger batches, the model's cost grows with them)
                let size_class = if p.n_ops > 200 && size_class >= 62 && rng.chance(4, 5) { 0 } else { size_class };
                let n = if size_class < 62 {
                    rng.below(9) as usize
                } else if size_class < 92 {
                    rng.range(9, 200.min(p.bulk_max as u64)) as usize
                } else {
                    rng.range(201.min(p.bulk_max as u64), p.bulk_max as u64) as usize
                };
                let mut ks: Vec<B> = Vec::new();
                let mut seen: std::collections::HashSet<Vec<u8>> = std::collections::HashSet::new();
                for j in 0..n {
                    // keys of the pool (mostly present) and, in larger batches, other keys in no particular order
                    let k = if n <= 8 || rng.chance(1, 3) {
                        key(rng)
                    } else {
                        let x = rng.next() % 1_000_003 + (j as u64 % 7) * 1_000_003;
                        match p.kt {
                            Kt::U64 | Kt::I64 => B::Hex(x.wrapping_mul(0x9E37_79B9_7F4A_7C15).to_le_bytes().to_vec()),
                            Kt::Vu64 => B::Hex(vu64_encode(x << (rng.below(8) * 7))),
                            Kt::Str | Kt::Bytes => B::Hex(format!("bk{:x}", x).into_bytes()),
                        }
                    };
                    if seen.insert(k.bytes()) {
                        ks.push(k);
                    }
                }
                let which = if n > 200 { rng.below(2) } else { rng.below(5) };
                match which {
                    0 => {
                        // bulk_get may repeat keys
                        let mut ks2 = ks.clone();
                        if !ks.is_empty() && rng.chance(1, 2) {
                            ks2.push(ks[0].clone());
                        }
                        if rng.chance(1, 3) {
                            Op::BulkGetString(ks2)
                        } else {
                            Op::BulkGet(ks2)
                        }
                    }
                    1 => {
                        if rng.chance(1, 3) {
                            Op::BulkDelString(ks)
                        } else {
                            Op::BulkDel(ks)
                        }
                    }
                    2 => Op::BulkPut(ks.into_iter().map(|k| (k, gen_val(rng, p.val_mode))).collect()),
                    3 => {
                        // put_from_iter applies pairs in iteration order: repeated keys allowed (the later
                        // pair wins); sometimes long batches (an unstable sort would reorder equal keys
                        // only beyond ~32 elements)
                        let mut kvs: Vec<(B, B)> = ks.into_iter().map(|k| (k, gen_val(rng, p.val_mode))).collect();
                        if !kvs.is_empty() && rng.chance(1, 2) {
                            let extra = if rng.chance(1, 2) { rng.range(1, 4) } else { rng.range(35, 90) };
                            for _ in 0..extra {
                                let k = rng.pick(&kvs).0.clone();
                                kvs.push((k, B::Pat(rng.below(30) as usize, rng.below(1000))));
                            }
                        }
                        Op::PutFromIter(kvs)
                    }
                    _ => Op::BulkPutString(
                        ks.into_iter()
                            .map(|k| {
                                let l = rng.below(40) as usize;
                                (k, B::Hex((0..l).map(|_| b'a' + rng.below(26) as u8).collect()))
                            })
                            .collect(),
                    ),
                }
            }
            12 => Op::ReadFill,
            _ => Op::Rehandle(rng.below(3) as u8),
        });
    }
    Seq { kt: p.kt, params: p.params, ops }
}
