//! Line protocol shared with the Lean driver (lean/Main.lean): byte-string tokens,
//! canonical result strings, operations and their text form (also the replay format).
use std::fmt::Write;

#[derive(Clone, Debug, PartialEq, Eq, Hash, PartialOrd, Ord)]
pub enum B {
    Hex(Vec<u8>),
    Pat(usize, u64),
}

pub fn pat_bytes(len: usize, seed: u64) -> Vec<u8> {
    (0..len)
        .map(|i| ((seed * 31 + (i as u64) * 7 + (i as u64) / 256) % 251) as u8)
        .collect()
}

impl B {
    pub fn bytes(&self) -> Vec<u8> {
        match self {
            B::Hex(v) => v.clone(),
            B::Pat(l, s) => pat_bytes(*l, *s),
        }
    }
    pub fn len(&self) -> usize {
        match self {
            B::Hex(v) => v.len(),
            B::Pat(l, _) => *l,
        }
    }
    pub fn tok(&self) -> String {
        match self {
            B::Hex(v) => format!("x{}", hex(v)),
            B::Pat(l, s) => format!("p{}:{}", l, s),
        }
    }
    pub fn parse(t: &str) -> Option<B> {
        if let Some(h) = t.strip_prefix('x') {
            unhex(h).map(B::Hex)
        } else if let Some(r) = t.strip_prefix('p') {
            let mut it = r.split(':');
            let l = it.next()?.parse().ok()?;
            let s = it.next()?.parse().ok()?;
            Some(B::Pat(l, s))
        } else {
            None
        }
    }
}

pub fn hex(v: &[u8]) -> String {
    let mut s = String::with_capacity(v.len() * 2);
    for b in v {
        let _ = write!(s, "{:02x}", b);
    }
    s
}
pub fn unhex(h: &str) -> Option<Vec<u8>> {
    if h.len() % 2 != 0 {
        return None;
    }
    (0..h.len() / 2)
        .map(|i| u8::from_str_radix(&h[2 * i..2 * i + 2], 16).ok())
        .collect()
}

pub fn checksum(bs: &[u8]) -> u64 {
    let mut h: u64 = 7;
    for &b in bs {
        h = (h * 131 + b as u64 + 1) % 4294967291;
    }
    h
}
/// canonical short representation: len:hexprefix:checksum
pub fn brepr(bs: &[u8]) -> String {
    format!("{}:{}:{}", bs.len(), hex(&bs[..bs.len().min(12)]), checksum(bs))
}
pub fn repr_opt(v: &Option<Vec<u8>>) -> String {
    match v {
        None => "none".to_string(),
        Some(v) => format!("some {}", brepr(v)),
    }
}

#[derive(Clone, Copy, Debug, PartialEq, Eq, Hash, PartialOrd, Ord)]
pub enum Kt {
    Str,
    Bytes,
    U64,
    I64,
    Vu64,
}
impl Kt {
    pub fn name(&self) -> &'static str {
        match self {
            Kt::Str => "string",
            Kt::Bytes => "bytes",
            Kt::U64 => "u64",
            Kt::I64 => "i64",
            Kt::Vu64 => "vu64",
        }
    }
    pub fn parse(s: &str) -> Option<Kt> {
        Some(match s {
            "string" => Kt::Str,
            "bytes" => Kt::Bytes,
            "u64" => Kt::U64,
            "i64" => Kt::I64,
            "vu64" => Kt::Vu64,
            _ => return None,
        })
    }
    pub const ALL: [Kt; 5] = [Kt::Str, Kt::Bytes, Kt::U64, Kt::I64, Kt::Vu64];
}

/// buffer size parameter of one file
#[derive(Clone, Copy, Debug, PartialEq, Eq)]
pub enum Buf {
    Auto,
    Size(u32),
    PerMille(u16),
}
/// bucket parameter
#[derive(Clone, Copy, Debug, PartialEq, Eq)]
pub enum Bk {
    Default,
    Size(u64),
    Cap(u64),
}
#[derive(Clone, Copy, Debug, PartialEq, Eq)]
pub struct Params {
    pub bk: Bk,
    pub key: Buf,
    pub val: Buf,
    pub htx: Buf,
    /// true = use FileDbParams::default() buffer fields untouched
    pub default_bufs: bool,
}
impl Params {
    pub fn buckets(n: u64) -> Params {
        Params { bk: Bk::Size(n), key: Buf::Auto, val: Buf::Auto, htx: Buf::Auto, default_bufs: true }
    }
    pub fn tok(&self) -> String {
        let b = |x: &Buf| match x {
            Buf::Auto => "a".to_string(),
            Buf::Size(s) => format!("s{}", s),
            Buf::PerMille(p) => format!("m{}", p),
        };
        let k = match self.bk {
            Bk::Default => "d".to_string(),
            Bk::Size(n) => format!("b{}", n),
            Bk::Cap(c) => format!("c{}", c),
        };
        if self.default_bufs {
            format!("{},-", k)
        } else {
            format!("{},{},{},{}", k, b(&self.key), b(&self.val), b(&self.htx))
        }
    }
    pub fn parse(t: &str) -> Option<Params> {
        let parts: Vec<&str> = t.split(',').collect();
        let k = parts.first()?;
        let bk = if *k == "d" {
            Bk::Default
        } else if let Some(n) = k.strip_prefix('b') {
            Bk::Size(n.parse().ok()?)
        } else if let Some(c) = k.strip_prefix('c') {
            Bk::Cap(c.parse().ok()?)
        } else {
            return None;
        };
        let pb = |s: &str| -> Option<Buf> {
            if s == "a" {
                Some(Buf::Auto)
            } else if let Some(x) = s.strip_prefix('s') {
                Some(Buf::Size(x.parse().ok()?))
            } else if let Some(x) = s.strip_prefix('m') {
                Some(Buf::PerMille(x.parse().ok()?))
            } else {
                None
            }
        };
        if parts.len() == 2 && parts[1] == "-" {
            Some(Params { bk, key: Buf::Auto, val: Buf::Auto, htx: Buf::Auto, default_bufs: true })
        } else if parts.len() == 4 {
            Some(Params { bk, key: pb(parts[1])?, val: pb(parts[2])?, htx: pb(parts[3])?, default_bufs: false })
        } else {
            None
        }
    }
    /// number of buckets the map is created with (None = creation panics)
    pub fn expected_buckets(&self) -> Option<u64> {
        match self.bk {
            Bk::Default => Some(16 * 1024 * 1024),
            Bk::Size(x) => Some(x.next_power_of_two()),
            Bk::Cap(0) => None,
            Bk::Cap(c) if c < 8 => Some(8),
            Bk::Cap(c) => Some((c + c / 8).next_power_of_two()),
        }
    }
}

#[derive(Clone, Debug, PartialEq)]
pub enum Op {
    Put(B, B),
    Get(B),
    Del(B),
    Inc(B),
    Len,
    Empty,
    /// 0 iter, 1 iter_mut, 2 keys, 3 values, 4 into_iter (by value), 5 (&map).into_iter(), 6 (&mut map).into_iter()
    Iter(u8),
    Stats,
    Flush,
    SyncAll,
    SyncData,
    DbSyncAll,
    DbSyncData,
    ReadFill,
    BulkGet(Vec<B>),
    BulkDel(Vec<B>),
    BulkPut(Vec<(B, B)>),
    BulkPutString(Vec<(B, B)>),
    PutFromIter(Vec<(B, B)>),
    GetString(B),
    /// `FileDbMap::is_dirty()`
    IsDirty,
    /// the `_string` variants of the API (values pass through `String::from_utf8_lossy` on the way out)
    PutString(B, B),
    DelString(B),
    BulkGetString(Vec<B>),
    BulkDelString(Vec<B>),
    /// drop every handle, reopen with these parameters
    Reopen(Params),
    /// compare the files with render(model): 0 = after flush(), 1 = after drop + reopen
    Cmp(u8),
    /// switch to / open another map in the same directory: (map id, key type, params)
    Map(usize, Kt, Params),
    /// clone the current handle / re-acquire it from the db / from a cloned db
    Rehandle(u8),
}

fn kvs_tok(v: &[(B, B)]) -> String {
    v.iter().map(|(k, x)| format!("{}={}", k.tok(), x.tok())).collect::<Vec<_>>().join(";")
}
fn ks_tok(v: &[B]) -> String {
    v.iter().map(|k| k.tok()).collect::<Vec<_>>().join(";")
}
fn parse_ks(s: &str) -> Option<Vec<B>> {
    if s == "-" {
        return Some(vec![]);
    }
    s.split(';').map(B::parse).collect()
}
fn parse_kvs(s: &str) -> Option<Vec<(B, B)>> {
    if s == "-" {
        return Some(vec![]);
    }
    s.split(';')
        .map(|p| {
            let mut it = p.split('=');
            Some((B::parse(it.next()?)?, B::parse(it.next()?)?))
        })
        .collect()
}
fn dash(s: String) -> String {
    if s.is_empty() {
        "-".to_string()
    } else {
        s
    }
}

impl Op {
    pub fn text(&self) -> String {
        match self {
            Op::Put(k, v) => format!("put {} {}", k.tok(), v.tok()),
            Op::Get(k) => format!("get {}", k.tok()),
            Op::Del(k) => format!("del {}", k.tok()),
            Op::Inc(k) => format!("inc {}", k.tok()),
            Op::Len => "len".into(),
            Op::Empty => "empty".into(),
            Op::Iter(f) => format!("iter {}", f),
            Op::Stats => "stats".into(),
            Op::Flush => "flush".into(),
            Op::SyncAll => "sync_all".into(),
            Op::SyncData => "sync_data".into(),
            Op::DbSyncAll => "db_sync_all".into(),
            Op::DbSyncData => "db_sync_data".into(),
            Op::ReadFill => "read_fill".into(),
            Op::BulkGet(ks) => format!("bulk_get {}", dash(ks_tok(ks))),
            Op::BulkDel(ks) => format!("bulk_del {}", dash(ks_tok(ks))),
            Op::BulkPut(kvs) => format!("bulk_put {}", dash(kvs_tok(kvs))),
            Op::BulkPutString(kvs) => format!("bulk_put_string {}", dash(kvs_tok(kvs))),
            Op::PutFromIter(kvs) => format!("put_from_iter {}", dash(kvs_tok(kvs))),
            Op::GetString(k) => format!("get_string {}", k.tok()),
            Op::IsDirty => "is_dirty".into(),
            Op::PutString(k, v) => format!("put_string {} {}", k.tok(), v.tok()),
            Op::DelString(k) => format!("del_string {}", k.tok()),
            Op::BulkGetString(ks) => format!("bulk_get_string {}", dash(ks_tok(ks))),
            Op::BulkDelString(ks) => format!("bulk_del_string {}", dash(ks_tok(ks))),
            Op::Reopen(p) => format!("reopen {}", p.tok()),
            Op::Cmp(m) => format!("cmp {}", m),
            Op::Map(i, kt, p) => format!("map {} {} {}", i, kt.name(), p.tok()),
            Op::Rehandle(m) => format!("rehandle {}", m),
        }
    }
    pub fn parse(line: &str) -> Option<Op> {
        let t: Vec<&str> = line.split_whitespace().collect();
        Some(match (t.first().copied()?, t.len()) {
            ("put", 3) => Op::Put(B::parse(t[1])?, B::parse(t[2])?),
            ("get", 2) => Op::Get(B::parse(t[1])?),
            ("del", 2) => Op::Del(B::parse(t[1])?),
            ("inc", 2) => Op::Inc(B::parse(t[1])?),
            ("len", 1) => Op::Len,
            ("empty", 1) => Op::Empty,
            ("iter", 2) => Op::Iter(t[1].parse().ok()?),
            ("stats", 1) => Op::Stats,
            ("flush", 1) => Op::Flush,
            ("sync_all", 1) => Op::SyncAll,
            ("sync_data", 1) => Op::SyncData,
            ("db_sync_all", 1) => Op::DbSyncAll,
            ("db_sync_data", 1) => Op::DbSyncData,
            ("read_fill", 1) => Op::ReadFill,
            ("bulk_get", 2) => Op::BulkGet(parse_ks(t[1])?),
            ("bulk_del", 2) => Op::BulkDel(parse_ks(t[1])?),
            ("bulk_put", 2) => Op::BulkPut(parse_kvs(t[1])?),
            ("bulk_put_string", 2) => Op::BulkPutString(parse_kvs(t[1])?),
            ("put_from_iter", 2) => Op::PutFromIter(parse_kvs(t[1])?),
            ("get_string", 2) => Op::GetString(B::parse(t[1])?),
            ("is_dirty", 1) => Op::IsDirty,
            ("put_string", 3) => Op::PutString(B::parse(t[1])?, B::parse(t[2])?),
            ("del_string", 2) => Op::DelString(B::parse(t[1])?),
            ("bulk_get_string", 2) => Op::BulkGetString(parse_ks(t[1])?),
            ("bulk_del_string", 2) => Op::BulkDelString(parse_ks(t[1])?),
            ("reopen", 2) => Op::Reopen(Params::parse(t[1])?),
            ("cmp", 2) => Op::Cmp(t[1].parse().ok()?),
            ("map", 4) => Op::Map(t[1].parse().ok()?, Kt::parse(t[2])?, Params::parse(t[3])?),
            ("rehandle", 2) => Op::Rehandle(t[1].parse().ok()?),
            _ => return None,
        })
    }
    pub fn is_update(&self) -> bool {
        matches!(
            self,
            Op::Put(..) | Op::Del(..) | Op::BulkDel(..) | Op::BulkPut(..) | Op::BulkPutString(..) | Op::PutFromIter(..)
                | Op::PutString(..) | Op::DelString(..) | Op::BulkDelString(..)
        )
    }
    /// the byte-level call a `_string` variant stands for (itself otherwise), and whether it is one
    pub fn base(&self) -> (Op, bool) {
        match self {
            Op::GetString(k) => (Op::Get(k.clone()), true),
            Op::PutString(k, v) => (Op::Put(k.clone(), v.clone()), true),
            Op::DelString(k) => (Op::Del(k.clone()), true),
            Op::BulkGetString(ks) => (Op::BulkGet(ks.clone()), true),
            Op::BulkDelString(ks) => (Op::BulkDel(ks.clone()), true),
            o => (o.clone(), false),
        }
    }
    pub fn kind(&self) -> &'static str {
        match self {
            Op::Put(..) => "put",
            Op::Get(..) => "get",
            Op::Del(..) => "del",
            Op::Inc(..) => "inc",
            Op::Len => "len",
            Op::Empty => "empty",
            Op::Iter(..) => "iter",
            Op::Stats => "stats",
            Op::Flush => "flush",
            Op::SyncAll => "sync_all",
            Op::SyncData => "sync_data",
            Op::DbSyncAll => "db_sync_all",
            Op::DbSyncData => "db_sync_data",
            Op::ReadFill => "read_fill",
            Op::BulkGet(..) => "bulk_get",
            Op::BulkDel(..) => "bulk_del",
            Op::BulkPut(..) => "bulk_put",
            Op::BulkPutString(..) => "bulk_put_string",
            Op::PutFromIter(..) => "put_from_iter",
            Op::GetString(..) => "get_string",
            Op::IsDirty => "is_dirty",
            Op::PutString(..) => "put_string",
            Op::DelString(..) => "del_string",
            Op::BulkGetString(..) => "bulk_get_string",
            Op::BulkDelString(..) => "bulk_del_string",
            Op::Reopen(..) => "reopen",
            Op::Cmp(..) => "cmp",
            Op::Map(..) => "map",
            Op::Rehandle(..) => "rehandle",
        }
    }
}

/// a whole test case: first map's key type and parameters, then the operations.
#[derive(Clone, Debug)]
pub struct Seq {
    pub kt: Kt,
    pub params: Params,
    pub ops: Vec<Op>,
}
impl Seq {
    pub fn text(&self) -> String {
        let mut s = format!("open {} {}\n", self.kt.name(), self.params.tok());
        for o in &self.ops {
            s.push_str(&o.text());
            s.push('\n');
        }
        s
    }
    pub fn parse(txt: &str) -> Option<Seq> {
        let mut lines = txt.lines().filter(|l| !l.trim().is_empty() && !l.starts_with('#'));
        let first: Vec<&str> = lines.next()?.split_whitespace().collect();
        if first.len() != 3 || first[0] != "open" {
            return None;
        }
        let kt = Kt::parse(first[1])?;
        let params = Params::parse(first[2])?;
        let ops: Option<Vec<Op>> = lines.map(Op::parse).collect();
        Some(Seq { kt, params, ops: ops? })
    }
}
