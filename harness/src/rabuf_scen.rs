//! Differential test of the Lean model `Abyss.RaBuf` (driver commands `rb …`) against the real
//! `rabuf::BufFile` (rabuf 0.1.20, features buf_auto_buf_size, buf_overf_rem_all, buf_pin_zero,
//! buf_hash_turbo).
//!
//! Every sequence runs the real buffer in a child process (`abyss-harness rabuf-child --file F`),
//! because `max_num_chunks <= 1` with the offset-0 chunk resident recurses forever (stack overflow
//! abort in the dev profile, busy spin with tail-call elimination): the child then dies or does
//! not answer in time, which must coincide with the model's `err hang`.
//! The operations are generated on-line from the model's view (`rb sum`: pos, end, …) so that the
//! generator can stay inside — or deliberately leave — the domain where `pos <= end`.
//!
//! Operation text (replay files and the child protocol use the same lines):
//!   file <bytes>                  initial content of the scratch file (replay files only)
//!   open cap <cs> <max> | open pm <cs> <permille>
//!   reopen cap … | reopen pm …    drop the buffer, open the same file again
//!   seek <n> | seekend <x> | seekcur <±d> | setlen <n>
//!   read <n> | readexact <n> | readu8 | readu16 | readu32 | readu64 | readsmall <n> | readmaybe <n> | readmax8 <n>
//!   write <bytes> | writeall <bytes> | writeu8 <x..> | writeu16 <x..> | writeu32 <x..> | writeu64 <x..>
//!   writesmall <bytes> | writezero <n> | writeu64s <bytes, 8k long>
//!   flush | sync | syncdata | fill | clear | prepare <off> | drop
//!   fflush <L> | fclear <L> | freopen <L> cap|pm <a> <b>   the same under RLIMIT_FSIZE = L (fault injection)
//! <bytes> = `-` | `x<hex>` | `z<n>` | `p<len>:<seed>`.
use crate::driver::Driver;
use crate::json::{arr, esc, map_u64, obj};
use crate::rng::Rng;
use crate::scen::{sizes, Ctx, Failure};
use rabuf::{BufFile, FileSetLen, FileSync, SmallRead, SmallWrite};
use std::collections::{BTreeMap, BTreeSet};
use std::io::{BufRead, BufReader, Read, Seek, SeekFrom, Write};
use std::panic::{catch_unwind, AssertUnwindSafe};
use std::path::{Path, PathBuf};
use std::process::{Child, ChildStdin, Command, Stdio};
use std::sync::mpsc::{channel, Receiver, RecvTimeoutError};
use std::sync::Mutex;
use std::time::Duration;

fn fnv(s: &str) -> u64 {
    let mut h: u64 = 0xcbf29ce484222325;
    for b in s.bytes() {
        h ^= b as u64;
        h = h.wrapping_mul(0x100000001b3);
    }
    h
}

fn hex(b: &[u8]) -> String {
    let mut s = String::with_capacity(b.len() * 2);
    for x in b {
        s.push_str(&format!("{:02x}", x));
    }
    s
}

fn unhex(s: &str) -> Option<Vec<u8>> {
    if s.len() % 2 != 0 {
        return None;
    }
    (0..s.len() / 2).map(|i| u8::from_str_radix(&s[2 * i..2 * i + 2], 16).ok()).collect()
}

/// the pattern shared with the Lean driver: byte i = (seed*31 + i*7 + i/256) % 251
fn pat_bytes(len: usize, seed: u64) -> Vec<u8> {
    (0..len as u64).map(|i| ((seed * 31 + i * 7 + i / 256) % 251) as u8).collect()
}

fn parse_bytes(tok: &str) -> Option<Vec<u8>> {
    if tok == "-" {
        return Some(Vec::new());
    }
    let (h, rest) = tok.split_at(1);
    match h {
        "x" => unhex(rest),
        "z" => rest.parse::<usize>().ok().map(|n| vec![0u8; n]),
        "p" => {
            let (l, s) = rest.split_once(':')?;
            Some(pat_bytes(l.parse().ok()?, s.parse().ok()?))
        }
        _ => None,
    }
}

/// the checksum of the Lean driver (`checksum` in Main.lean)
fn checksum(b: &[u8]) -> u64 {
    b.iter().fold(7u64, |h, x| (h * 131 + *x as u64 + 1) % 4294967291)
}

fn ok_hex(b: &[u8]) -> String {
    format!("ok {}", hex(b)).trim_end().to_string()
}

// ---------------------------------------------------------------------------------------------
// the child process: the real rabuf
// ---------------------------------------------------------------------------------------------

fn open_real(path: &Path, t: &[&str]) -> Result<BufFile, String> {
    let f = std::fs::OpenOptions::new().read(true).write(true).create(true).open(path).map_err(|e| format!("err open {:?}", e.kind()))?;
    let a: u64 = t.get(1).and_then(|s| s.parse().ok()).ok_or("bad-op")?;
    let b: u64 = t.get(2).and_then(|s| s.parse().ok()).ok_or("bad-op")?;
    let r = match t.first().copied() {
        Some("cap") => BufFile::with_capacity("rb", f, a as u32, b as u16),
        Some("pm") => BufFile::with_per_mille("rb", f, a as u32, b as u16),
        _ => return Err("bad-op".into()),
    };
    r.map_err(|_| "err io".to_string())
}

fn unit(r: std::io::Result<()>) -> String {
    match r {
        Ok(()) => "ok".into(),
        Err(_) => "err io".into(),
    }
}

fn exec_real(b: &mut BufFile, t: &[&str]) -> String {
    let num = |i: usize| -> Option<u64> { t.get(i).and_then(|s| s.parse::<u64>().ok()) };
    let bytes = |i: usize| -> Option<Vec<u8>> { t.get(i).and_then(|s| parse_bytes(s)) };
    let pos = |r: std::io::Result<u64>| match r {
        Ok(p) => format!("ok {}", p),
        Err(_) => "err io".into(),
    };
    macro_rules! need {
        ($e:expr) => {
            match $e {
                Some(x) => x,
                None => return "bad-op".into(),
            }
        };
    }
    match t[0] {
        "seek" => pos(b.seek(SeekFrom::Start(need!(num(1))))),
        "seekend" => pos(b.seek(SeekFrom::End(need!(t.get(1).and_then(|s| s.parse::<i64>().ok()))))),
        "seekcur" => pos(b.seek(SeekFrom::Current(need!(t.get(1).and_then(|s| s.trim_start_matches('+').parse::<i64>().ok()))))),
        "setlen" => unit(b.set_len(need!(num(1)))),
        "read" => {
            let mut v = vec![0u8; need!(num(1)) as usize];
            match b.read(&mut v) {
                Ok(m) => ok_hex(&v[..m]),
                Err(_) => "err io".into(),
            }
        }
        "readexact" => {
            let mut v = vec![0u8; need!(num(1)) as usize];
            match b.read_exact(&mut v) {
                Ok(()) => ok_hex(&v),
                Err(_) => "err io".into(),
            }
        }
        "readsmall" => {
            let mut v = vec![0u8; need!(num(1)) as usize];
            match b.read_exact_small(&mut v) {
                Ok(()) => ok_hex(&v),
                Err(_) => "err io".into(),
            }
        }
        "readmaybe" => match b.read_exact_maybeslice(need!(num(1)) as usize) {
            Ok(m) => ok_hex(&m),
            Err(_) => "err io".into(),
        },
        "readmax8" => {
            let n = need!(num(1)) as usize;
            match b.read_max_8_bytes(n) {
                Ok(v) => ok_hex(&v.to_le_bytes()[..n.min(8)]),
                Err(_) => "err io".into(),
            }
        }
        "readu8" => match b.read_u8() {
            Ok(v) => ok_hex(&[v]),
            Err(_) => "err io".into(),
        },
        "readu16" => match b.read_u16_le() {
            Ok(v) => ok_hex(&v.to_le_bytes()),
            Err(_) => "err io".into(),
        },
        "readu32" => match b.read_u32_le() {
            Ok(v) => ok_hex(&v.to_le_bytes()),
            Err(_) => "err io".into(),
        },
        "readu64" => match b.read_u64_le() {
            Ok(v) => ok_hex(&v.to_le_bytes()),
            Err(_) => "err io".into(),
        },
        "write" => match b.write(&need!(bytes(1))) {
            Ok(n) => format!("ok {}", n),
            Err(_) => "err io".into(),
        },
        "writeall" => unit(b.write_all(&need!(bytes(1)))),
        "writesmall" => unit(b.write_all_small(&need!(bytes(1)))),
        "writezero" => unit(b.write_zero(need!(num(1)) as u32)),
        "writeu8" => {
            let v = need!(bytes(1));
            unit(b.write_u8(need!(v.first().copied())))
        }
        "writeu16" => {
            let v = need!(bytes(1));
            unit(b.write_u16_le(u16::from_le_bytes(need!(v.as_slice().try_into().ok()))))
        }
        "writeu32" => {
            let v = need!(bytes(1));
            unit(b.write_u32_le(u32::from_le_bytes(need!(v.as_slice().try_into().ok()))))
        }
        "writeu64" => {
            let v = need!(bytes(1));
            unit(b.write_u64_le(u64::from_le_bytes(need!(v.as_slice().try_into().ok()))))
        }
        "writeu64s" => {
            let v = need!(bytes(1));
            let w: Vec<u64> = v.chunks_exact(8).map(|c| u64::from_le_bytes(c.try_into().unwrap())).collect();
            // half of the time through the two-slice variant
            if w.len() >= 2 && w[0] % 2 == 0 {
                let (x, y) = w.split_at(w.len() / 2);
                unit(b.write_u64_le_slice2(x, y))
            } else {
                unit(b.write_u64_le_slice(&w))
            }
        }
        "flush" => unit(b.flush()),
        "sync" => unit(b.sync_all()),
        "syncdata" => unit(b.sync_data()),
        "fill" => unit(b.read_fill_buffer()),
        "clear" => unit(b.clear()),
        "prepare" => unit(b.prepare(need!(num(1)))),
        _ => "bad-op".into(),
    }
}

/// `abyss-harness rabuf-child --file F`: one line in, one line out
pub fn child_main(path: &Path) -> i32 {
    crate::exec::die_with_parent();
    let stdin = std::io::stdin();
    let mut out = std::io::stdout();
    let mut buf: Option<BufFile> = None;
    for line in stdin.lock().lines() {
        let Ok(line) = line else { break };
        let t: Vec<&str> = line.split_whitespace().collect();
        if t.is_empty() {
            continue;
        }
        let ans: String = match t[0] {
            "quit" => {
                std::mem::forget(buf.take());
                return 0;
            }
            "open" | "reopen" => {
                let old = buf.take();
                let _ = catch_unwind(AssertUnwindSafe(move || drop(old)));
                match open_real(path, &t[1..]) {
                    Ok(b) => {
                        buf = Some(b);
                        "ok".into()
                    }
                    Err(e) => e,
                }
            }
            "drop" => {
                let old = buf.take();
                match catch_unwind(AssertUnwindSafe(move || drop(old))) {
                    Ok(()) => "ok".into(),
                    Err(_) => "err panic".into(),
                }
            }
            "limit" => {
                let n: u64 = t.get(1).and_then(|s| s.parse().ok()).unwrap_or(u64::MAX);
                if crate::exec::set_fsize_limit(n) { "ok".into() } else { "err rlimit".into() }
            }
            "unlimit" => {
                if crate::exec::set_fsize_limit(u64::MAX) { "ok".into() } else { "err rlimit".into() }
            }
            _ => match buf.as_mut() {
                None => "err nobuf".into(),
                Some(b) => match catch_unwind(AssertUnwindSafe(|| exec_real(b, &t))) {
                    Ok(s) => s,
                    Err(_) => "err panic".into(),
                },
            },
        };
        if writeln!(out, "{}", ans).is_err() || out.flush().is_err() {
            break;
        }
    }
    std::mem::forget(buf.take());
    0
}

// ---------------------------------------------------------------------------------------------
// the parent side of the child
// ---------------------------------------------------------------------------------------------

struct Real {
    child: Child,
    stdin: ChildStdin,
    rx: Receiver<String>,
}

enum Ans {
    Line(String),
    Timeout,
    Dead,
}

impl Real {
    fn spawn(ctx: &Ctx, file: &Path) -> std::io::Result<Real> {
        let exe = std::env::var("ABYSS_HARNESS_BIN").map(PathBuf::from).or_else(|_| std::env::current_exe())?;
        let mut child = Command::new(exe)
            .arg("rabuf-child")
            .arg("--file")
            .arg(file)
            .arg("--scratch")
            .arg(&ctx.scratch)
            .arg("--replays")
            .arg(&ctx.replays)
            .stdin(Stdio::piped())
            .stdout(Stdio::piped())
            .stderr(Stdio::null())
            .spawn()?;
        let stdin = child.stdin.take().unwrap();
        let stdout = child.stdout.take().unwrap();
        let (tx, rx) = channel();
        std::thread::spawn(move || {
            let mut r = BufReader::new(stdout);
            loop {
                let mut l = String::new();
                match r.read_line(&mut l) {
                    Ok(0) | Err(_) => break,
                    Ok(_) => {
                        if tx.send(l.trim_end().to_string()).is_err() {
                            break;
                        }
                    }
                }
            }
        });
        Ok(Real { child, stdin, rx })
    }
    fn ask(&mut self, line: &str, timeout_ms: u64) -> Ans {
        if writeln!(self.stdin, "{}", line).is_err() || self.stdin.flush().is_err() {
            return Ans::Dead;
        }
        match self.rx.recv_timeout(Duration::from_millis(timeout_ms)) {
            Ok(l) => Ans::Line(l),
            Err(RecvTimeoutError::Timeout) => Ans::Timeout,
            Err(RecvTimeoutError::Disconnected) => Ans::Dead,
        }
    }
    /// killed by a signal (stack overflow => SIGABRT/SIGSEGV) counts as "does not return"; a normal exit does not
    fn how_it_ended(st: std::process::ExitStatus, stats: &mut SeqStats) -> String {
        use std::os::unix::process::ExitStatusExt;
        match st.signal() {
            Some(sig) => {
                stats.hang_abort += 1;
                format!("no-return(signal {})", sig)
            }
            None => format!("child-exited({:?})", st.code()),
        }
    }
    fn kill(&mut self) {
        let _ = self.child.kill();
        let _ = self.child.wait();
    }
}
impl Drop for Real {
    fn drop(&mut self) {
        self.kill();
    }
}

// ---------------------------------------------------------------------------------------------
// operations: text -> model command
// ---------------------------------------------------------------------------------------------

/// the `rb …` command that models one operation line (None for the fault-injecting ones, which the
/// runner expands itself)
fn model_cmd(text: &str) -> Option<String> {
    let t: Vec<&str> = text.split_whitespace().collect();
    let a = |i: usize| t.get(i).copied().unwrap_or("");
    Some(match t[0] {
        "open" => match a(1) {
            "cap" => format!("rb cap {} {} @FILE", a(2), a(3)),
            _ => format!("rb pm {} {} @FILE", a(2), a(3)),
        },
        "reopen" => format!("rb reopen {} {} {}", a(1), a(2), a(3)),
        "seek" | "seekend" | "seekcur" | "setlen" | "read" | "readexact" | "readsmall" | "write" | "writeall" | "writesmall" | "prepare" => format!("rb {} {}", t[0], a(1)),
        "readmaybe" | "readmax8" => format!("rb readsmall {}", a(1)),
        "readu8" => "rb readsmall 1".into(),
        "readu16" => "rb readsmall 2".into(),
        "readu32" => "rb readsmall 4".into(),
        "readu64" => "rb readsmall 8".into(),
        "writeu8" | "writeu16" | "writeu32" | "writeu64" | "writeu64s" => format!("rb writesmall {}", a(1)),
        "writezero" => format!("rb writesmall z{}", a(1)),
        "flush" | "sync" | "syncdata" => "rb flush".into(),
        "fill" => "rb fill".into(),
        "clear" => "rb clear".into(),
        "drop" => "rb drop".into(),
        _ => return None,
    })
}

#[derive(Clone, Default, Debug)]
struct View {
    pos: u64,
    end: u64,
    max: u64,
    k: u64,
    ev: u64,
    nchunks: u64,
    ndirty: u64,
    has0: bool,
    dlen: u64,
    dsum: u64,
}

fn parse_view(s: &str) -> Option<View> {
    let mut m = BTreeMap::new();
    for kv in s.split_whitespace() {
        let (k, v) = kv.split_once('=')?;
        m.insert(k.to_string(), v.parse::<u64>().ok()?);
    }
    Some(View {
        pos: *m.get("pos")?,
        end: *m.get("end")?,
        max: *m.get("max")?,
        k: *m.get("k")?,
        ev: *m.get("ev")?,
        nchunks: *m.get("nchunks")?,
        ndirty: *m.get("ndirty")?,
        has0: *m.get("has0")? == 1,
        dlen: *m.get("dlen")?,
        dsum: *m.get("dsum")?,
    })
}

/// which write attempt of a flush fails under RLIMIT_FSIZE = limit, from the model's `rb state`:
/// (index among the attempts of that flush, bytes of the refused write that get through)
fn predict_fault(state: &str, cs: u64, limit: u64) -> Option<(u64, u64)> {
    let mut end = 0u64;
    let mut chunks: Vec<(u64, bool)> = Vec::new();
    for kv in state.split_whitespace() {
        if let Some((k, v)) = kv.split_once('=') {
            match k {
                "end" => end = v.parse().unwrap_or(0),
                "chunks" => {
                    for c in v.split(',').filter(|c| !c.is_empty()) {
                        if let Some((o, d)) = c.split_once(':') {
                            chunks.push((o.parse().unwrap_or(0), d == "1"));
                        }
                    }
                }
                _ => {}
            }
        }
    }
    chunks.sort();
    let mut j = 0u64;
    for (off, dirty) in chunks {
        if !dirty || off > end {
            continue;
        }
        let n = cs.min(end - off);
        if n == 0 {
            continue;
        }
        if off + n > limit {
            return Some((j, limit.saturating_sub(off)));
        }
        j += 1;
    }
    None
}

// ---------------------------------------------------------------------------------------------
// the generator
// ---------------------------------------------------------------------------------------------

#[derive(Clone, Copy, PartialEq, Debug)]
enum Stream {
    Normal, // pos <= end throughout, no shrinking
    Shrink, // + set_len downwards and re-extension
    Odd,    // + reads past the end, prepare beyond the end
}

#[derive(Clone, Debug)]
struct Cfg {
    stream: Stream,
    cs: u64,
    limit: u64, // keep `end` below this
    faults: bool,
}

fn gen_bytes(r: &mut Rng, len: u64) -> String {
    if len == 0 {
        return "-".into();
    }
    if len <= 24 || (len <= 96 && r.chance(1, 2)) {
        let v: Vec<u8> = (0..len).map(|_| r.below(256) as u8).collect();
        format!("x{}", hex(&v))
    } else if r.chance(1, 12) {
        format!("z{}", len)
    } else {
        format!("p{}:{}", len, r.below(1000))
    }
}

fn gen_len(r: &mut Rng, cs: u64) -> u64 {
    match r.below(10) {
        0 => 0,
        1 | 2 | 3 => r.range(1, 9),
        4 | 5 => r.range(1, cs),
        6 => cs,
        7 => r.range(cs, 2 * cs + 3),
        8 => r.range(1, 3 * cs),
        _ => r.range(1, cs / 2 + 1),
    }
}

fn gen_ctor(r: &mut Rng, cs: u64) -> String {
    if r.chance(13, 20) {
        format!("cap {} {}", cs, r.pick(&[1u64, 2, 2, 3, 3, 4, 8]))
    } else {
        format!("pm {} {}", cs, r.pick(&[0u64, 1, 500, 1000, 2000]))
    }
}

/// a position to seek to
fn gen_target(r: &mut Rng, c: &Cfg, v: &View) -> u64 {
    let cs = c.cs;
    let t = match r.below(10) {
        0 => 0,
        1 => v.end,
        2 | 3 => {
            // around a chunk boundary
            let b = r.below(v.end / cs + 2) * cs;
            (b + r.below(3)).saturating_sub(1)
        }
        4 => v.end + r.range(1, 2 * cs + 1), // beyond the end: extends the file at once
        _ => r.below(v.end + 1),
    };
    t.min(c.limit)
}

fn gen_op(r: &mut Rng, c: &Cfg, v: &View) -> String {
    let cs = c.cs;
    let odd = c.stream == Stream::Odd;
    let avail = v.end.saturating_sub(v.pos); // bytes that can be read without passing the end
    let room = c.limit.saturating_sub(v.pos.max(v.end)); // bytes that can be appended
    loop {
        let w = r.below(100);
        let op = match w {
            0..=11 => format!("seek {}", gen_target(r, c, v)),
            12..=14 => {
                if r.chance(3, 4) {
                    "seekend 0".to_string()
                } else {
                    let x = r.below(v.end + 1) as i64;
                    format!("seekend {}", if r.chance(1, 2) { x } else { -x })
                }
            }
            15..=19 => {
                let t = gen_target(r, c, v) as i64;
                let d = if r.chance(1, 8) { 0 } else { t - v.pos as i64 };
                if v.pos as i64 + d > c.limit as i64 {
                    continue;
                }
                format!("seekcur {}{}", if d >= 0 { "+" } else { "" }, d)
            }
            20..=23 => {
                let grow = c.stream == Stream::Normal || r.chance(1, 2);
                let n = if grow { (v.end + r.range(0, 3 * cs)).min(c.limit) } else { r.below(v.end + 1) };
                format!("setlen {}", n)
            }
            24..=33 => {
                let n = gen_len(r, cs);
                let n = if odd && r.chance(1, 2) { n } else { n.min(avail) };
                format!("read {}", n)
            }
            34..=41 => {
                let n = gen_len(r, cs);
                let n = if odd && r.chance(1, 3) { n } else { n.min(avail) };
                format!("readexact {}", n)
            }
            42..=49 => {
                let (name, n) = *r.pick(&[("readu8", 1u64), ("readu16", 2), ("readu32", 4), ("readu64", 8)]);
                if n > avail && !(odd && r.chance(1, 3)) {
                    continue;
                }
                name.to_string()
            }
            50..=54 => {
                let n = gen_len(r, cs).min(cs); // read_exact_small debug_asserts len <= chunk size
                let n = if odd && r.chance(1, 3) { n } else { n.min(avail) };
                match r.below(3) {
                    0 => format!("readsmall {}", n),
                    1 => format!("readmaybe {}", n),
                    _ => format!("readmax8 {}", n.min(8)),
                }
            }
            55..=62 => {
                let n = gen_len(r, cs).min(room);
                format!("write {}", gen_bytes(r, n))
            }
            63..=70 => {
                let n = gen_len(r, cs).min(room);
                format!("writeall {}", gen_bytes(r, n))
            }
            71..=76 => {
                let (name, n) = *r.pick(&[("writeu8", 1u64), ("writeu16", 2), ("writeu32", 4), ("writeu64", 8)]);
                if n > room {
                    continue;
                }
                let b: Vec<u8> = (0..n).map(|_| r.below(256) as u8).collect();
                format!("{} x{}", name, hex(&b))
            }
            77..=81 => match r.below(3) {
                0 => {
                    let n = gen_len(r, cs).min(cs).min(room); // write_all_small debug_asserts len <= chunk size
                    format!("writesmall {}", gen_bytes(r, n))
                }
                1 => format!("writezero {}", gen_len(r, cs).min(room)),
                _ => {
                    let n = (gen_len(r, cs).min(room).min(208) / 8) * 8; // random hex: keep the lines short
                    let b: Vec<u8> = (0..n).map(|_| r.below(256) as u8).collect();
                    format!("writeu64s {}", if n == 0 { "-".to_string() } else { format!("x{}", hex(&b)) })
                }
            },
            82..=85 => "flush".to_string(),
            86 => (*r.pick(&["sync", "syncdata"])).to_string(),
            87..=89 => "fill".to_string(),
            90..=91 => "clear".to_string(),
            92 => {
                let o = if odd && r.chance(1, 2) { r.below(c.limit + 1) } else { r.below(v.end + 1) };
                format!("prepare {}", o)
            }
            93..=94 => format!("reopen {}", gen_ctor(r, cs)),
            _ => {
                if !c.faults || v.ndirty == 0 {
                    continue;
                }
                let l = r.below(v.end + cs / 2 + 1);
                match r.below(4) {
                    0 | 1 => format!("fflush {}", l),
                    2 => format!("fclear {}", l),
                    _ => format!("freopen {} {}", l, gen_ctor(r, cs)),
                }
            }
        };
        return op;
    }
}

/// directed openings (the random generator continues after them): paths that random operations reach too rarely
fn template(r: &mut Rng, which: u64) -> (&'static str, String, String, Cfg, Vec<String>) {
    let b4 = |r: &mut Rng| format!("x{}", hex(&(0..4).map(|_| r.below(256) as u8).collect::<Vec<u8>>()));
    match which {
        0 => {
            // per-mille sizing, the file grows after the open: a full cache first re-derives its capacity
            let cs = 4096u64;
            let ctor = format!("pm {} {}", cs, r.pick(&[1000u64, 2000]));
            let init = if r.chance(1, 2) { "-".to_string() } else { format!("p{}:{}", r.range(1, 2 * cs), r.below(1000)) };
            let n = r.range(10, 13) * cs + r.below(cs);
            let ops = vec![format!("setlen {}", n), "fill".into(), format!("seek {}", cs + r.below(cs - 8)), format!("write {}", b4(r)), format!("prepare {}", r.range(9, n / cs) * cs + r.below(90)), format!("seek {}", 2 * cs + r.below(cs)), format!("writeall {}", b4(r)), format!("prepare {}", r.range(9, n / cs) * cs)];
            ("auto_grow", init, ctor, Cfg { stream: Stream::Normal, cs, limit: 16 * cs, faults: false }, ops)
        }
        1 => {
            // (end / 1000) * 500 = 36500 -> 9 chunks, whereas end * 500 / 1000 >= 36864 would give 10
            let cs = 4096u64;
            let len = r.range(73_728, 73_999);
            let ops = vec!["fill".into(), format!("seek {}", cs + r.below(cs - 8)), format!("write {}", b4(r)), format!("seek {}", 36_864 + r.below(cs - 8)), "read 1".into(), format!("seek {}", 5 * cs + r.below(cs - 8)), format!("write {}", b4(r)), format!("prepare {}", r.range(10, 17) * cs)];
            ("auto_boundary", format!("p{}:{}", len, r.below(1000)), "pm 4096 500".to_string(), Cfg { stream: Stream::Normal, cs, limit: 20 * cs, faults: false }, ops)
        }
        2 => {
            // the capacity derived from `end` shrinks with the file (only applied after an eviction)
            let cs = 4096u64;
            let len = r.range(88_000, 92_000); // (len/1000)*500/4096+1 = 11
            let mut ops: Vec<String> = (11..22).map(|j| format!("prepare {}", j * cs + r.below(50))).collect();
            ops.push(format!("setlen {}", r.range(38_000, 40_900)));
            ops.push(format!("seek {}", cs + r.below(cs - 8)));
            ops.push(format!("write {}", b4(r)));
            for j in 2..10 {
                ops.push(format!("prepare {}", j * cs + r.below(50)));
            }
            ops.push(format!("seek {}", 2 * cs + r.below(cs - 8)));
            ops.push(format!("write {}", b4(r)));
            ops.push("prepare 0".into());
            ("auto_shrink", format!("p{}:{}", len, r.below(1000)), "pm 4096 500".to_string(), Cfg { stream: Stream::Shrink, cs, limit: 23 * cs, faults: false }, ops)
        }
        3 => {
            // a dirty chunk wholly beyond a shrunk end: skipped by flush, still dirty, written after a re-extension
            let cs = *r.pick(&[16u64, 32, 64]);
            let ctor = format!("cap {} {}", cs, r.pick(&[3u64, 4, 8]));
            let init = if r.chance(1, 2) { "-".to_string() } else { format!("p{}:{}", r.range(1, 3 * cs), r.below(1000)) };
            let x = r.range(2, 5) * cs + r.below(cs - 4);
            let small = r.below(x / cs * cs);
            let again = x + r.range(0, 2 * cs);
            let mut ops = vec![format!("seek {}", x), format!("write {}", b4(r)), format!("setlen {}", small), "flush".into()];
            ops.push(if r.chance(1, 2) { format!("setlen {}", again) } else { format!("seek {}", again) });
            ops.push("flush".into());
            ("stale_dirty", init, ctor, Cfg { stream: Stream::Shrink, cs, limit: 14 * cs, faults: true }, ops)
        }
        4 => {
            // several dirty chunks loaded in descending order, then a flush under a file size limit
            let cs = *r.pick(&[16u64, 32, 64]);
            let ctor = format!("cap {} 8", cs);
            let k = r.range(3, 6);
            let init = if r.chance(1, 2) { "-".to_string() } else { format!("p{}:{}", r.range(1, k * cs), r.below(1000)) };
            let mut ops = Vec::new();
            for j in (0..k).rev() {
                ops.push(format!("seek {}", j * cs + r.below(cs - 4)));
                ops.push(format!("write {}", b4(r)));
            }
            ops.push(format!("{} {}", r.pick(&["fflush", "fclear", "fflush"]), r.below(k * cs)));
            ops.push("flush".into());
            ("fault_order", init, ctor, Cfg { stream: Stream::Normal, cs, limit: 14 * cs, faults: true }, ops)
        }
        5 => {
            // a write of nothing makes a clean chunk dirty: visible when the chunk holds stale bytes (shrink, re-extend)
            let cs = *r.pick(&[16u64, 32, 64]);
            let ctor = format!("cap {} {}", cs, r.pick(&[2u64, 3, 4, 8]));
            let c = r.range(0, 3) * cs;
            let len = r.range(6, cs);
            let cut = c + r.range(1, len - 2);
            let mut ops = vec![format!("seek {}", c), format!("writeall p{}:{}", len, r.below(1000)), "flush".into(), format!("setlen {}", cut), format!("setlen {}", c + len + r.below(cs)), format!("seek {}", c + r.below(cs))];
            ops.push((*r.pick(&["writesmall -", "writezero 0", "write -", "writeu64s -"])).to_string());
            ops.push("flush".into());
            ("empty_write_dirties", "-".to_string(), ctor, Cfg { stream: Stream::Shrink, cs, limit: 14 * cs, faults: false }, ops)
        }
        _ => {
            // abyssiniandb's chunk size with per-mille sizing below 1000: one chunk of capacity for a file of two chunks
            let cs = 131_072u64;
            let pm = *r.pick(&[0u64, 1, 500]);
            let len = r.range(140_000, 260_000);
            let mut ops = vec![format!("seek {}", cs + r.below(1000)), "readu32".into()];
            if r.chance(1, 2) {
                ops.push(format!("write {}", b4(r)));
            }
            ops.push(format!("seek {}", r.below(64)));
            ops.push("readu64".into());
            ops.push(format!("seek {}", cs + r.below(len - cs - 8)));
            ops.push("readu8".into());
            ("repo_chunk_size_hang", format!("p{}:{}", len, r.below(1000)), format!("pm {} {}", cs, pm), Cfg { stream: Stream::Normal, cs, limit: 2 * cs, faults: false }, ops)
        }
    }
}

// ---------------------------------------------------------------------------------------------
// running one sequence
// ---------------------------------------------------------------------------------------------

#[derive(Default)]
struct SeqStats {
    ops: BTreeMap<String, u64>,
    n_ops: u64,
    evicted: bool,
    hang: bool,
    hang_spin: u64,
    hang_abort: u64,
    past_end: bool,
    shrank: bool,
    io_errors: u64,
    panics: u64,
    faults_injected: u64,
    faults_hit: u64,
    logical_checks: u64,
    max_end: u64,
}

struct Diff {
    idx: usize,
    op: String,
    what: String,
    got: String,
    want: String,
}

struct SeqResult {
    lines: Vec<String>, // `file …`, `open …`, ops
    diff: Option<Diff>,
    st: SeqStats,
}

enum Source<'a> {
    Gen { rng: &'a mut Rng, cfg: Cfg, n: usize, prefix: std::collections::VecDeque<String> },
    Fixed(Vec<String>),
}

const T_NORMAL_MS: u64 = 20_000;

fn hang_timeout_ms() -> u64 {
    std::env::var("ABYSS_RABUF_HANG_MS").ok().and_then(|s| s.parse().ok()).unwrap_or(1000)
}

fn first_disk_diff(model_state: &str, real: &[u8]) -> String {
    let mh = model_state.split_whitespace().find_map(|kv| kv.strip_prefix("disk=")).unwrap_or("");
    let m = unhex(mh).unwrap_or_default();
    let n = m.len().min(real.len());
    for i in 0..n {
        if m[i] != real[i] {
            return format!("first differing byte at {}: impl {:#04x}, model {:#04x}; lengths impl {} model {}", i, real[i], m[i], real.len(), m.len());
        }
    }
    format!("lengths differ: impl {} model {}", real.len(), m.len())
}

/// runs one sequence against the child and the model, comparing after every operation
fn run_seq(ctx: &Ctx, d: &mut Driver, file: &Path, init: &str, ctor: &str, mut src: Source) -> SeqResult {
    let mut res = SeqResult { lines: vec![format!("file {}", init), format!("open {}", ctor)], diff: None, st: SeqStats::default() };
    let content = parse_bytes(init).unwrap_or_default();
    let _ = std::fs::write(file, &content);
    let mut cs: u64 = ctor.split_whitespace().nth(1).and_then(|s| s.parse().ok()).unwrap_or(16);
    let Ok(mut real) = Real::spawn(ctx, file) else {
        res.diff = Some(Diff { idx: 0, op: "spawn".into(), what: "cannot start the child".into(), got: String::new(), want: String::new() });
        return res;
    };
    // constructor
    let want = d.ask(&model_cmd(&format!("open {}", ctor)).unwrap().replace("@FILE", init));
    let got = match real.ask(&format!("open {}", ctor), T_NORMAL_MS) {
        Ans::Line(l) => l,
        _ => "child-dead".into(),
    };
    if got != "ok" || !want.starts_with("ok") {
        res.diff = Some(Diff { idx: 0, op: format!("open {}", ctor), what: "constructor".into(), got, want });
        return res;
    }
    let mut view = parse_view(&d.ask("rb sum")).unwrap_or_default();
    let mut idx = 0usize;
    loop {
        // next operation
        let text = match &mut src {
            Source::Gen { rng, cfg, n, prefix } => {
                if idx >= *n {
                    break;
                }
                cfg.cs = cs;
                if let Some(op) = prefix.pop_front() {
                    op
                } else if idx + 1 == *n {
                    "drop".to_string()
                } else {
                    gen_op(rng, cfg, &view)
                }
            }
            Source::Fixed(v) => {
                if idx >= v.len() {
                    break;
                }
                v[idx].clone()
            }
        };
        idx += 1;
        res.lines.push(text.clone());
        let t: Vec<&str> = text.split_whitespace().collect();
        let kind = t[0].to_string();
        *res.st.ops.entry(kind.clone()).or_insert(0) += 1;
        res.st.n_ops += 1;
        // fault injection: `f<op> <L> …` = the op under RLIMIT_FSIZE = L
        let (plain, limit): (String, Option<u64>) = if kind == "fflush" || kind == "fclear" || kind == "freopen" {
            let l: u64 = t.get(1).and_then(|s| s.parse().ok()).unwrap_or(0);
            (format!("{} {}", &kind[1..], t[2..].join(" ")).trim_end().to_string(), Some(l))
        } else {
            (text.clone(), None)
        };
        if let Some(l) = limit {
            res.st.faults_injected += 1;
            let state = d.ask("rb state");
            match predict_fault(&state, cs, l) {
                Some((j, p)) => {
                    res.st.faults_hit += 1;
                    d.ask(&format!("rb faults {} {}", j, p));
                }
                None => {
                    d.ask("rb faults - 0");
                }
            }
            let _ = real.ask(&format!("limit {}", l), T_NORMAL_MS);
        }
        // the abstraction function: in a sequence that kept `pos <= end` and never shrank, the logical content
        // before the final drop is what the real file holds after it
        let logical_before = if kind == "drop" && !res.st.shrank && !res.st.past_end && res.st.io_errors == res.st.faults_hit && res.st.panics == 0 {
            Some(d.ask("rb logical"))
        } else {
            None
        };
        let Some(cmd) = model_cmd(&plain) else {
            res.diff = Some(Diff { idx, op: text, what: "unknown operation".into(), got: String::new(), want: String::new() });
            break;
        };
        let want = d.ask(&cmd);
        let hang = want == "err hang";
        let got = match real.ask(&plain, if hang { hang_timeout_ms() } else { T_NORMAL_MS }) {
            Ans::Line(l) => l,
            // no answer in time: still running = busy recursion (tail call turned into a jump)
            Ans::Timeout => match real.child.try_wait() {
                Ok(None) => {
                    res.st.hang_spin += 1;
                    "no-return(spinning)".into()
                }
                Ok(Some(st)) => Real::how_it_ended(st, &mut res.st),
                Err(_) => "child-lost".into(),
            },
            Ans::Dead => match real.child.wait() {
                Ok(st) => Real::how_it_ended(st, &mut res.st),
                Err(_) => "child-lost".into(),
            },
        };
        if limit.is_some() && !hang {
            let _ = real.ask("unlimit", T_NORMAL_MS);
            d.ask("rb faults - 0");
        }
        if got == "err panic" {
            res.st.panics += 1;
        }
        if want == "err io" {
            res.st.io_errors += 1;
        }
        let got_n = if got == "err panic" { "err io".to_string() } else { got.clone() };
        let agree = if hang {
            got.starts_with("no-return")
        } else if kind == "reopen" || kind == "freopen" {
            got_n == "ok" && want.starts_with("ok ")
        } else {
            got_n == want
        };
        if hang {
            res.st.hang = true;
            real.kill();
        }
        if !agree {
            res.diff = Some(Diff { idx, op: text, what: "result".into(), got, want });
            break;
        }
        // the file on disk
        let nv = parse_view(&d.ask("rb sum")).unwrap_or_default();
        let disk = std::fs::read(file).unwrap_or_default();
        if disk.len() as u64 != nv.dlen || checksum(&disk) != nv.dsum {
            let state = d.ask("rb state");
            res.diff = Some(Diff { idx, op: text, what: "disk".into(), got: first_disk_diff(&state, &disk), want: format!("dlen={} dsum={}", nv.dlen, nv.dsum) });
            break;
        }
        if let Some(l) = logical_before {
            res.st.logical_checks += 1;
            let lh = l.strip_prefix("ok").unwrap_or("?").trim();
            if unhex(lh).as_deref() != Some(&disk[..]) {
                res.diff = Some(Diff { idx, op: text, what: "logical".into(), got: format!("file after drop: {} bytes, checksum {}", disk.len(), checksum(&disk)), want: format!("St.logical before the drop: {} bytes, checksum {}", lh.len() / 2, checksum(&unhex(lh).unwrap_or_default())) });
                break;
            }
        }
        // bookkeeping for the report
        if kind == "reopen" || kind == "freopen" {
            cs = t.iter().rev().nth(1).and_then(|s| s.parse().ok()).unwrap_or(cs);
        }
        if nv.ev > view.ev && !matches!(kind.as_str(), "reopen" | "freopen") {
            res.st.evicted = true;
        }
        if kind == "setlen" && nv.end < view.end {
            res.st.shrank = true;
        }
        if nv.pos > nv.end {
            res.st.past_end = true;
        }
        res.st.max_end = res.st.max_end.max(nv.end);
        view = nv;
        if hang || kind == "drop" {
            break;
        }
    }
    let _ = real.ask("quit", 50);
    real.kill();
    res
}

fn replay_text(ctx: &Ctx, tag: &str, r: &SeqResult) -> String {
    let mut s = format!("# property={} facet=rabuf seed={} {}\n", ctx.prop, ctx.seed, tag);
    if let Some(d) = &r.diff {
        let short = |x: &str| if x.len() > 200 { format!("{}… ({} chars)", &x[..200], x.len()) } else { x.to_string() };
        s.push_str(&format!("# first difference at op#{} `{}` [{}]\n#   observed (rabuf): {}\n#   expected (model): {}\n", d.idx, short(&d.op), d.what, short(&d.got), short(&d.want)));
    }
    s.push_str("# re-run: abyss-harness rabuf --driver … --replay-file <this file>\n");
    for l in &r.lines {
        s.push_str(l);
        s.push('\n');
    }
    s
}

pub fn scen_rabuf(ctx: &Ctx) -> i32 {
    // --replay-file F: one fixed sequence
    if let Some(f) = ctx.args.get("replay-file") {
        let Ok(txt) = std::fs::read_to_string(f) else { return 2 };
        let lines: Vec<String> = txt.lines().map(|l| l.trim().to_string()).filter(|l| !l.is_empty() && !l.starts_with('#')).collect();
        let init = lines.iter().find_map(|l| l.strip_prefix("file ")).unwrap_or("-").to_string();
        let ctor = lines.iter().find_map(|l| l.strip_prefix("open ")).unwrap_or("cap 16 2").to_string();
        let ops: Vec<String> = lines.iter().filter(|l| !l.starts_with("file ") && !l.starts_with("open ")).cloned().collect();
        let Ok(mut d) = Driver::spawn(&ctx.driver) else { return 2 };
        let file = ctx.scratch.join("rabuf_replay.dat");
        let r = run_seq(ctx, &mut d, &file, &init, &ctor, Source::Fixed(ops));
        print!("{}", replay_text(ctx, "replayed", &r));
        println!("{}", if r.diff.is_some() { "DIFFERENT" } else { "SAME" });
        return if r.diff.is_some() { 1 } else { 0 };
    }
    let count = sizes(ctx, 320, 3200);
    let mut rng = Rng::new(ctx.seed ^ fnv("rabuf"));
    struct Job {
        i: usize,
        rng: Rng,
        init: String,
        ctor: String,
        cfg: Cfg,
        n: usize,
        prefix: Vec<String>,
        tag: &'static str,
    }
    let jobs: Vec<Job> = (0..count)
        .map(|i| {
            let mut r = rng.fork(i as u64);
            if r.chance(1, 5) {
                let which = r.below(9); // the last one is cheap and the most relevant: more often
                let (tag, init, ctor, cfg, prefix) = template(&mut r, which);
                let n = prefix.len() + r.range(4, 30) as usize;
                return Job { i, rng: r.fork(7), init, ctor, cfg, n, prefix, tag };
            }
            let stream = match r.below(20) {
                0..=11 => Stream::Normal,
                12..=14 => Stream::Shrink,
                _ => Stream::Odd,
            };
            let big_pm = r.chance(1, 40); // per-mille sizing with small chunks: the cache holds hundreds of chunks
            let cs = if big_pm { *r.pick(&[32u64, 64]) } else { *r.pick(&[16u64, 16, 32, 64, 64, 4096]) };
            let ctor = if big_pm { format!("pm {} {}", cs, r.pick(&[0u64, 1, 500])) } else { gen_ctor(&mut r, cs) };
            let init_len = if big_pm {
                r.range(33_000, 36_000)
            } else if r.chance(7, 20) {
                0
            } else {
                match r.below(4) {
                    0 => r.range(1, cs),
                    1 => r.range(1, 4) * cs,
                    _ => r.range(1, 12 * cs),
                }
            };
            let init = if init_len == 0 { "-".to_string() } else { format!("p{}:{}", init_len, r.below(1000)) };
            let limit = if big_pm { init_len + 8 * cs } else { 14 * cs };
            let n = if ctx.tier_thorough && r.chance(1, 10) { r.range(60, 160) } else { r.range(20, 60) } as usize;
            Job { i, rng: r.fork(7), init, ctor, cfg: Cfg { stream, cs, limit, faults: r.chance(1, 2) }, n, prefix: Vec::new(), tag: "random" }
        })
        .collect();
    let results: Mutex<Vec<(usize, SeqResult, Stream, &'static str)>> = Mutex::new(Vec::new());
    let next = Mutex::new(0usize);
    let jobs = Mutex::new(jobs.into_iter().map(Some).collect::<Vec<_>>());
    let nthreads = ctx.threads.min(count.max(1));
    std::thread::scope(|sc| {
        for t in 0..nthreads {
            let results = &results;
            let next = &next;
            let jobs = &jobs;
            sc.spawn(move || {
                let Ok(mut d) = Driver::spawn(&ctx.driver) else { return };
                loop {
                    let i = {
                        let mut g = next.lock().unwrap();
                        let i = *g;
                        *g += 1;
                        i
                    };
                    let job = {
                        let mut g = jobs.lock().unwrap();
                        if i >= g.len() {
                            break;
                        }
                        g[i].take().unwrap()
                    };
                    let Job { i, mut rng, init, ctor, cfg, n, prefix, tag } = job;
                    let file = ctx.scratch.join(format!("rabuf_{}_{}.dat", t, i));
                    let stream = cfg.stream;
                    let r = run_seq(ctx, &mut d, &file, &init, &ctor, Source::Gen { rng: &mut rng, cfg, n, prefix: prefix.into() });
                    let _ = std::fs::remove_file(&file);
                    results.lock().unwrap().push((i, r, stream, tag));
                }
            });
        }
    });
    let mut results = results.into_inner().unwrap();
    results.sort_by_key(|r| r.0);
    let mut ops_by_kind: BTreeMap<String, u64> = BTreeMap::new();
    let mut dist: BTreeMap<String, u64> = BTreeMap::new();
    let mut distinct: BTreeSet<u64> = BTreeSet::new();
    let mut failures: Vec<Failure> = Vec::new();
    let mut samples: Vec<String> = Vec::new();
    let mut n_ops = 0u64;
    let mut bump = |m: &mut BTreeMap<String, u64>, k: &str, n: u64| *m.entry(k.to_string()).or_insert(0) += n;
    for (i, r, stream, tag) in &results {
        bump(&mut dist, &format!("opening_{}", tag), 1);
        for (k, v) in &r.st.ops {
            bump(&mut ops_by_kind, k, *v);
        }
        n_ops += r.st.n_ops;
        distinct.insert(fnv(&r.lines.join("\n")));
        bump(&mut dist, &format!("stream_{:?}", stream).to_lowercase(), 1);
        bump(&mut dist, if r.lines[1].starts_with("open cap") { "ctor_with_capacity" } else { "ctor_with_per_mille" }, 1);
        bump(&mut dist, if r.lines[0] == "file -" { "start_empty" } else { "start_prefilled" }, 1);
        bump(&mut dist, "evicted", r.st.evicted as u64);
        bump(&mut dist, "hit_the_hang", r.st.hang as u64);
        bump(&mut dist, "hang_seen_as_busy_spin", r.st.hang_spin);
        bump(&mut dist, "hang_seen_as_fatal_signal", r.st.hang_abort);
        bump(&mut dist, "read_past_end", r.st.past_end as u64);
        bump(&mut dist, "shrank", r.st.shrank as u64);
        bump(&mut dist, "with_io_error", (r.st.io_errors > 0) as u64);
        bump(&mut dist, "io_errors", r.st.io_errors);
        bump(&mut dist, "impl_panics(u64 underflow at lib.rs:851)", r.st.panics);
        bump(&mut dist, "logical_content_checked_against_file_after_drop", r.st.logical_checks);
        bump(&mut dist, "limited_flushes", r.st.faults_injected);
        bump(&mut dist, "limited_flushes_refused", r.st.faults_hit);
        if r.st.max_end > 20_000 {
            bump(&mut dist, "file_over_20000_bytes", 1);
        }
        if samples.len() < 3 && r.lines.len() > 6 {
            samples.push(r.lines.iter().take(8).cloned().collect::<Vec<_>>().join("; "));
        }
        if let Some(d) = &r.diff {
            if failures.len() < 8 {
                let txt = replay_text(ctx, &format!("seq={} stream={:?} opening={}", i, stream, tag), r);
                let path = ctx.replays.join(format!("{}-rabuf-{:016x}.txt", ctx.prop, fnv(&txt)));
                let _ = std::fs::write(&path, &txt);
                failures.push(Failure {
                    facet: "rabuf".into(),
                    replay: path.to_string_lossy().to_string(),
                    detail: format!("seq {} op#{} `{}` [{}]: rabuf: {} / model: {}", i, d.idx, d.op, d.what, d.got.chars().take(160).collect::<String>(), d.want.chars().take(160).collect::<String>()),
                });
            } else {
                bump(&mut dist, "further_failures_not_listed", 1);
            }
        }
    }
    println!(
        "{}",
        obj(&[
            ("scenario", esc("rabuf")),
            ("property", esc(&ctx.prop)),
            ("seed", ctx.seed.to_string()),
            ("sequences", results.len().to_string()),
            ("distinct_sequences", distinct.len().to_string()),
            ("ops", n_ops.to_string()),
            ("ops_by_kind", map_u64(&ops_by_kind)),
            ("distribution", map_u64(&dist)),
            ("samples", arr(&samples.iter().map(|s| esc(s)).collect::<Vec<_>>())),
            ("failures", arr(&failures.iter().map(|f| obj(&[("facet", esc(&f.facet)), ("replay", esc(&f.replay)), ("detail", esc(&f.detail))])).collect::<Vec<_>>())),
        ])
    );
    if failures.is_empty() && results.len() == count { 0 } else { 1 }
}
