//! Scenarios: what each property's tie runs. Every scenario prints one JSON object on the last
//! line of stdout (the `check` script reads it) and writes replay files for failures.
use crate::driver::Driver;
use crate::gen::*;
use crate::json::*;
use crate::proto::*;
use crate::rng::Rng;
use crate::run::*;
use std::collections::BTreeMap;
use std::path::{Path, PathBuf};
use std::sync::{Arc, Mutex};

pub struct Ctx {
    pub driver: String,
    pub seed: u64,
    pub scratch: PathBuf,
    pub replays: PathBuf,
    pub tier_thorough: bool,
    pub prop: String,
    pub threads: usize,
    pub args: BTreeMap<String, String>,
}

fn arg_map(args: &[String]) -> BTreeMap<String, String> {
    let mut m = BTreeMap::new();
    let mut i = 0;
    while i < args.len() {
        if let Some(k) = args[i].strip_prefix("--") {
            if i + 1 < args.len() && !args[i + 1].starts_with("--") {
                m.insert(k.to_string(), args[i + 1].clone());
                i += 2;
                continue;
            }
            m.insert(k.to_string(), "1".into());
        }
        i += 1;
    }
    m
}

pub fn dispatch(args: &[String]) -> i32 {
    if args.is_empty() {
        eprintln!("usage: abyss-harness <scenario> --driver P --seed N --scratch D --replays D --prop Cxx [--thorough]");
        return 2;
    }
    let m = arg_map(&args[1..]);
    let ctx = Ctx {
        driver: m.get("driver").cloned().unwrap_or_default(),
        seed: m.get("seed").and_then(|s| s.parse().ok()).unwrap_or(1),
        scratch: PathBuf::from(m.get("scratch").cloned().unwrap_or_else(|| "/tmp/abyss-scratch".into())),
        replays: PathBuf::from(m.get("replays").cloned().unwrap_or_else(|| "/verif/replays".into())),
        tier_thorough: m.contains_key("thorough"),
        prop: m.get("prop").cloned().unwrap_or_else(|| "C00".into()),
        threads: m.get("threads").and_then(|s| s.parse().ok()).unwrap_or(16),
        args: m.clone(),
    };
    let _ = std::fs::create_dir_all(&ctx.scratch);
    let _ = std::fs::create_dir_all(&ctx.replays);
    match args[0].as_str() {
        "hist" => scen_hist(&ctx),
        "replay" => scen_replay(&ctx),
        "prop-hist" => scen_prop_hist(&ctx),
        "reopen" => scen_reopen(&ctx),
        "sync" => scen_sync(&ctx),
        "iter" => scen_iter(&ctx),
        "params" => scen_params(&ctx),
        "sizes" => scen_sizes(&ctx),
        "mkgolden-seqs" => scen_mkgolden_seqs(&ctx),
        "golden" => scen_golden(&ctx),
        "sig" => scen_sig(&ctx),
        "fault" => scen_fault(&ctx),
        "sentinel" => scen_sentinel(&ctx),
        "keys" => scen_keys(&ctx),
        "multi" => scen_multi(&ctx),
        "readonly" => scen_readonly(&ctx),
        "determ" => scen_determ(&ctx),
        "genengine" => scen_genengine(&ctx),
        "rabuf" => crate::rabuf_scen::scen_rabuf(&ctx),
        "rabuf-child" => crate::rabuf_scen::child_main(Path::new(ctx.args.get("file").map(|s| s.as_str()).unwrap_or("."))),
        "child" => crate::exec::child_main(Path::new(ctx.args.get("dir").map(|s| s.as_str()).unwrap_or("."))),
        other => {
            eprintln!("unknown scenario {}", other);
            2
        }
    }
}

/// result of a batch of sequences
#[derive(Default)]
pub struct Batch {
    pub sequences: u64,
    pub ops: u64,
    pub cov: Cov,
    pub failures: Vec<Failure>,
    pub samples: Vec<String>,
    pub distinct: std::collections::BTreeSet<u64>,
    pub pending: usize,
}
pub struct Failure {
    pub facet: String,
    pub replay: String,
    pub detail: String,
}

fn fnv(s: &str) -> u64 {
    let mut h: u64 = 0xcbf29ce484222325;
    for b in s.bytes() {
        h ^= b as u64;
        h = h.wrapping_mul(0x100000001b3);
    }
    h
}

pub fn fresh_dir(base: &Path, tag: &str) -> PathBuf {
    let d = base.join(tag);
    let _ = std::fs::remove_dir_all(&d);
    let _ = std::fs::create_dir_all(&d);
    d
}

/// run one sequence in a fresh directory with a fresh driver
pub fn run_fresh(ctx: &Ctx, seq: &Seq, tag: &str, opts: &RunOpts) -> Outcome {
    let dir = fresh_dir(&ctx.scratch, tag);
    let mut d = if opts.model { Driver::spawn(&ctx.driver).ok() } else { None };
    let out = run_seq(seq, &dir, &mut d, opts);
    let _ = std::fs::remove_dir_all(&dir);
    out
}

/// delta-debugging on the operation list: keep a failure of the same facet
pub fn shrink(ctx: &Ctx, seq: &Seq, facet: &str, tag: &str, opts: &RunOpts) -> Seq {
    let fails = |s: &Seq| -> bool { run_fresh(ctx, s, tag, opts).diffs.iter().any(|d| d.facet == facet) };
    let mut cur = seq.clone();
    let mut chunk = (cur.ops.len() / 2).max(1);
    let mut budget = 400;
    while chunk >= 1 && budget > 0 {
        let mut i = 0;
        let mut progressed = false;
        while i < cur.ops.len() && budget > 0 {
            let mut cand = cur.clone();
            let end = (i + chunk).min(cand.ops.len());
            cand.ops.drain(i..end);
            budget -= 1;
            if fails(&cand) {
                cur = cand;
                progressed = true;
            } else {
                i += chunk;
            }
        }
        if chunk == 1 && !progressed {
            break;
        }
        chunk = if chunk > 1 { chunk / 2 } else { 1 };
        if chunk == 1 && !progressed && cur.ops.len() > 64 {
            break;
        }
    }
    cur
}

pub fn write_replay(ctx: &Ctx, seq: &Seq, facet: &str, diffs: &[Diff], note: &str) -> String {
    let body = seq.text();
    let name = format!("{}-{}-{:016x}.txt", ctx.prop, facet, fnv(&body));
    let path = ctx.replays.join(name);
    let mut txt = format!("# property={} facet={} seed={} {}\n", ctx.prop, facet, ctx.seed, note);
    for d in diffs.iter().take(4) {
        txt.push_str(&format!("# op#{} [{}] {}\n#   observed: {}\n#   expected: {}\n", d.idx, d.facet, d.op, d.got, d.want));
    }
    txt.push_str(&body);
    let _ = std::fs::write(&path, txt);
    path.to_string_lossy().to_string()
}

/// run many generated sequences in parallel; facets = which differences count
pub fn run_batch(ctx: &Ctx, seqs: Vec<Seq>, opts_of: impl Fn(&Seq) -> RunOpts + Send + Sync, facets: &[&str], tagp: &str) -> Batch {
    let batch = Arc::new(Mutex::new(Batch::default()));
    let next = Arc::new(Mutex::new(0usize));
    let seqs = Arc::new(seqs);
    std::thread::scope(|sc| {
        for t in 0..ctx.threads.min(seqs.len().max(1)) {
            let batch = batch.clone();
            let next = next.clone();
            let seqs = seqs.clone();
            let opts_of = &opts_of;
            sc.spawn(move || loop {
                let i = {
                    let mut g = next.lock().unwrap();
                    let i = *g;
                    *g += 1;
                    i
                };
                if i >= seqs.len() {
                    break;
                }
                let seq = &seqs[i];
                let opts = opts_of(seq);
                let tag = format!("{}_{}_{}", tagp, t, i);
                // the case is on disk before it runs, so a hang can name it
                let cur = ctx.scratch.join(format!("current_{}.txt", t));
                let _ = std::fs::write(&cur, seq.text());
                CURRENT_SEQ.with(|c| *c.borrow_mut() = cur.to_string_lossy().to_string());
                // whole-sequence budget (a backstop behind the per-operation budgets): grows with the length
                let wid = watch_begin(600_000 + 60 * seq.ops.len() as u64, format!("seq-file={}", cur.display()));
                let out = run_fresh(ctx, seq, &tag, &opts);
                watch_end(wid);
                let mut b = batch.lock().unwrap();
                b.sequences += 1;
                b.ops += out.steps as u64;
                b.cov.merge(&out.cov);
                b.distinct.insert(fnv(&seq.text()));
                if b.samples.len() < 3 && seq.ops.len() < 40 {
                    b.samples.push(seq.text());
                }
                let relevant: Vec<Diff> = out.diffs.iter().filter(|d| facets.contains(&d.facet)).cloned().collect();
                let oracle_like_all = ["oracle", "decoder", "sync-oracle", "trace", "ro-bytes", "determ"];
                let n_model = b.failures.iter().filter(|f| !oracle_like_all.contains(&f.facet.as_str())).count();
                let n_oracle = b.failures.len() - n_model;
                // up to 3 model-only disagreements are reported, but the scan goes on until an
                // implementation-side oracle has failed as well (up to 2 of those)
                if !relevant.is_empty() && n_oracle < 2 && b.failures.len() + b.pending < 12 {
                    let _ = n_model;
                    b.pending += 1;
                    drop(b);
                    // prefer a facet judged by an implementation-side oracle: it is a concrete failing input
                    let facet = ["oracle", "decoder", "sync-oracle", "trace", "api", "open", "inv", "bytes"]
                        .iter()
                        .find(|f| relevant.iter().any(|d| d.facet == **f))
                        .copied()
                        .unwrap_or(relevant[0].facet);
                    let oracle_like = ["oracle", "decoder", "sync-oracle", "trace", "ro-bytes", "determ"];
                    let (facet, relevant) = if !oracle_like.contains(&facet) {
                        // only the model disagrees so far: run the whole sequence on (no early stop) and see
                        // whether an implementation-side oracle fails later — that is the concrete failing input
                        let mut o2 = opts_of(seq);
                        o2.stop_first = false;
                        let out_all = run_fresh(ctx, seq, &format!("{}_all", tag), &o2);
                        match oracle_like.iter().find(|f| facets.contains(*f) && out_all.diffs.iter().any(|d| d.facet == **f)) {
                            Some(f) => (*f, out_all.diffs.iter().filter(|d| d.facet == *f).cloned().collect::<Vec<Diff>>()),
                            None => (facet, relevant.iter().filter(|d| d.facet == facet).cloned().collect()),
                        }
                    } else {
                        (facet, relevant.iter().filter(|d| d.facet == facet).cloned().collect::<Vec<Diff>>())
                    };
                    let mut opts = opts;
                    opts.stop_first = false;
                    let small = shrink(ctx, seq, facet, &format!("{}_shr", tag), &opts);
                    let out2 = run_fresh(ctx, &small, &format!("{}_shr2", tag), &opts);
                    let d2: Vec<Diff> = out2.diffs.iter().filter(|d| d.facet == facet).cloned().collect();
                    let path = write_replay(ctx, &small, facet, if d2.is_empty() { &relevant } else { &d2 }, "");
                    let mut b = batch.lock().unwrap();
                    b.pending -= 1;
                    b.failures.push(Failure {
                        facet: facet.to_string(),
                        replay: path,
                        detail: format!("{} | observed: {} | expected: {}", relevant[0].op, relevant[0].got, relevant[0].want),
                    });
                }
            });
        }
    });
    let mut b = Arc::try_unwrap(batch).ok().unwrap().into_inner().unwrap();
    // report every oracle-judged failure and at most 3 model-only disagreements
    let oracle_like_all = ["oracle", "decoder", "sync-oracle", "trace", "ro-bytes", "determ"];
    let mut kept_model = 0;
    b.failures.retain(|f| {
        if oracle_like_all.contains(&f.facet.as_str()) {
            true
        } else {
            kept_model += 1;
            kept_model <= 3
        }
    });
    b
}

pub fn batch_json(ctx: &Ctx, scenario: &str, b: &Batch, extra: Vec<(&str, String)>) -> String {
    let mut f: Vec<(&str, String)> = vec![
        ("scenario", esc(scenario)),
        ("property", esc(&ctx.prop)),
        ("seed", ctx.seed.to_string()),
        ("sequences", b.sequences.to_string()),
        ("distinct_sequences", b.distinct.len().to_string()),
        ("ops", b.ops.to_string()),
        ("ops_by_kind", map_u64(&b.cov.ops)),
        ("value_len_classes", map_u64(&b.cov.vlen_classes)),
        ("key_len_classes", map_u64(&b.cov.klen)),
        ("bulk_batch_sizes", map_u64(&b.cov.batch)),
        ("byte_compares", b.cov.cmps.to_string()),
        ("get_hits", b.cov.found_hits.to_string()),
        ("overwrites", b.cov.overwrite.to_string()),
        ("delete_hits", b.cov.delete_hit.to_string()),
        ("max_key_file", b.cov.max_key_file.to_string()),
        ("max_val_file", b.cov.max_val_file.to_string()),
        ("impl_panics", b.cov.panics.to_string()),
        ("model_branches", map_u64(&b.cov.model_branches)),
        ("samples", arr(&b.samples.iter().map(|s| esc(s)).collect::<Vec<_>>())),
        (
            "failures",
            arr(&b
                .failures
                .iter()
                .map(|f| obj(&[("facet", esc(&f.facet)), ("replay", esc(&f.replay)), ("detail", esc(&f.detail))]))
                .collect::<Vec<_>>()),
        ),
    ];
    f.extend(extra);
    obj(&f)
}

fn facets_arg(ctx: &Ctx) -> Vec<String> {
    ctx.args.get("facets").map(|s| s.split(',').map(|x| x.to_string()).collect()).unwrap_or_else(|| vec!["api".into(), "bytes".into(), "oracle".into(), "open".into(), "inv".into(), "decoder".into()])
}

/// generic random histories on one map
fn scen_hist(ctx: &Ctx) -> i32 {
    let count: usize = ctx.args.get("count").and_then(|s| s.parse().ok()).unwrap_or(40);
    let n_ops: usize = ctx.args.get("ops").and_then(|s| s.parse().ok()).unwrap_or(120);
    let cmp_every = ctx.args.get("cmp-every").and_then(|s| s.parse::<u8>().ok());
    let mut rng = Rng::new(ctx.seed);
    let mut seqs = Vec::new();
    for i in 0..count {
        let mut r = rng.fork(i as u64);
        let kt = *r.pick(&Kt::ALL);
        let n = *r.pick(&[1u64, 1, 2, 4, 8, 16, 64, 128, 256, 1024]);
        let mut p = Profile::basic(kt, n, n_ops);
        p.val_mode = *r.pick(&[1u8, 1, 2, 2, 3]);
        p.key_mode = *r.pick(&[0u8, 0, 1, 2]);
        p.pool = r.range(2, 30) as usize;
        seqs.push(gen_history(&mut r, &p));
    }
    let facets = facets_arg(ctx);
    let fr: Vec<&str> = facets.iter().map(|s| s.as_str()).collect();
    let check_inv = ctx.args.contains_key("check-inv");
    let decoder = ctx.args.contains_key("decoder");
    let b = run_batch(ctx, seqs, |_| RunOpts { cmp_every, check_inv, decoder, ..Default::default() }, &fr, "hist");
    println!("{}", batch_json(ctx, "hist", &b, vec![]));
    if b.failures.is_empty() { 0 } else { 1 }
}

fn scen_replay(ctx: &Ctx) -> i32 {
    let Some(f) = ctx.args.get("file") else { return 2 };
    let Ok(txt) = std::fs::read_to_string(f) else { return 2 };
    let Some(seq) = Seq::parse(&txt) else {
        eprintln!("cannot parse {}", f);
        return 2;
    };
    let cmp_every = ctx.args.get("cmp-every").and_then(|s| s.parse::<u8>().ok());
    let out = run_fresh(ctx, &seq, "replay", &RunOpts { cmp_every, stop_first: false, decoder: true, check_inv: true, parse_check: ctx.args.contains_key("parse"), sync_check: ctx.args.contains_key("sync-check"), child: ctx.args.contains_key("child"), kill_after_sync: ctx.args.contains_key("kill"), cmp_end: !ctx.args.contains_key("sync-check"), ..Default::default() });
    for l in &out.transcript {
        println!("{}", l);
    }
    for d in &out.diffs {
        println!("DIFF op#{} [{}] {}\n  observed: {}\n  expected: {}", d.idx, d.facet, d.op, d.got, d.want);
    }
    if out.diffs.is_empty() { 0 } else { 1 }
}

// =====================================================================================
// property scenarios
// =====================================================================================

pub fn sizes(ctx: &Ctx, quick: usize, thorough: usize) -> usize {
    let k: usize = ctx.args.get("scale").and_then(|s| s.parse().ok()).unwrap_or(100);
    (if ctx.tier_thorough { thorough } else { quick }) * k / 100
}

fn finish(ctx: &Ctx, name: &str, b: &Batch, extra: Vec<(&str, String)>) -> i32 {
    println!("{}", batch_json(ctx, name, b, extra));
    if b.failures.is_empty() { 0 } else { 1 }
}

/// C01 / C14 / C17 / C05 / C06 / C08: random histories with different emphasis
pub fn scen_prop_hist(ctx: &Ctx) -> i32 {
    let prop = ctx.prop.as_str();
    let count = sizes(ctx, 96, 1200);
    let mut rng = Rng::new(ctx.seed ^ fnv(prop));
    let mut seqs = Vec::new();
    for i in 0..count {
        let mut r = rng.fork(i as u64);
        let kt = *r.pick(&Kt::ALL);
        let n = *r.pick(&[1u64, 1, 2, 4, 8, 16, 64, 128, 256, 1024]);
        let mut p = Profile::basic(kt, n, if ctx.tier_thorough { 400 } else { 160 });
        p.val_mode = *r.pick(&[1u8, 1, 2, 2, 3]);
        p.key_mode = *r.pick(&[0u8, 0, 1, 2]);
        p.pool = r.range(2, 30) as usize;
        match prop {
            "C14" => {
                p.w = [20, 10, 8, 3, 2, 1, 2, 0, 0, 0, 0, 30, 0, 1];
                // batches of up to 200 keys, a few far larger ones (bulk_get / bulk_delete only)
                p.bulk_max = if i % 3 == 0 && i < 96 { 3000 } else { 200 };
            }
            "C17" => {
                p.w = [40, 5, 18, 0, 1, 0, 1, 12, 0, 0, 0, 2, 0, 0];
                p.val_mode = *r.pick(&[1u8, 2, 2, 3]);
            }
            "C06" => {
                p.w = [40, 3, 30, 0, 1, 0, 0, 1, 0, 0, 0, 3, 0, 0];
                p.val_mode = *r.pick(&[1u8, 2, 2, 2, 3]);
                p.pool = r.range(2, 12) as usize;
            }
            "C08" => {
                // all keys collide: one bucket; 11-byte keys (key slot exactly full); files pass 16 KiB
                p.params = Params::buckets(*r.pick(&[1u64, 1, 1, 2]));
                p.kt = *r.pick(&[Kt::Bytes, Kt::Str]);
                p.key_mode = 1;
                p.val_mode = 2;
                p.pool = r.range(3, 40) as usize;
                p.n_ops = if ctx.tier_thorough { 600 } else { 260 };
                p.w = [55, 8, 22, 2, 2, 0, 1, 0, 0, 0, 0, 0, 0, 0];
            }
            _ => {}
        }
        if matches!(prop, "C01" | "C05" | "C08") && i % (if prop == "C08" { 2 } else { 6 }) == 1 {
            let ckt = if r.chance(1, 2) { Kt::Bytes } else { Kt::Str };
            seqs.push(gen_cascade(&mut r, ckt, if ctx.tier_thorough { 300 } else { 120 }));
            continue;
        }
        seqs.push(gen_history(&mut r, &p));
    }
    if prop == "C14" {
        // bulk calls over groups of different keys with one and the same 64-bit hash
        let mut crng = Rng::new(ctx.seed ^ fnv("collide-bulk"));
        for i in 0..(if ctx.tier_thorough { 40 } else { 8 }) {
            let mut r = crng.fork(i as u64);
            seqs.push(gen_collide_bulk(&mut r, if i % 2 == 0 { Kt::Bytes } else { Kt::Str }));
        }
    }
    if matches!(prop, "C01" | "C05") {
        // keys with one and the same 64-bit hash
        let mut crng = Rng::new(ctx.seed ^ fnv("collide"));
        for i in 0..(if ctx.tier_thorough { 60 } else { 8 }) {
            let mut r = crng.fork(880_000 + i as u64);
            seqs.push(gen_collide(&mut r, if i % 2 == 0 { Kt::Bytes } else { Kt::Str }, 80));
        }
    }
    if prop == "C01" {
        // one long history (no per-op byte comparison)
        let mut r = rng.fork(999_983);
        if ctx.tier_thorough {
            // 1e5 calls over a live set that stays around a few hundred entries (the model's cost per call
            // grows with the live set), and 2.5e4 calls over a live set that keeps growing
            let mut p = Profile::basic(Kt::Bytes, 64, 100_000);
            p.val_mode = 2;
            p.pool = 60;
            p.fresh = 400;
            seqs.push(gen_history(&mut r, &p));
            p.n_ops = 25_000;
            p.fresh = 12;
            seqs.push(gen_history(&mut r, &p));
        } else {
            let mut p = Profile::basic(Kt::Bytes, 64, 12_000);
            p.val_mode = 2;
            p.pool = 60;
            seqs.push(gen_history(&mut r, &p));
        }
    }
    let (facets, cmp_every, check_inv, decoder): (Vec<&str>, Option<u8>, bool, bool) = match prop {
        "C01" | "C14" => (vec!["api", "oracle", "open"], None, false, false),
        "C05" => (vec!["decoder", "inv", "bytes", "open"], Some(1), true, true),
        "C06" => (vec!["decoder", "inv", "bytes"], Some(1), true, true),
        "C08" => (vec!["api", "oracle", "inv", "bytes", "decoder"], Some(1), true, true),
        "C17" => (vec!["api", "oracle", "decoder"], None, false, true),
        _ => (vec!["api", "oracle", "open", "bytes", "inv", "decoder"], Some(1), true, true),
    };
    let long_from = 5000;
    let b = run_batch(
        ctx,
        seqs,
        move |s| RunOpts {
            cmp_every: if s.ops.len() > long_from { None } else { cmp_every },
            check_inv: check_inv && s.ops.len() <= long_from,
            decoder,
            parse_check: matches!(prop, "C05" | "C06" | "C08"),
            cmp_end: prop_uses_bytes(&facets),
            ..Default::default()
        },
        &match prop {
            "C01" | "C14" => vec!["api", "oracle", "open"],
            "C05" => vec!["decoder", "inv", "bytes", "open", "parse"],
            "C06" => vec!["decoder", "inv", "bytes", "parse"],
            "C08" => vec!["api", "oracle", "inv", "bytes", "decoder", "parse"],
            "C17" => vec!["api", "oracle", "decoder"],
            _ => vec!["api", "oracle", "open", "bytes", "inv", "decoder"],
        },
        prop,
    );
    let mut b = b;
    if prop == "C06" {
        cyclic_bound(ctx, &mut b);
    }
    finish(ctx, "hist", &b, vec![])
}

/// the engine generated from the Rust source (driver `ge …`: `Gen.putKt`, `getKt`, `delKt`, … on the bytes of the
/// three files) side by side with the real crate and the hand model: results per call, bytes at the comparison points
pub fn scen_genengine(ctx: &Ctx) -> i32 {
    let count = sizes(ctx, 60, 600);
    let mut rng = Rng::new(ctx.seed ^ fnv("genengine"));
    let mut seqs = Vec::new();
    for i in 0..count {
        let mut r = rng.fork(i as u64);
        let kt = *r.pick(&Kt::ALL);
        if i % 5 == 4 {
            // relocation cascades (exact-fit key records, value file beyond 16 KiB)
            let ckt = if r.chance(1, 2) { Kt::Bytes } else { Kt::Str };
            seqs.push(gen_cascade(&mut r, ckt, 40));
            continue;
        }
        let n = *r.pick(&[1u64, 2, 3, 8, 9, 64, 200]);
        let mut p = Profile::basic(kt, n, r.range(20, 90) as usize);
        p.w = [42, 14, 20, 5, 4, 0, 4, 3, 0, 0, 0, 0, 0, 0];
        p.val_mode = *r.pick(&[0u8, 1, 1, 2]);
        p.key_mode = *r.pick(&[0u8, 0, 1]);
        p.pool = r.range(2, 14) as usize;
        let mut s = gen_history(&mut r, &p);
        // the generated engine has the byte-level calls only
        s.ops = s.ops.iter().map(|o| o.base().0).collect();
        seqs.push(s);
    }
    let b = run_batch(
        ctx,
        seqs,
        |s| RunOpts { gen_engine: true, cmp_every: if s.ops.len() <= 60 { Some(0) } else { None }, cmp_end: true, ..Default::default() },
        &["api", "oracle", "bytes", "gen-api", "gen-bytes"],
        "genengine",
    );
    finish(ctx, "genengine", &b, vec![])
}

fn prop_uses_bytes(f: &[&str]) -> bool {
    f.contains(&"bytes") || f.contains(&"decoder")
}

/// C06: cyclic workloads with a bounded live set must not grow the files
fn cyclic_bound(ctx: &Ctx, b: &mut Batch) {
    let cycles = if ctx.tier_thorough { 3000 } else { 120 };
    let mut rng = Rng::new(ctx.seed ^ 0xC06C06);
    for variant in 0..4u64 {
        let dir = fresh_dir(&ctx.scratch, &format!("cyc{}", variant));
        let kt = Kt::Bytes;
        let mut imp = crate::exec::Exec::In(crate::imp::Impl::new(&dir));
        imp.exec(&Op::Map(0, kt, Params::buckets(16)));
        let seqf = ctx.scratch.join(format!("current_cyc{}.txt", variant));
        CURRENT_SEQ.with(|c| *c.borrow_mut() = seqf.to_string_lossy().to_string());
        let lens: Vec<usize> = match variant {
            0 => vec![5, 20, 100],
            1 => vec![1100, 1500, 5000, 3000],
            2 => vec![14, 15, 1019, 1020, 1200],
            _ => vec![0, 300, 2000, 70_000],
        };
        let mut sizes_at: Vec<(u64, u64)> = Vec::new();
        let mut broke: Option<String> = None;
        let mut ops_text = format!("open {} {}\n", kt.name(), Params::buckets(16).tok());
        for c in 0..cycles {
            let mut keys = Vec::new();
            for j in 0..6u8 {
                let k = vec![b'k', j, (c % 3) as u8];
                let l = *rng.pick(&lens);
                let op = Op::Put(B::Hex(k.clone()), B::Pat(l, c as u64 % 50));
                ops_text.push_str(&op.text());
                ops_text.push('\n');
                let _ = std::fs::write(&seqf, &ops_text);
                let wid = watch_begin(20_000, format!("cyclic op {}", op.text()));
                let r = imp.exec(&op);
                watch_end(wid);
                if r.starts_with("panic") { broke = Some(format!("{} => {}", op.text(), r)); break; }
                keys.push(k);
            }
            if broke.is_some() { break; }
            for k in keys {
                let op = Op::Del(B::Hex(k));
                ops_text.push_str(&op.text());
                ops_text.push('\n');
                let _ = std::fs::write(&seqf, &ops_text);
                let wid = watch_begin(20_000, format!("cyclic op {}", op.text()));
                let r = imp.exec(&op);
                watch_end(wid);
                if r.starts_with("panic") { broke = Some(format!("{} => {}", op.text(), r)); break; }
            }
            if broke.is_some() { break; }
            b.ops += 12;
            if c % 20 == 19 || c + 1 == cycles {
                imp.exec(&Op::Flush);
                let kl = std::fs::metadata(dir.join("m0.key")).map(|m| m.len()).unwrap_or(0);
                let vl = std::fs::metadata(dir.join("m0.val")).map(|m| m.len()).unwrap_or(0);
                sizes_at.push((kl, vl));
            }
        }
        imp.close_all();
        let mut dec = crate::decoder::decode(&dir, "m0", &sig_of(kt));
        if let Some(b) = &broke {
            dec.errors.insert(0, format!("a call of the cyclic workload panicked: {}", b));
        }
        // bound implied by the statement: slots per size <= peak simultaneously used slots of that size (+1 transient).
        // The live set never exceeds 6 entries, so no size may have more than 6 + 1 slots … the shared large
        // list is first-fit, so count all large slots together: <= 6 + 1 as well.
        let mut per: std::collections::BTreeMap<u64, u64> = Default::default();
        for s in dec.val_slots.iter() {
            *per.entry(if s.1 >= 1024 { 1024 } else { s.1 }).or_default() += 1;
        }
        let worst = per.values().cloned().max().unwrap_or(0);
        let first = sizes_at.get(1).cloned().unwrap_or((0, 0));
        let last = sizes_at.last().cloned().unwrap_or((0, 0));
        b.sequences += 1;
        if !dec.errors.is_empty() || worst > 7 * lens.len() as u64 || last.1 > first.1 * 3 + 200_000 {
            let path = ctx.replays.join(format!("{}-decoder-cyclic{}.txt", ctx.prop, variant));
            let _ = std::fs::write(&path, format!("# property={} facet=decoder cyclic workload, live set <= 6 entries\n# file sizes (key,val) every 20 cycles: {:?}\n# slots per class: {:?} errors: {:?}\n{}", ctx.prop, sizes_at, per, dec.errors.first(), ops_text));
            b.failures.push(Failure { facet: "decoder".into(), replay: path.to_string_lossy().to_string(), detail: format!("cyclic workload: value file {} -> {} bytes, worst class has {} slots, errors {:?}", first.1, last.1, worst, dec.errors.first()) });
        }
        let _ = std::fs::remove_dir_all(&dir);
    }
}

/// C02: close/reopen interleaved, in-process and in fresh processes, same and different parameters
pub fn scen_reopen(ctx: &Ctx) -> i32 {
    let count = sizes(ctx, 60, 600);
    let mut rng = Rng::new(ctx.seed ^ fnv("reopen"));
    let mut seqs = Vec::new();
    for i in 0..count {
        let mut r = rng.fork(i as u64);
        let kt = *r.pick(&Kt::ALL);
        let n = *r.pick(&[1u64, 2, 8, 16, 64, 256]);
        let mut p = Profile::basic(kt, n, 120);
        p.w = [40, 12, 12, 3, 3, 1, 4, 0, 1, 8, 0, 2, 0, 1];
        p.val_mode = *r.pick(&[1u8, 2, 2, 3]);
        // long keys too: freed key slots of every class (also the shared large list) exist at close
        p.key_mode = *r.pick(&[0u8, 0, 2, 2, 3]);
        p.pool = r.range(3, 25) as usize;
        let mut s = gen_history(&mut r, &p);
        // after each reopen look at everything: len, full iteration, then lookups
        let mut ops = Vec::new();
        for o in s.ops.drain(..) {
            let is_re = matches!(o, Op::Reopen(_));
            ops.push(o);
            if is_re {
                ops.push(Op::Len);
                ops.push(Op::Iter(0));
            }
        }
        s.ops = ops;
        seqs.push(s);
    }
    let b = run_batch(
        ctx,
        seqs,
        |s| RunOpts { child: fnv(&s.text()) % 2 == 0, cmp_end: true, parse_check: true, ..Default::default() },
        &["api", "oracle", "open", "bytes", "parse"],
        "reopen",
    );
    // several maps in one directory (names that share stems / contain dots), each closed and opened again
    // while the others were updated: every map must come back with its own contents
    let mut b = b;
    names_check(ctx, &mut b);
    finish(ctx, "reopen", &b, vec![])
}

/// C03: every flush/sync call site is a crash point
pub fn scen_sync(ctx: &Ctx) -> i32 {
    let count = sizes(ctx, 48, 500);
    let mut rng = Rng::new(ctx.seed ^ fnv("sync"));
    let mut seqs = Vec::new();
    // a map that was only created: flush / sync must leave a valid empty map
    for (i, op) in [Op::Flush, Op::SyncAll, Op::SyncData, Op::DbSyncAll, Op::DbSyncData].into_iter().enumerate() {
        seqs.push(Seq { kt: Kt::ALL[i % 5], params: Params::buckets(8), ops: vec![op] });
    }
    for i in 0..count {
        let mut r = rng.fork(i as u64);
        let kt = *r.pick(&Kt::ALL);
        let n = *r.pick(&[1u64, 8, 16, 64, 256]);
        let mut p = Profile::basic(kt, n, 70);
        p.w = [45, 5, 14, 0, 1, 0, 1, 0, 14, 1, 0, 3, 0, 0];
        p.val_mode = *r.pick(&[1u8, 2, 2, 3]);
        p.pool = r.range(3, 20) as usize;
        let mut s = gen_history(&mut r, &p);
        if r.chance(1, 3) {
            // a second map in the same directory: database-level sync must cover both
            let kt1 = *r.pick(&Kt::ALL);
            s.ops.insert(0, Op::Map(1, kt1, Params::buckets(4)));
            s.ops.insert(1, Op::Put(gen_key(&mut r, kt1, 0), gen_val(&mut r, 1)));
            s.ops.insert(2, Op::Map(0, kt, p.params));
            let mid = s.ops.len() / 2;
            s.ops.insert(mid, Op::Map(1, kt1, Params::buckets(4)));
            // the operations that follow address map 1: keep only those whose keys suit its key type
            if kt1 != kt {
                s.ops.truncate(mid + 1);
                for _ in 0..10 {
                    s.ops.push(Op::Put(gen_key(&mut r, kt1, 0), gen_val(&mut r, 1)));
                }
                s.ops.push(Op::DbSyncAll);
                s.ops.push(Op::Map(0, kt, p.params));
                s.ops.push(Op::Put(gen_key(&mut r, kt, 0), gen_val(&mut r, 1)));
                s.ops.push(Op::DbSyncData);
            }
        }
        seqs.push(s);
    }
    // fix up: the second map must keep its key type
    for s in seqs.iter_mut() {
        let mut kt1 = None;
        for o in s.ops.iter_mut() {
            if let Op::Map(1, kt, _) = o {
                if let Some(k) = kt1 {
                    *kt = k;
                } else {
                    kt1 = Some(*kt);
                }
            }
        }
    }
    let thorough = ctx.tier_thorough;
    let b = run_batch(
        ctx,
        seqs,
        move |s| {
            let h = fnv(&s.text());
            let child = h % 3 == 0 || (thorough && h % 2 == 0);
            RunOpts { sync_check: true, child, kill_after_sync: child && h % 2 == 0, cmp_end: false, ..Default::default() }
        },
        &["trace", "sync-bytes", "sync-oracle", "api", "oracle"],
        "sync",
    );
    finish(ctx, "sync", &b, vec![])
}

/// keys whose documented hash falls into bucket `t` of `n`
fn keys_for_bucket(n: u64, t: u64, want: usize, salt: u64) -> Vec<Vec<u8>> {
    let mut out = Vec::new();
    let mut c: u64 = salt * 1_000_003;
    while out.len() < want && c < salt * 1_000_003 + 3_000_000 {
        let k = format!("k{}", c).into_bytes();
        if crate::decoder::hash(&k) % n == t {
            out.push(k);
        }
        c += 1;
    }
    out
}

/// keys of exactly `len` bytes (digits) whose documented hash falls into bucket `t` of `n`
fn fixed_len_keys_for_bucket(n: u64, t: u64, len: usize, want: usize, salt: u64) -> Vec<Vec<u8>> {
    let mut out = Vec::new();
    let mut c: u64 = salt * 1_000_003;
    while out.len() < want && c < salt * 1_000_003 + 3_000_000 {
        let k = format!("{:0w$}", c, w = len).into_bytes();
        if k.len() == len && crate::decoder::hash(&k) % n == t {
            out.push(k);
        }
        c += 1;
    }
    out
}

/// C04: iteration under every table size and directed occupancy
pub fn scen_iter(ctx: &Ctx) -> i32 {
    let mut rng = Rng::new(ctx.seed ^ fnv("iter"));
    let mut seqs = Vec::new();
    let mut ns: Vec<u64> = vec![1, 2, 3, 4, 7, 8, 9, 16, 32, 63, 64, 65, 128, 200, 256, 512, 1024, 4096];
    if ctx.tier_thorough {
        ns.extend([5, 6, 12, 100, 2048, 8192, 16384, 65536]);
    } else {
        ns.push(65536);
    }
    for (i, &nreq) in ns.iter().enumerate() {
        let n = nreq.next_power_of_two();
        let variants = if ctx.tier_thorough { 6 } else { 3 };
        for v in 0..variants {
            let mut r = rng.fork((i * 16 + v) as u64);
            let mut targets: Vec<u64> = vec![0, 7, 8, 63, 64, n.saturating_sub(9), n.saturating_sub(8), n - 1, n / 2, 71, 72, 119, 120]
                .into_iter()
                .filter(|t| *t < n)
                .collect();
            targets.sort();
            targets.dedup();
            // choose a subset of target buckets, 1-2 keys each
            let mut keys: Vec<Vec<u8>> = Vec::new();
            for t in &targets {
                if v == 0 || r.chance(1, 2) {
                    let cnt = r.range(1, 2) as usize;
                    keys.extend(keys_for_bucket(n, *t, cnt, (i * 16 + v + 1) as u64));
                }
            }
            if v == 2 {
                for j in 0..(n.min(300)) {
                    keys.push(format!("r{}-{}", i, j).into_bytes());
                }
            }
            let kt = *r.pick(&[Kt::Bytes, Kt::Str]);
            let mut ops = vec![Op::Iter(0), Op::Iter(2)];
            for k in &keys {
                ops.push(Op::Put(B::Hex(k.clone()), gen_val(&mut r, 1)));
            }
            for f in 0..6 {
                ops.push(Op::Iter(f));
            }
            // delete about half, iterate, delete the rest, iterate, re-insert some
            for (j, k) in keys.iter().enumerate() {
                if j % 2 == 0 {
                    ops.push(Op::Del(B::Hex(k.clone())));
                }
            }
            ops.push(Op::Iter(r.below(7) as u8));
            ops.push(Op::Iter(0));
            for (j, k) in keys.iter().enumerate() {
                if j % 2 == 1 {
                    ops.push(Op::Del(B::Hex(k.clone())));
                }
            }
            ops.push(Op::Len);
            ops.push(Op::Iter(0));
            ops.push(Op::Iter(4));
            for k in keys.iter().take(3) {
                ops.push(Op::Put(B::Hex(k.clone()), gen_val(&mut r, 0)));
            }
            ops.push(Op::Iter(1));
            seqs.push(Seq { kt, params: Params { bk: if v == 1 { Bk::Size(nreq) } else { Bk::Size(n) }, ..Params::buckets(1) }, ops });
        }
    }
    // directed: a key record at the head of its bucket moves (its value is overwritten after the value file passed
    // 16 KiB, so its value-offset field gets a byte wider; the key lengths fill their slot exactly) in sparse tables
    // of 16+ buckets — the table entry is rewritten by the relink path, not by insert / delete
    let mut ri = 0u64;
    for n in [16u64, 64, 256, 4096] {
        for variant in 0..(if ctx.tier_thorough { 6 } else { 2 }) {
            ri += 1;
            let mut r = rng.fork(5000 + ri);
            let kt = if ri % 2 == 0 { Kt::Bytes } else { Kt::Str };
            let mut targets: Vec<u64> = vec![0, 8, 9, 15, 16, 63, 64, 71, n / 2, n - 9, n - 8].into_iter().filter(|t| *t < n - 1).collect();
            targets.sort();
            targets.dedup();
            let mut keys: Vec<Vec<u8>> = Vec::new();
            for t in &targets {
                if variant == 0 || r.chance(1, 2) {
                    // alone in its bucket (next = 0): length class - 5 fills the slot exactly
                    let len = *r.pick(&[11usize, 11, 19, 27, 43]);
                    keys.extend(fixed_len_keys_for_bucket(n, *t, len, 1, ri));
                    if r.chance(1, 3) {
                        // a second key in the same bucket: class - 6 for the head (its next offset is small)
                        keys.extend(fixed_len_keys_for_bucket(n, *t, *r.pick(&[10usize, 18, 26]), 1, ri + 100));
                    }
                }
            }
            let mut ops = Vec::new();
            for k in &keys {
                ops.push(Op::Put(B::Hex(k.clone()), B::Pat(1, 1)));
            }
            ops.push(Op::Iter(0));
            // the filler lives in the last bucket and stays
            let filler = fixed_len_keys_for_bucket(n, n - 1, 12, 1, ri + 200);
            if let Some(f) = filler.first() {
                ops.push(Op::Put(B::Hex(f.clone()), B::Pat(r.range(17_000, 20_000) as usize, 9)));
            }
            for (j, k) in keys.iter().enumerate() {
                ops.push(Op::Put(B::Hex(k.clone()), B::Pat(r.range(90, 300) as usize, j as u64)));
                if j % 3 == 0 {
                    ops.push(Op::Iter(r.below(7) as u8));
                }
            }
            for f in 0..7 {
                ops.push(Op::Iter(f));
            }
            ops.push(Op::Len);
            for (j, k) in keys.iter().enumerate() {
                if j % 2 == 0 {
                    ops.push(Op::Del(B::Hex(k.clone())));
                }
            }
            ops.push(Op::Iter(0));
            ops.push(Op::Iter(3));
            seqs.push(Seq { kt, params: Params::buckets(n), ops });
        }
    }
    // plus random histories ending in traversals, all key types
    for i in 0..sizes(ctx, 30, 300) {
        let mut r = rng.fork(7000 + i as u64);
        let kt = *r.pick(&Kt::ALL);
        let n = *r.pick(&[1u64, 2, 4, 8, 16, 128, 256, 1024]);
        let mut p = Profile::basic(kt, n, 80);
        p.w = [40, 2, 25, 0, 2, 0, 12, 0, 0, 0, 0, 0, 0, 0];
        p.pool = r.range(2, 40) as usize;
        seqs.push(gen_history(&mut r, &p));
    }
    let b = run_batch(ctx, seqs, |_| RunOpts { cmp_end: false, ..Default::default() }, &["api", "oracle"], "iter");
    finish(ctx, "iter", &b, vec![])
}

/// C07: the same history under many parameter sets
pub fn scen_params(ctx: &Ctx) -> i32 {
    let mut rng = Rng::new(ctx.seed ^ fnv("params"));
    let hist_n = sizes(ctx, 6, 40);
    let mut bks: Vec<Bk> = vec![1u64, 2, 3, 4, 7, 8, 9, 64, 100, 128, 1000, 65536].into_iter().map(Bk::Size).collect();
    bks.extend([1u64, 7, 8, 100, 65536].into_iter().map(Bk::Cap));
    let bufsets: Vec<(Buf, Buf, Buf, bool)> = vec![
        (Buf::Auto, Buf::Auto, Buf::Auto, true),
        (Buf::Auto, Buf::Auto, Buf::Auto, false),
        (Buf::Size(262_144), Buf::Size(262_144), Buf::Size(262_144), false),
        (Buf::Size(1), Buf::Size(200_000), Buf::Size(100_000), false),
        (Buf::PerMille(1000), Buf::PerMille(1000), Buf::PerMille(1000), false),
        (Buf::Size(400_000), Buf::Auto, Buf::PerMille(1000), false),
        (Buf::Auto, Buf::Size(262_144), Buf::Size(1_000_000), false),
    ];
    let mut seqs = Vec::new();
    for i in 0..hist_n {
        let mut r = rng.fork(i as u64);
        let kt = *r.pick(&Kt::ALL);
        let mut p = Profile::basic(kt, 8, if i % 3 == 0 { 260 } else { 110 });
        // every third history carries > 3 chunks of data so that small buffers must evict
        p.val_mode = if i % 3 == 0 { 3 } else { *r.pick(&[1u8, 2]) };
        p.w = [45, 12, 12, 3, 3, 1, 3, 0, 1, 2, 0, 3, 1, 0];
        p.pool = r.range(3, 30) as usize;
        let base = gen_history(&mut r, &p);
        // which configurations this history runs under
        let mut cfgs: Vec<Params> = Vec::new();
        for (j, bk) in bks.iter().enumerate() {
            let bs = bufsets[(i + j) % bufsets.len()];
            cfgs.push(Params { bk: *bk, key: bs.0, val: bs.1, htx: bs.2, default_bufs: bs.3 });
        }
        for bs in &bufsets {
            cfgs.push(Params { bk: Bk::Size(16), key: bs.0, val: bs.1, htx: bs.2, default_bufs: bs.3 });
        }
        if i == 0 {
            cfgs.push(Params { bk: Bk::Default, key: Buf::Auto, val: Buf::Auto, htx: Buf::Auto, default_bufs: true });
            cfgs.push(Params { bk: Bk::Cap(0), key: Buf::Auto, val: Buf::Auto, htx: Buf::Auto, default_bufs: true });
        }
        for c in cfgs {
            let mut s = base.clone();
            s.params = c;
            if c.bk == Bk::Default {
                s.ops.retain(|o| !matches!(o, Op::Iter(_) | Op::Stats | Op::Reopen(_)));
                s.ops.truncate(40);
            }
            seqs.push(s);
        }
    }
    let b = run_batch(
        ctx,
        seqs,
        |s| RunOpts { cmp_end: s.params.bk != Bk::Default, op_budget_ms: 60_000, ..Default::default() },
        &["api", "oracle", "open", "bytes"],
        "params",
    );
    // known finding: PerMille(p < 1000) on a file larger than one 128 KiB chunk never returns
    let witness = permille_witness(ctx);
    let cands = if witness == "hang" {
        let path = ctx.replays.join("C07-oracle-permille-hang.txt");
        let _ = std::fs::write(&path, "# property=C07 facet=oracle (hang)\n# a put never returns: value file buffer PerMille(1), 64 buckets, u64 keys 0.., values of 1000 bytes; hangs once the value file needs a second 128 KiB chunk\nopen u64 b64,a,m1,a\n# then: put <i as 8 LE bytes> p1000:<i>  for i = 0..400\n");
        vec![obj(&[("key", esc("C07:permille-hang")), ("detail", esc("FileBufSizeParam::PerMille(1) for the value file: put never returns once the file exceeds one 128 KiB chunk")), ("replay", esc(&path.to_string_lossy()))])]
    } else {
        vec![]
    };
    finish(ctx, "params", &b, vec![("known_finding_permille", esc(&witness)), ("candidates", arr(&cands))])
}

/// runs the D5/PerMille witness in a child process; "hang" = still fails, "ok" = no longer fails
pub fn permille_witness(ctx: &Ctx) -> String {
    let dir = fresh_dir(&ctx.scratch, "permille_witness");
    let mut c = crate::exec::ChildExec::new(&dir);
    std::env::set_var("ABYSS_CHILD_BUDGET_MS", "4000");
    let p = Params { bk: Bk::Size(64), key: Buf::Auto, val: Buf::PerMille(1), htx: Buf::Auto, default_bufs: false };
    let mut res = "ok".to_string();
    let a = c.send(&Op::Map(0, Kt::U64, p).text());
    if a != "ok" {
        res = format!("open: {}", a);
    } else {
        for i in 0..400u64 {
            let a = c.send(&Op::Put(B::Hex(i.to_le_bytes().to_vec()), B::Pat(1000, i)).text());
            if a != "ok" {
                res = if a == "child-dead" || a.starts_with("HANG") { "hang".into() } else { a };
                break;
            }
        }
    }
    c.kill9();
    std::env::remove_var("ABYSS_CHILD_BUDGET_MS");
    let _ = std::fs::remove_dir_all(&dir);
    res
}

/// C11: several maps of mixed key types in one directory, several handles per map
pub fn scen_multi(ctx: &Ctx) -> i32 {
    let count = sizes(ctx, 40, 400);
    let mut rng = Rng::new(ctx.seed ^ fnv("multi"));
    let mut seqs = Vec::new();
    for i in 0..count {
        let mut r = rng.fork(i as u64);
        let nmaps = r.range(2, 5) as usize;
        let kts: Vec<Kt> = (0..nmaps).map(|_| *r.pick(&Kt::ALL)).collect();
        let ps: Vec<Params> = (0..nmaps).map(|_| Params::buckets(*r.pick(&[1u64, 4, 16, 64]))).collect();
        let mut ops = Vec::new();
        for m in 1..nmaps {
            ops.push(Op::Map(m, kts[m], ps[m]));
        }
        let mut cur = nmaps - 1;
        let pools: Vec<Vec<B>> = kts.iter().map(|kt| (0..8).map(|_| gen_key(&mut r, *kt, 0)).collect()).collect();
        for _ in 0..(if ctx.tier_thorough { 200 } else { 90 }) {
            if r.chance(1, 4) {
                cur = r.below(nmaps as u64) as usize;
                ops.push(Op::Map(cur, kts[cur], ps[cur]));
            }
            let k = r.pick(&pools[cur]).clone();
            ops.push(match r.below(14) {
                0..=5 => Op::Put(k, gen_val(&mut r, 1)),
                6 | 7 => Op::Get(k),
                8 | 9 => Op::Del(k),
                10 => Op::Len,
                11 => Op::Rehandle(r.below(3) as u8),
                12 => Op::Iter(r.below(7) as u8),
                _ => Op::Inc(k),
            });
        }
        seqs.push(Seq { kt: kts[0], params: ps[0], ops });
    }
    let mut b = run_batch(ctx, seqs, |_| RunOpts { cmp_every: Some(0), cmp_end: true, ..Default::default() }, &["api", "oracle", "bytes", "open"], "multi");
    names_check(ctx, &mut b);
    // two witnesses of "one name, two states" (defect candidates, matched against known_findings.json)
    let mut cands: Vec<String> = Vec::new();
    for (key, what, res) in alias_witnesses(ctx) {
        if std::env::var("ABYSS_DEBUG").is_ok() {
            eprintln!("alias witness {} => {}", key, res);
        }
        if res == "two-states" {
            let path = ctx.replays.join(format!("C11-oracle-{}.txt", key.replace(':', "-")));
            let _ = std::fs::write(&path, format!("# property=C11 facet=oracle\n# {}\n", what));
            cands.push(obj(&[("key", esc(&key)), ("detail", esc(&what)), ("replay", esc(&path.to_string_lossy()))]));
        }
    }
    // all handles of one map are one state, also for flush / is_dirty: an update through one handle must be made
    // durable by a flush through another one
    for (what, res) in handle_witnesses(ctx) {
        if let Some(problem) = res {
            if b.failures.len() < 5 {
                let path = ctx.replays.join(format!("C11-oracle-handles-{:016x}.txt", fnv(&what)));
                let _ = std::fs::write(&path, format!("# property=C11 facet=oracle\n# {}\n# {}\n", what, problem));
                b.failures.push(Failure { facet: "oracle".into(), replay: path.to_string_lossy().to_string(), detail: format!("{}: {}", what, problem) });
            }
        }
        b.sequences += 1;
    }
    finish(ctx, "multi", &b, vec![("candidates", arr(&cands))])
}

/// C11, second sentence, for the calls that are not reads or updates: for each way of getting a second handle
/// (clone of the map handle, repeated lookup, lookup through a cloned database handle): put + flush through
/// handle A, put through handle B, then `is_dirty` must agree on both, a flush through A must succeed, and a
/// copy of the directory taken right after it must hold B's update.
pub fn handle_witnesses(ctx: &Ctx) -> Vec<(String, Option<String>)> {
    use abyssiniandb::{DbXxx, DbXxxBase};
    let mut out = Vec::new();
    for how in ["clone of the map handle", "repeated lookup", "lookup through a cloned database handle"] {
        for sync in ["flush", "sync_all", "sync_data"] {
            let d = fresh_dir(&ctx.scratch, &format!("handles_{}_{}", fnv(how) % 1000, sync));
            let dd = d.clone();
            let r = std::thread::spawn(move || {
                std::panic::catch_unwind(|| -> Option<String> {
                    let db = abyssiniandb::open_file(&dd).ok()?;
                    let mut a = db.db_map_string("m").ok()?;
                    if a.put("k1", b"v1").is_err() || a.flush().is_err() {
                        return Some("put / flush through the first handle failed".into());
                    }
                    let mut b = match how {
                        "clone of the map handle" => a.clone(),
                        "repeated lookup" => db.db_map_string("m").ok()?,
                        _ => db.clone().db_map_string("m").ok()?,
                    };
                    if b.put("k2", b"v2").is_err() {
                        return Some("put through the second handle failed".into());
                    }
                    if a.is_dirty() != b.is_dirty() {
                        return Some(format!("is_dirty() is {} through the first handle and {} through the second", a.is_dirty(), b.is_dirty()));
                    }
                    let ok = match sync {
                        "flush" => a.flush().is_ok(),
                        "sync_all" => a.sync_all().is_ok(),
                        _ => a.sync_data().is_ok(),
                    };
                    if !ok {
                        return Some(format!("{} through the first handle failed", sync));
                    }
                    // what is on disk right now
                    let snap = dd.with_extension("snap");
                    let _ = std::fs::remove_dir_all(&snap);
                    let _ = std::fs::create_dir_all(&snap);
                    for e in ["htx", "key", "val"] {
                        let _ = std::fs::copy(dd.join(format!("m.{}", e)), snap.join(format!("m.{}", e)));
                    }
                    let seen = {
                        let db2 = abyssiniandb::open_file(&snap).ok()?;
                        let mut m2 = db2.db_map_string("m").ok()?;
                        (m2.get("k2").ok().flatten(), m2.len().ok())
                    };
                    let _ = std::fs::remove_dir_all(&snap);
                    if seen != (Some(b"v2".to_vec()), Some(2)) {
                        return Some(format!("after {} through the first handle the files hold get(k2) = {:?}, len = {:?} (expected Some(v2), 2)", sync, seen.0.map(|v| String::from_utf8_lossy(&v).to_string()), seen.1));
                    }
                    None
                })
                .unwrap_or_else(|_| Some("a call panicked".into()))
            })
            .join()
            .unwrap_or_else(|_| Some("a call panicked".into()));
            let _ = std::fs::remove_dir_all(&d);
            out.push((format!("second handle = {}; put + flush through A, put through B, {} through A", how, sync), r));
        }
    }
    out
}

/// C11 witnesses run against the real crate in a thread (a refusal may be a panic):
/// (1) the same name opened as `u64` and as `vu64` (the C13 signature collision lets the second open
///     through; the registry then holds two separate handles over the same three files);
/// (2) the names `b` and `./b` of one key type (different registry keys, the same three files).
/// Result per witness: "refused" (the second open fails), "aliased" (the second handle sees the update
/// made through the first), "two-states" (it does not).
pub fn alias_witnesses(ctx: &Ctx) -> Vec<(String, String, String)> {
    use abyssiniandb::{DbXxx, DbXxxBase};
    let mut out = Vec::new();
    let d1 = fresh_dir(&ctx.scratch, "alias_u64_vu64");
    let r1 = std::thread::spawn(move || {
        let r = std::panic::catch_unwind(|| -> String {
            let db = match abyssiniandb::open_file(&d1) { Ok(d) => d, Err(_) => return "refused".into() };
            let mut a = match db.db_map_u64("w") { Ok(m) => m, Err(_) => return "refused".into() };
            let _ = a.put(&7u64, b"x");
            let _ = a.flush();
            match db.db_map_vu64("w") {
                Err(_) => "refused".into(),
                Ok(b) => {
                    let _ = a.put(&8u64, b"y");
                    match b.len() { Ok(2) => "aliased".into(), _ => "two-states".into() }
                }
            }
        });
        r.unwrap_or_else(|_| "refused".into())
    })
    .join()
    .unwrap_or_else(|_| "refused".into());
    out.push(("C11:same-name-u64-vu64".to_string(), "db_map_u64(\"w\"), put + flush through it, then db_map_vu64(\"w\") is accepted; a further put through the first handle is not seen by the second (len() stays 1): two handles of one name with two states (both over w.htx/w.key/w.val)".to_string(), r1));
    let d2 = fresh_dir(&ctx.scratch, "alias_dot_slash");
    let r2 = std::thread::spawn(move || {
        let r = std::panic::catch_unwind(|| -> String {
            let db = match abyssiniandb::open_file(&d2) { Ok(d) => d, Err(_) => return "refused".into() };
            let mut a = match db.db_map_string("b") { Ok(m) => m, Err(_) => return "refused".into() };
            let _ = a.put("k", b"x");
            let _ = a.flush();
            match db.db_map_string("./b") {
                Err(_) => "refused".into(),
                Ok(b) => {
                    let _ = a.put("k2", b"y");
                    match b.len() { Ok(2) => "aliased".into(), _ => "two-states".into() }
                }
            }
        });
        r.unwrap_or_else(|_| "refused".into())
    })
    .join()
    .unwrap_or_else(|_| "refused".into());
    out.push(("C11:name-dot-slash".to_string(), "db_map_string(\"b\"), put + flush through it, then db_map_string(\"./b\") opens the same three files under another registry key; a further put through the first handle is not seen by the second (len() stays 1): two map names, one set of files, two states".to_string(), r2));
    out
}

/// C11, file naming: maps whose names share prefixes / contain dots / differ only after a dot must each
/// have their own three files `<name>.{key,val,htx}`, and updating one must not touch the files of the
/// others (judged without the model: per-map BTreeMap oracles and file hashes).
fn names_check(ctx: &Ctx, b: &mut Batch) {
    let mut rng = Rng::new(ctx.seed ^ fnv("names"));
    let name_sets: Vec<Vec<&str>> = vec![
        vec!["users.v1", "users.v2", "users"],
        vec!["a", "a.b", "a.b.c", "ab"],
        vec!["data.key", "data.val", "data"],
        vec!["x-1", "x_1", "x 1", "x.1"],
    ];
    for (si, names) in name_sets.iter().enumerate() {
        let dir = fresh_dir(&ctx.scratch, &format!("names_{}", si));
        let mut imp = crate::imp::Impl::new(&dir);
        let kts: Vec<Kt> = names.iter().map(|_| *rng.pick(&[Kt::Bytes, Kt::Str])).collect();
        let mut oracles: Vec<std::collections::BTreeMap<Vec<u8>, Vec<u8>>> = vec![Default::default(); names.len()];
        let mut text = String::new();
        let mut problem: Option<String> = None;
        let r = std::panic::catch_unwind(std::panic::AssertUnwindSafe(|| {
            for (i, n) in names.iter().enumerate() {
                imp.names.insert(i, n.to_string());
                if let Err(e) = imp.open(i, kts[i], &Params::buckets(8)) {
                    return Some(format!("map {:?} does not open: {:?}", n, e.kind()));
                }
            }
            let hash_files = |dir: &Path, stem: &str| -> Vec<(u64, u64)> {
                ["key", "val", "htx"].iter().map(|e| {
                    let d = std::fs::read(dir.join(format!("{}.{}", stem, e))).unwrap_or_default();
                    (d.len() as u64, fnv(&hex(&d)))
                }).collect()
            };
            for step in 0..60 {
                let i = rng.below(names.len() as u64) as usize;
                let _ = imp.open(i, kts[i], &Params::buckets(8));
                let k = format!("key{}", rng.below(12)).into_bytes();
                let before: Vec<Vec<(u64, u64)>> = names.iter().map(|n| hash_files(&dir, n)).collect();
                let op = if rng.chance(3, 4) {
                    let v = B::Pat(rng.below(60) as usize, step);
                    oracles[i].insert(k.clone(), v.bytes());
                    Op::Put(B::Hex(k.clone()), v)
                } else {
                    oracles[i].remove(&k);
                    Op::Del(B::Hex(k.clone()))
                };
                text.push_str(&format!("# on map {:?}: {}\n", names[i], op.text()));
                imp.exec(&op);
                imp.exec(&Op::DbSyncData);
                for (j, n) in names.iter().enumerate() {
                    let h = hash_files(&dir, n);
                    if h.iter().any(|x| x.0 == 0) {
                        return Some(format!("map {:?} has no file of its own ({}.key/.val/.htx): lengths {:?}", n, n, h.iter().map(|x| x.0).collect::<Vec<_>>()));
                    }
                    if j != i && h != before[j] && before[j].iter().all(|x| x.0 > 0) {
                        return Some(format!("step {}: an update of map {:?} changed the files of map {:?}", step, names[i], n));
                    }
                }
                // every map still holds exactly its own contents
                for (j, _) in names.iter().enumerate() {
                    let _ = imp.open(j, kts[j], &Params::buckets(8));
                    if imp.exec(&Op::Len) != oracles[j].len().to_string() {
                        return Some(format!("step {}: map {:?} has len {} instead of {}", step, names[j], imp.exec(&Op::Len), oracles[j].len()));
                    }
                }
            }
            // reopen everything and compare contents
            imp.close_all();
            if let Err(e) = imp.reopen_all() {
                return Some(format!("reopen: {:?}", e.kind()));
            }
            for (j, n) in names.iter().enumerate() {
                let _ = imp.open(j, kts[j], &Params::buckets(8));
                for (k, v) in oracles[j].iter() {
                    let g = imp.exec(&Op::Get(B::Hex(k.clone())));
                    if g != repr_opt(&Some(v.clone())) {
                        return Some(format!("after reopen: map {:?} get {} = {} but {} was stored", n, hex(k), g, brepr(v)));
                    }
                }
            }
            imp.close_all();
            None
        }));
        match r {
            Ok(p) => problem = p,
            Err(_) => problem = Some("a call panicked".into()),
        }
        std::mem::forget(imp);
        b.sequences += 1;
        b.ops += 60;
        if let Some(pr) = problem {
            if b.failures.len() < 5 {
                let path = ctx.replays.join(format!("{}-oracle-names{}.txt", ctx.prop, si));
                let _ = std::fs::write(&path, format!("# property={} facet=oracle (map names {:?} in one directory, key types {:?}, 8 buckets each)\n# {}\n{}", ctx.prop, names, kts.iter().map(|k| k.name()).collect::<Vec<_>>(), pr, text));
                b.failures.push(Failure { facet: "oracle".into(), replay: path.to_string_lossy().to_string(), detail: format!("maps {:?}: {}", names, pr) });
            }
        }
        let _ = std::fs::remove_dir_all(&dir);
    }
}

/// C15: read-only sessions leave the files byte-for-byte unchanged
pub fn scen_readonly(ctx: &Ctx) -> i32 {
    let count = sizes(ctx, 50, 500);
    let mut rng = Rng::new(ctx.seed ^ fnv("readonly"));
    let mut seqs = Vec::new();
    for i in 0..count {
        let mut r = rng.fork(i as u64);
        let kt = *r.pick(&Kt::ALL);
        let n = *r.pick(&[1u64, 2, 4, 8, 16, 64, 128, 256, 1024, 65536]);
        let mut p = Profile::basic(kt, n, r.range(0, 60) as usize);
        p.w = [50, 0, 15, 0, 0, 0, 0, 0, 0, 0, 0, 2, 0, 0];
        p.val_mode = *r.pick(&[1u8, 2, 3]);
        p.pool = r.range(1, 25) as usize;
        let mut s = gen_history(&mut r, &p);
        s.ops.push(Op::Cmp(1));
        let mut q = Profile::basic(kt, n, r.range(10, 60) as usize);
        q.w = [0, 25, 0, 10, 5, 3, 12, 6, 8, 1, 0, 0, 4, 2];
        q.pool = p.pool + 3;
        let ro = gen_history(&mut r, &q);
        // parameters given when an existing map is opened again are ignored (C07): the read-only session
        // of every second sequence starts after such an open, with a larger or smaller table size asked for
        let other = |r: &mut Rng| match r.below(5) {
            0 => p.params,
            1 => Params::buckets(*r.pick(&[4096u64, 65536, 1 << 20])),
            2 => Params::buckets(*r.pick(&[1u64, 2, 3, 8])),
            3 => Params { bk: Bk::Default, ..Params::buckets(1) },
            _ => Params { bk: Bk::Cap(*r.pick(&[1u64, 100, 50_000])), ..Params::buckets(1) },
        };
        if i % 2 == 1 {
            let op = Op::Reopen(other(&mut r));
            s.ops.push(op);
            s.ops.push(Op::Cmp(1));
        }
        for o in ro.ops {
            match o {
                Op::Reopen(_) => {
                    let op = Op::Reopen(other(&mut r));
                    s.ops.push(op)
                }
                o => s.ops.push(o),
            }
            if r.chance(1, 10) {
                let ks: Vec<B> = (0..r.below(6)).map(|_| gen_key(&mut r, kt, 0)).collect();
                s.ops.push(Op::BulkGet(ks));
            }
        }
        s.ops.push(Op::Cmp(1));
        seqs.push(s);
    }
    // directed: traversals of sparse small tables (the bitmap scan reads in 64-bucket strides near the end
    // of the table file: a seek past the end would extend the file), incl. empty maps
    let mut di = 0u64;
    for n in [16u64, 32, 64, 128, 256, 1024, 2048, 4096] {
        let mut targets: Vec<Option<u64>> = vec![None];
        for t in [7u64, 15, 23, 31, 39, 47, 55, 63, n / 2 - 1, n - 9, n - 1, 0] {
            if t < n {
                targets.push(Some(t));
            }
        }
        for t in targets {
            di += 1;
            let mut r = rng.fork(90_000 + di);
            let kt = if di % 2 == 0 { Kt::Bytes } else { Kt::Str };
            let mut ops = Vec::new();
            if let Some(t) = t {
                for k in keys_for_bucket(n, t, 1, di) {
                    ops.push(Op::Put(B::Hex(k), gen_val(&mut r, 0)));
                }
                if r.chance(1, 2) && t > 0 {
                    for k in keys_for_bucket(n, r.below(t), 1, di + 7) {
                        ops.push(Op::Put(B::Hex(k), gen_val(&mut r, 0)));
                    }
                }
            }
            ops.push(Op::Cmp(1));
            for f in 0..6 {
                ops.push(Op::Iter(f));
            }
            ops.push(Op::Len);
            ops.push(Op::Stats);
            ops.push(Op::Cmp(1));
            seqs.push(Seq { kt, params: Params::buckets(n), ops });
        }
    }
    let b = run_batch(ctx, seqs, |_| RunOpts { cmp_end: false, ro_check: true, ..Default::default() }, &["ro-bytes", "bytes", "api", "oracle", "trace"], "readonly");
    finish(ctx, "readonly", &b, vec![])
}

/// the history with read-only calls spliced in (lookups mostly of keys the history uses: of the key of the next
/// update, of other keys of the history, of random keys)
fn splice_reads(r: &mut Rng, a: &Seq) -> Seq {
    let kt = a.kt;
    let used: Vec<B> = a.ops.iter().filter_map(|o| match o {
        Op::Put(k, _) | Op::Del(k) | Op::PutString(k, _) | Op::DelString(k) => Some(k.clone()),
        _ => None,
    }).collect();
    let mut ops = Vec::new();
    for (j, o) in a.ops.iter().enumerate() {
        ops.push(o.clone());
        if r.chance(1, 3) {
            let next_key = a.ops.get(j + 1).and_then(|o| match o {
                Op::Put(k, _) | Op::Del(k) => Some(k.clone()),
                _ => None,
            });
            let mut key = |r: &mut Rng| match r.below(4) {
                0 => gen_key(r, kt, 0),
                1 if next_key.is_some() => next_key.clone().unwrap(),
                _ if !used.is_empty() => r.pick(&used).clone(),
                _ => gen_key(r, kt, 0),
            };
            ops.push(match r.below(6) {
                0 => Op::Get(key(r)),
                1 => Op::Len,
                2 => Op::Iter(r.below(7) as u8),
                3 => Op::Stats,
                4 => Op::Inc(key(r)),
                _ => Op::ReadFill,
            });
        }
    }
    Seq { kt, params: a.params, ops }
}

/// C18: same updates, different process / directory / interleaved reads => identical files
pub fn scen_determ(ctx: &Ctx) -> i32 {
    let count = sizes(ctx, 40, 400);
    let mut rng = Rng::new(ctx.seed ^ fnv("determ"));
    let mut b = Batch::default();
    let jobs: Vec<(Seq, Seq)> = (0..count)
        .map(|i| {
            let mut r = rng.fork(i as u64);
            let kt = *r.pick(&Kt::ALL);
            let n = *r.pick(&[1u64, 4, 16, 64, 256]);
            let mut p = Profile::basic(kt, n, 90);
            p.w = [50, 0, 18, 0, 0, 0, 0, 0, 1, 0, 0, 3, 0, 0];
            p.val_mode = *r.pick(&[1u8, 2, 3]);
            p.pool = r.range(2, 25) as usize;
            let a = gen_history(&mut r, &p);
            // second run: read-only calls spliced in
            let bseq = splice_reads(&mut r, &a);
            (a, bseq)
        })
        .collect();
    // directed: keys with one and the same 64-bit hash, lookups in front of updates of another key
    let mut jobs = jobs;
    for i in 0..(if ctx.tier_thorough { 40 } else { 8 }) {
        let mut r = rng.fork(70_000 + i as u64);
        let a = gen_collide(&mut r, if i % 2 == 0 { Kt::Bytes } else { Kt::Str }, 60);
        // run A: the updates alone
        let upd = Seq { kt: a.kt, params: a.params, ops: a.ops.iter().filter(|o| matches!(o, Op::Put(..) | Op::Del(..))).cloned().collect() };
        jobs.push((upd, a));
    }
    // directed: bulk_put batches that name a pair twice (the same key with the same value, so the outcome does not
    // depend on the order in which the sort leaves equal keys): run A in this process, run B in a child process
    for i in 0..(if ctx.tier_thorough { 24 } else { 6 }) {
        let mut r = rng.fork(71_000 + i as u64);
        let kt = *r.pick(&Kt::ALL);
        let mut ops = Vec::new();
        for round in 0..3 {
            let n = r.range(20, 60) as usize;
            let mut kvs: Vec<(B, B)> = Vec::new();
            while kvs.len() < n {
                let k = gen_key(&mut r, kt, 0);
                if !kvs.iter().any(|x| x.0.bytes() == k.bytes()) {
                    kvs.push((k, B::Pat(r.range(1, 200) as usize, round * 100 + kvs.len() as u64)));
                }
            }
            for _ in 0..r.range(1, 3) {
                let dup = r.pick(&kvs).clone();
                let at = r.below(kvs.len() as u64 + 1) as usize;
                kvs.insert(at, dup);
            }
            ops.push(Op::BulkPut(kvs));
            ops.push(Op::Len);
        }
        let a = Seq { kt, params: Params::buckets(*r.pick(&[8u64, 64, 1024])), ops };
        let bseq = splice_reads(&mut r, &a);
        jobs.push((a, bseq));
    }
    let results: Mutex<Vec<(usize, Option<String>, Vec<Diff>, Cov, usize)>> = Mutex::new(Vec::new());
    let next = Mutex::new(0usize);
    std::thread::scope(|sc| {
        for t in 0..ctx.threads.min(jobs.len().max(1)) {
            let jobs = &jobs;
            let results = &results;
            let next = &next;
            sc.spawn(move || loop {
                let i = {
                    let mut g = next.lock().unwrap();
                    let i = *g;
                    *g += 1;
                    i
                };
                if i >= jobs.len() {
                    break;
                }
                let (a, bs) = &jobs[i];
                let da = fresh_dir(&ctx.scratch, &format!("detA_{}_{}", t, i));
                let db = fresh_dir(&ctx.scratch, &format!("detB_{}_{}", t, i));
                let mut d1 = Driver::spawn(&ctx.driver).ok();
                let o1 = run_seq(a, &da, &mut d1, &RunOpts { stop_first: false, ..Default::default() });
                let mut d2 = Driver::spawn(&ctx.driver).ok();
                let o2 = run_seq(bs, &db, &mut d2, &RunOpts { stop_first: false, child: true, ..Default::default() });
                let mut differ = None;
                for e in ["htx", "key", "val"] {
                    let fa = std::fs::read(da.join(format!("m0.{}", e))).unwrap_or_default();
                    let fb = std::fs::read(db.join(format!("m0.{}", e))).unwrap_or_default();
                    if fa != fb {
                        let pos = fa.iter().zip(fb.iter()).position(|(x, y)| x != y).unwrap_or(fa.len().min(fb.len()));
                        differ = Some(format!("m0.{} differs between the two runs at byte {} (lengths {} / {})", e, pos, fa.len(), fb.len()));
                        break;
                    }
                }
                let mut diffs: Vec<Diff> = o1.diffs.clone();
                diffs.extend(o2.diffs.clone());
                let mut cov = o1.cov.clone();
                cov.merge(&o2.cov);
                let _ = std::fs::remove_dir_all(&da);
                let _ = std::fs::remove_dir_all(&db);
                results.lock().unwrap().push((i, differ, diffs, cov, o1.steps + o2.steps));
            });
        }
    });
    // implementation-side verdicts (the two runs differ) first, model disagreements after them
    let mut res = results.into_inner().unwrap();
    res.sort_by_key(|r| (r.1.is_none(), r.0));
    for (i, differ, diffs, cov, steps) in res {
        b.sequences += 2;
        b.ops += steps as u64;
        b.cov.merge(&cov);
        b.distinct.insert(fnv(&jobs[i].0.text()));
        if b.samples.is_empty() {
            b.samples.push(jobs[i].1.text().chars().take(1500).collect());
        }
        if let Some(d) = differ {
            if b.failures.len() < 3 {
                let dd = vec![Diff { idx: 0, facet: "determ", op: "compare the files of run A (this process) and run B (child process, read-only calls spliced in)".into(), got: d.clone(), want: "byte-identical files".into() }];
                let mut both = jobs[i].1.clone();
                both.ops.insert(0, Op::Len);
                let path = write_replay(ctx, &jobs[i].1, "determ", &dd, "(run the update ops alone in one process and this whole sequence in another; compare the files)");
                b.failures.push(Failure { facet: "determ".into(), replay: path, detail: d });
            }
        } else if let Some(d) = diffs.iter().find(|d| ["bytes", "api", "oracle"].contains(&d.facet)) {
            if b.failures.len() < 3 {
                let path = write_replay(ctx, &jobs[i].1, d.facet, &[d.clone()], "");
                b.failures.push(Failure { facet: d.facet.to_string(), replay: path, detail: format!("{} | observed: {} | expected: {}", d.op, d.got, d.want) });
            }
        }
    }
    finish(ctx, "determ", &b, vec![])
}

// ------------------------------------------------------------------------------------
// F_gen: the generated Lean functions against the crate's own compiled functions
// ------------------------------------------------------------------------------------
fn bp(f: impl Fn(u64) -> (u64, u64), a: u64, b: u64) -> String {
    let mut out = String::new();
    let mut last = (0u64, 0u64);
    let mut first = true;
    for i in a..b {
        let v = f(i);
        if first || v != last {
            out.push_str(&format!("{}:{},{};", i, v.0, v.1));
            last = v;
            first = false;
        }
    }
    out
}

struct GenCheck {
    evaluations: u64,
    requests: u64,
    mismatches: Vec<String>,
    samples: Vec<String>,
}

fn gen_compare(d: &mut Driver, g: &mut GenCheck, req: String, want: String, points: u64) {
    let got = d.ask(&req);
    g.requests += 1;
    g.evaluations += points;
    if g.samples.len() < 6 {
        g.samples.push(format!("{} => {}", req, got.chars().take(80).collect::<String>()));
    }
    if got != want && g.mismatches.len() < 5 {
        // first differing breakpoint
        let gi: Vec<&str> = got.split(';').collect();
        let wi: Vec<&str> = want.split(';').collect();
        let k = gi.iter().zip(wi.iter()).position(|(a, b)| a != b).unwrap_or(gi.len().min(wi.len()));
        g.mismatches.push(format!("{} : model {:?} / code {:?}", req, gi.get(k).unwrap_or(&"<end>"), wi.get(k).unwrap_or(&"<end>")));
    }
}

fn enc_len(v: u64) -> u64 {
    // vu64 format table: 7 bits per byte up to 8 bytes, 9 bytes beyond 2^56
    let mut l = 1;
    while l < 9 && v >= 1u64 << (7 * l) {
        l += 1;
    }
    l
}

/// independent check of the crate's slot choice (layout-probe hook): the record encoded per the
/// documented layout must fit the slot the crate reserves for it. First violation is recorded.
static FIT_VIOLATION: Mutex<Option<String>> = Mutex::new(None);

fn fit_value(len: u64, slot: u64) {
    let need = enc_len(slot / 8) + enc_len(len) + len;
    if need > slot || slot % 8 != 0 {
        let mut g = FIT_VIOLATION.lock().unwrap();
        if g.is_none() {
            *g = Some(format!("value of {} bytes: the crate reserves a slot of {} bytes, the record (size field {} + length field {} + payload) needs {}", len, slot, enc_len(slot / 8), enc_len(len), need));
        }
    }
}

fn fit_key(klen: u64, vo: u64, nx: u64, slot: u64) {
    let need = enc_len(slot / 8) + enc_len(klen) + klen + enc_len(vo / 8) + enc_len(nx / 8);
    if need > slot || slot % 8 != 0 {
        let mut g = FIT_VIOLATION.lock().unwrap();
        if g.is_none() {
            *g = Some(format!("key of {} bytes, value offset {}, next offset {}: the crate reserves a slot of {} bytes, the record needs {}", klen, vo, nx, slot, need));
        }
    }
}

/// C09 (and the `Gen` part of C10/C12): sizing functions, tables, hash, conversions
pub fn scen_sizes(ctx: &Ctx) -> i32 {
    use abyssiniandb::filedb::verif as V;
    let t0 = std::time::Instant::now();
    let thorough = ctx.tier_thorough;
    // ---- value / key slot functions over ranges (breakpoint encoding), in parallel
    let mut ranges: Vec<(u64, u64)> = Vec::new();
    if thorough {
        let step = 1u64 << 20;
        let mut a = 0;
        while a < (1 << 24) + 4096 {
            ranges.push((a, a + step));
            a += step;
        }
    } else {
        ranges.push((0, 70_000));
        for k in 7..=24 {
            let c = 1u64 << k;
            ranges.push((c.saturating_sub(300), c + 300));
        }
        for c in [131_072u64 * 8, 16384 * 8 - 8, 2_097_152 * 8] {
            ranges.push((c.saturating_sub(200), c + 200));
        }
    }
    // (every pair of offset-width classes gets at least key lengths 0..420)
    let offs: Vec<u64> = vec![0, 192, 1016, 1024, 16376, 16384, 131_064, 131_072, (1 << 21) - 8, 1 << 21, 1 << 24, (1 << 28) - 8, 1 << 28, 1 << 35, 1 << 42, 1 << 49, 1 << 56, (1u64 << 63) - 8];
    let results: Mutex<Vec<GenCheck>> = Mutex::new(Vec::new());
    let next = Mutex::new(0usize);
    let mut jobs: Vec<(String, u64, u64, u64, u64)> = Vec::new(); // kind, a, b, vo, nx
    for (a, b) in &ranges {
        jobs.push(("v".into(), *a, *b, 0, 0));
    }
    let kmax = if thorough { 1u64 << 16 } else { 3000 };
    for (i, vo) in offs.iter().enumerate() {
        for (j, nx) in offs.iter().enumerate() {
            // thorough: all key lengths 0..2^16 for every offset-width class on the diagonal and one
            // off-diagonal neighbour, 0..3040 + the window around 65536 for all 18x18 pairs
            if !thorough && !((i + j) % 3 == 0 || i == j) {
                jobs.push(("k".into(), 0, 420, *vo, *nx));
            }
            let full = thorough && (i == j || i + 1 == j || j + 1 == i);
            if full {
                jobs.push(("k".into(), 0, kmax + 40, *vo, *nx));
            } else if thorough || (i + j) % 3 == 0 || i == j {
                jobs.push(("k".into(), 0, 3040, *vo, *nx));
                if thorough {
                    jobs.push(("k".into(), 65_400, 65_700, *vo, *nx));
                }
                if !thorough {
                    jobs.push(("k".into(), 65_500, 65_600, *vo, *nx));
                }
            }
        }
    }
    std::thread::scope(|sc| {
        for _ in 0..ctx.threads {
            let jobs = &jobs;
            let results = &results;
            let next = &next;
            sc.spawn(move || {
                let Ok(mut d) = Driver::spawn(&ctx.driver) else { return };
                let mut g = GenCheck { evaluations: 0, requests: 0, mismatches: vec![], samples: vec![] };
                loop {
                    let i = {
                        let mut n = next.lock().unwrap();
                        let i = *n;
                        *n += 1;
                        i
                    };
                    if i >= jobs.len() {
                        break;
                    }
                    let (kind, a, b, vo, nx) = &jobs[i];
                    if kind == "v" {
                        let want = bp(
                            |l| {
                                let (est, slot) = V::value_slot(l as usize);
                                fit_value(l, slot as u64);
                                ((est as u64).wrapping_sub(l), slot as u64)
                            },
                            *a,
                            *b,
                        );
                        gen_compare(&mut d, &mut g, format!("gen vslotrange {} {}", a, b), want, b - a);
                    } else {
                        let want = bp(
                            |l| {
                                let (est, slot) = V::key_slot(l as usize, *vo, *nx);
                                fit_key(l, *vo, *nx, slot as u64);
                                ((est as u64).wrapping_sub(l), slot as u64)
                            },
                            *a,
                            *b,
                        );
                        gen_compare(&mut d, &mut g, format!("gen kslotrange {} {} {} {}", a, b, vo, nx), want, b - a);
                    }
                }
                results.lock().unwrap().push(g);
            });
        }
    });
    let mut g = GenCheck { evaluations: 0, requests: 0, mismatches: vec![], samples: vec![] };
    for r in results.into_inner().unwrap() {
        g.evaluations += r.evaluations;
        g.requests += r.requests;
        g.mismatches.extend(r.mismatches);
        if g.samples.len() < 6 {
            g.samples.extend(r.samples.into_iter().take(2));
        }
    }
    // ---- the remaining generated functions, one driver
    if let Ok(mut d) = Driver::spawn(&ctx.driver) {
        let hi = if thorough { 2_000_000 } else { 200_000 };
        let want = bp(|x| (V::key_roundup(x as u32) as u64, V::value_roundup(x as u32) as u64), 1, hi);
        gen_compare(&mut d, &mut g, format!("gen krounduprange 1 {}", hi), want, hi - 1);
        let want = bp(|x| (V::capacity_to_buckets_size(x), x.next_power_of_two()), 1, 100_000);
        gen_compare(&mut d, &mut g, "gen caprange 1 100000".into(), want, 99_999);
        // (the crate debug-asserts that a size outside the table is above 896)
        for sz in CLASSES.iter().map(|c| *c as u32).chain(897..1400u32).chain([1024 * 5, 1 << 20, u32::MAX / 2]) {
            let (o, l) = V::key_free_list_offset(sz);
            gen_compare(&mut d, &mut g, format!("gen kfree {}", sz), format!("{} {}", o, l), 1);
            let (o, l) = V::value_free_list_offset(sz);
            gen_compare(&mut d, &mut g, format!("gen vfree {}", sz), format!("{} {}", o, l), 1);
        }
        gen_compare(&mut d, &mut g, "gen cap 0".into(), "panic".into(), 1);
        for k in 0..64 {
            for dlt in [0u64, 1] {
                let c = (1u64 << k).wrapping_sub(dlt).max(1);
                if c < 1 << 60 {
                    gen_compare(&mut d, &mut g, format!("gen cap {}", c), V::capacity_to_buckets_size(c).to_string(), 1);
                }
            }
        }
        let mut rng = Rng::new(ctx.seed ^ 0x5153);
        let n = if thorough { 200_000 } else { 20_000 };
        for i in 0..n {
            let x = if i < 64 { 1u64 << i } else if i < 130 { (1u64 << (i - 64).min(63)).wrapping_sub(1) } else { rng.next() };
            gen_compare(&mut d, &mut g, format!("gen xs {}", x), V::xorshift64s(x).to_string(), 1);
        }
        // hash_value of the public key types against the model's hash
        use abyssiniandb::{DbBytes, DbString};
        for i in 0..(if thorough { 50_000 } else { 6_000 }) {
            let l = match i % 7 { 0 => i % 40, 1 => 7, 2 => 8, 3 => 9, 4 => 16, 5 => (i % 300) as usize + 17, _ => rng.below(70) as usize };
            let k: Vec<u8> = (0..l).map(|_| rng.below(256) as u8).collect();
            use abyssiniandb::HashValue;
            let h1 = DbBytes::from(k.as_slice()).hash_value();
            let h2 = DbString::from(k.as_slice()).hash_value();
            let h3 = abyssiniandb::DbU64::from(k.as_slice()).hash_value();
            let h4 = abyssiniandb::DbI64::from(k.as_slice()).hash_value();
            let h5 = abyssiniandb::DbVu64::from(k.as_slice()).hash_value();
            let want = if h1 == h2 && h2 == h3 && h3 == h4 && h4 == h5 { h1.to_string() } else { format!("key types disagree: {} {} {} {} {}", h1, h2, h3, h4, h5) };
            gen_compare(&mut d, &mut g, format!("gen hash x{}", hex(&k)), want, 1);
        }
        for kt in Kt::ALL {
            gen_compare(&mut d, &mut g, format!("gen sig {}", kt.name()), hex(&sig_of_impl(kt)), 1);
        }
    }
    let wall = t0.elapsed().as_secs_f64();
    let fitv = FIT_VIOLATION.lock().unwrap().clone();
    let ok = g.mismatches.is_empty() && fitv.is_none();
    let mut failures = Vec::new();
    if let Some(v) = &fitv {
        let path = ctx.replays.join(format!("{}-oracle-fit-{:016x}.txt", ctx.prop, fnv(v)));
        let _ = std::fs::write(&path, format!("# property={} facet=oracle: the crate's own slot-size decision (layout-probe hook abyssiniandb::filedb::verif::value_slot / key_slot) against the record length computed from the documented layout\n# {}\n", ctx.prop, v));
        failures.push(obj(&[("facet", esc("oracle")), ("replay", esc(&path.to_string_lossy())), ("detail", esc(v))]));
    }
    if !g.mismatches.is_empty() {
        let path = ctx.replays.join(format!("{}-gen-{:016x}.txt", ctx.prop, fnv(&g.mismatches.join("|"))));
        let _ = std::fs::write(&path, format!("# property={} facet=gen: generated Lean functions vs the crate's compiled functions (layout-probe hook)\n{}\n", ctx.prop, g.mismatches.join("\n")));
        failures.push(obj(&[("facet", esc("gen")), ("replay", esc(&path.to_string_lossy())), ("detail", esc(&g.mismatches[0]))]));
    }
    println!(
        "{}",
        obj(&[
            ("scenario", esc("sizes")),
            ("property", esc(&ctx.prop)),
            ("seed", ctx.seed.to_string()),
            ("sequences", g.requests.to_string()),
            ("distinct_sequences", g.requests.to_string()),
            ("ops", g.evaluations.to_string()),
            ("gen_evaluations", g.evaluations.to_string()),
            ("gen_requests", g.requests.to_string()),
            ("exhaustive_value_lengths", if thorough { "true".into() } else { "false".into() }),
            ("samples", arr(&g.samples.iter().map(|s| esc(s)).collect::<Vec<_>>())),
            ("failures", arr(&failures)),
            ("wall_s", format!("{:.1}", wall)),
        ])
    );
    if ok { 0 } else { 1 }
}

/// signature each key type declares (through the public trait)
pub fn sig_of_impl(kt: Kt) -> [u8; 8] {
    use abyssiniandb::DbMapKeyType;
    match kt {
        Kt::Str => abyssiniandb::DbString::signature(),
        Kt::Bytes => abyssiniandb::DbBytes::signature(),
        Kt::U64 => abyssiniandb::DbU64::signature(),
        Kt::I64 => abyssiniandb::DbI64::signature(),
        Kt::Vu64 => abyssiniandb::DbVu64::signature(),
    }
}

/// C09 end-to-end: every length between two sentinel entries, files compared byte for byte
pub fn scen_sentinel(ctx: &Ctx) -> i32 {
    let thorough = ctx.tier_thorough;
    let mut lens: Vec<usize> = Vec::new();
    if thorough {
        lens.extend(0..4200);
    } else {
        lens.extend(0..1300);
        lens.extend((1300..4200).step_by(7));
        lens.extend(4080..4110);
    }
    for c in [16384usize, 131_072, 1_048_576] {
        let w = if thorough { 12 } else { 4 };
        lens.extend((c - w)..(c + w));
    }
    let mut seqs = Vec::new();
    let chunk = if thorough { 70 } else { 60 };
    for (ci, part) in lens.chunks(chunk).enumerate() {
        let kt = Kt::ALL[ci % 5];
        let mk = |i: u64| -> B {
            match kt {
                Kt::U64 | Kt::I64 => B::Hex(i.to_le_bytes().to_vec()),
                Kt::Vu64 => B::Hex(crate::imp::vu64_encode(i)),
                _ => B::Hex(format!("key{}", i).into_bytes()),
            }
        };
        let (a, x, z) = (mk(1), mk(2), mk(3));
        let mut ops = vec![Op::Put(a.clone(), B::Pat(10, 1)), Op::Put(x.clone(), B::Pat(part[0], 2)), Op::Put(z.clone(), B::Pat(10, 3))];
        for (j, l) in part.iter().enumerate() {
            ops.push(Op::Put(x.clone(), B::Pat(*l, j as u64)));
            ops.push(Op::Get(x.clone()));
            ops.push(Op::Get(a.clone()));
            ops.push(Op::Get(z.clone()));
            // one byte shorter / longer across the boundary
            if j % 5 == 0 && *l > 0 {
                ops.push(Op::Put(x.clone(), B::Pat(*l - 1, 9)));
                ops.push(Op::Put(x.clone(), B::Pat(*l + 1, 8)));
                ops.push(Op::Get(x.clone()));
            }
        }
        // key lengths too
        if ci % 5 == 1 || ci % 5 == 0 {
            for kl in (0..260).chain([1000, 1016, 1017, 1018, 1019, 1020, 1021, 4096, 65_535, 65_536]) {
                if matches!(kt, Kt::Str | Kt::Bytes) {
                    ops.push(Op::Put(B::Pat(kl, 77), B::Pat(kl % 50, 5)));
                    ops.push(Op::Get(B::Pat(kl, 77)));
                }
            }
            ops.push(Op::Get(a.clone()));
            ops.push(Op::Get(z.clone()));
        }
        seqs.push(Seq { kt, params: Params::buckets(*[1u64, 4, 64].get(ci % 3).unwrap()), ops });
    }
    // key records that exactly fill their slot, value file beyond 16 KiB / 128 KiB / 2 MiB (offset-width
    // boundaries of the raw and of the scaled offset): rewriting such a record must not touch its neighbour
    let mut rng = Rng::new(ctx.seed ^ fnv("sentinel"));
    for i in 0..sizes(ctx, 24, 200) {
        let mut r = rng.fork(i as u64);
        let (lo, hi) = *r.pick(&[(16_400u64, 17_500u64), (131_300, 140_000), (131_300, 140_000), (2_097_300, 2_100_000)]);
        let ckt = if r.chance(1, 2) { Kt::Bytes } else { Kt::Str };
        seqs.push(gen_cascade_infl(&mut r, ckt, 60, lo, hi));
        if let Ok(d) = std::env::var("ABYSS_DUMP") {
            let _ = std::fs::write(format!("{}/casc_{}.txt", d, i), seqs.last().unwrap().text());
        }
    }
    let b = run_batch(ctx, seqs, |_| RunOpts { cmp_every: Some(1), cmp_end: true, decoder: true, ..Default::default() }, &["bytes", "api", "oracle", "decoder"], "sentinel");
    finish(ctx, "sentinel", &b, vec![])
}

/// C10: typed keys — conversions and typed maps
pub fn scen_keys(ctx: &Ctx) -> i32 {
    let thorough = ctx.tier_thorough;
    let mut g = GenCheck { evaluations: 0, requests: 0, mismatches: vec![], samples: vec![] };
    let mut rng = Rng::new(ctx.seed ^ fnv("keys"));
    if let Ok(mut d) = Driver::spawn(&ctx.driver) {
        let n = if thorough { 1_000_000 } else { 30_000 };
        let mut xs: Vec<u64> = Vec::new();
        for k in 0..64 {
            for dlt in [-1i64, 0, 1] {
                xs.push((1u64 << k).wrapping_add(dlt as u64));
            }
        }
        for k in 1..10 {
            for dlt in [-1i64, 0, 1] {
                xs.push(if 7 * k >= 64 { u64::MAX } else { 1u64 << (7 * k) }.wrapping_add(dlt as u64));
            }
        }
        xs.extend([0, 1, u64::MAX, u64::MAX - 1, i64::MAX as u64, i64::MIN as u64, (i64::MIN + 1) as u64]);
        while xs.len() < n {
            xs.push(rng.next() >> rng.below(64));
        }
        for x in xs {
            use abyssiniandb::{DbI64, DbMapKeyType, DbU64, DbVu64};
            // u64
            let a = DbU64::from(x);
            let b = DbU64::from(&x);
            let back = u64::from(&a);
            let back2 = u64::from(a.clone());
            let same = a.as_bytes() == b.as_bytes() && back == back2;
            gen_compare(&mut d, &mut g, format!("gen u64 {}", x), format!("{} {}{}", hex(a.as_bytes()), back, if same { "" } else { " BYREF-MISMATCH" }), 1);
            // i64
            let xi = x as i64;
            let a = DbI64::from(xi);
            let b = DbI64::from(&xi);
            let back = i64::from(&a);
            let back2 = i64::from(a.clone());
            let same = a.as_bytes() == b.as_bytes() && back == back2;
            gen_compare(&mut d, &mut g, format!("gen i64 {}", xi), format!("{} {}{}", hex(a.as_bytes()), back, if same { "" } else { " BYREF-MISMATCH" }), 1);
            // vu64
            let a = DbVu64::from(x);
            let b = DbVu64::from(&x);
            let back = u64::from(&a);
            let back2 = u64::from(a.clone());
            let same = a.as_bytes() == b.as_bytes() && back == back2;
            gen_compare(&mut d, &mut g, format!("gen vu64 {}", x), format!("{} {}{}", hex(a.as_bytes()), back, if same { "" } else { " BYREF-MISMATCH" }), 1);
        }
    }
    // the compiled `cmp_u8` of the five key types against the generated `Gen.cmpU8*`, and the big-endian
    // `From<u64>` of the byte/string keys: pairs that are equal, differ in one byte, are prefixes of each other
    if let Ok(mut d) = Driver::spawn(&ctx.driver) {
        use abyssiniandb::{DbBytes, DbI64, DbMapKeyType, DbString, DbU64, DbVu64};
        let ord = |o: std::cmp::Ordering| match o {
            std::cmp::Ordering::Less => "lt",
            std::cmp::Ordering::Equal => "eq",
            std::cmp::Ordering::Greater => "gt",
        };
        let n = if thorough { 40_000 } else { 3_000 };
        for i in 0..n {
            let mut r = rng.fork(500_000 + i as u64);
            let la = r.below(12) as usize;
            let a: Vec<u8> = (0..la).map(|_| *r.pick(&[0u8, 1, 0x7f, 0x80, 0xff, b'a'])).collect();
            let b: Vec<u8> = match r.below(5) {
                0 => a.clone(),
                1 => {
                    let mut b = a.clone();
                    if !b.is_empty() {
                        let j = r.below(b.len() as u64) as usize;
                        b[j] ^= 1 << r.below(8);
                    }
                    b
                }
                2 => a[..r.below(la as u64 + 1) as usize].to_vec(),
                3 => {
                    let mut b = a.clone();
                    b.push(r.below(256) as u8);
                    b
                }
                _ => (0..r.below(12)).map(|_| r.below(256) as u8).collect(),
            };
            let (ha, hb) = (format!("x{}", hex(&a)), format!("x{}", hex(&b)));
            gen_compare(&mut d, &mut g, format!("gen cmp string {} {}", ha, hb), ord(DbString::from(a.as_slice()).cmp_u8(&b)).to_string(), 1);
            gen_compare(&mut d, &mut g, format!("gen cmp bytes {} {}", ha, hb), ord(DbBytes::from(a.as_slice()).cmp_u8(&b)).to_string(), 1);
            gen_compare(&mut d, &mut g, format!("gen cmp u64 {} {}", ha, hb), ord(DbU64::from(a.as_slice()).cmp_u8(&b)).to_string(), 1);
            gen_compare(&mut d, &mut g, format!("gen cmp i64 {} {}", ha, hb), ord(DbI64::from(a.as_slice()).cmp_u8(&b)).to_string(), 1);
            // integer view of keys of any length (shorter than 8: zero extended; longer: the first 8 bytes)
            // (a conversion of the crate that panics is an answer like any other: "panic")
            let guard = |f: &dyn Fn() -> String| std::panic::catch_unwind(std::panic::AssertUnwindSafe(f)).unwrap_or_else(|_| "panic".to_string());
            gen_compare(&mut d, &mut g, format!("gen u64of {}", hb), guard(&|| u64::from(&DbU64::from(b.as_slice())).to_string()), 1);
            gen_compare(&mut d, &mut g, format!("gen i64of {}", hb), guard(&|| i64::from(&DbI64::from(b.as_slice())).to_string()), 1);
            // vu64: integers (cmp_u8 decodes; malformed bytes panic, which the model answers with "panic")
            let x = int_boundaries(&mut r);
            let y = match r.below(4) {
                0 => x,
                1 => x ^ (1u64 << r.below(64)),
                2 => x.wrapping_add(1),
                _ => int_boundaries(&mut r),
            };
            let (ex, ey) = (crate::imp::vu64_encode(x), crate::imp::vu64_encode(y));
            gen_compare(&mut d, &mut g, format!("gen cmp vu64 x{} x{}", hex(&ex), hex(&ey)), ord(DbVu64::from(x).cmp_u8(&ey)).to_string(), 1);
            gen_compare(&mut d, &mut g, format!("gen u64be bytes {}", x), hex(DbBytes::from(x).as_bytes()), 1);
            gen_compare(&mut d, &mut g, format!("gen u64be string {}", x), hex(DbString::from(x).as_bytes()), 1);
        }
    }
    let mut failures: Vec<Failure> = Vec::new();
    if !g.mismatches.is_empty() {
        let path = ctx.replays.join(format!("{}-gen-{:016x}.txt", ctx.prop, fnv(&g.mismatches.join("|"))));
        let _ = std::fs::write(&path, format!("# property={} facet=gen: integer <-> key conversions, crate vs model\n{}\n", ctx.prop, g.mismatches.join("\n")));
        failures.push(Failure { facet: "gen".into(), replay: path.to_string_lossy().to_string(), detail: g.mismatches[0].clone() });
    }
    // typed maps and byte keys that are prefixes of each other / contain NULs / are not UTF-8
    let mut seqs = Vec::new();
    for i in 0..sizes(ctx, 50, 500) {
        let mut r = rng.fork(i as u64);
        let kt = *r.pick(&[Kt::U64, Kt::I64, Kt::Vu64, Kt::Str, Kt::Bytes]);
        let n = *r.pick(&[1u64, 2, 8, 64, 256]);
        let mut p = Profile::basic(kt, n, 120);
        p.w = [40, 15, 12, 5, 2, 0, 8, 0, 0, 1, 0, 4, 0, 0];
        p.val_mode = 0;
        p.pool = r.range(3, 40) as usize;
        let mut s = gen_history(&mut r, &p);
        if matches!(kt, Kt::Str | Kt::Bytes) {
            // prefixes, NULs, non-UTF-8
            let base: Vec<u8> = vec![b'a', 0, b'b', 0xff, 0xfe, b'c', 0, 0];
            let mut extra = Vec::new();
            for l in 0..=base.len() {
                extra.push(Op::Put(B::Hex(base[..l].to_vec()), B::Hex(vec![l as u8])));
            }
            for l in 0..=base.len() {
                extra.push(Op::Get(B::Hex(base[..l].to_vec())));
            }
            extra.push(Op::Del(B::Hex(base[..3].to_vec())));
            for l in 0..=base.len() {
                extra.push(Op::Get(B::Hex(base[..l].to_vec())));
            }
            extra.push(Op::Iter(0));
            let at = r.below(s.ops.len() as u64 + 1) as usize;
            for (j, o) in extra.into_iter().enumerate() {
                s.ops.insert(at + j, o);
            }
        }
        s.ops.push(Op::Iter(0));
        s.ops.push(Op::Iter(2));
        seqs.push(s);
    }
    // directed: every key collides (1 or 2 buckets) and the keys differ from a base key in exactly one
    // byte — each byte position of the 8-byte encodings, each encoded length of vu64 (1…9 bytes, values
    // 2^(7k) ± and ≥ 2^56 differing only in the top byte): any weakness of the key comparison shows
    for (di, kt) in [Kt::U64, Kt::I64, Kt::Vu64].into_iter().enumerate() {
        for nb in [1u64, 2] {
            let mut r = rng.fork(9000 + di as u64 * 2 + nb);
            let enc = |x: u64| -> B {
                match kt {
                    Kt::Vu64 => B::Hex(crate::imp::vu64_encode(x)),
                    _ => B::Hex(x.to_le_bytes().to_vec()),
                }
            };
            let bases: Vec<u64> = vec![0, r.next(), r.next() | (1 << 63), (1u64 << 56) | (r.next() >> 8), 0x0101_0101_0101_0101];
            let mut keys: Vec<u64> = Vec::new();
            for b0 in &bases {
                keys.push(*b0);
                for byte in 0..8 {
                    keys.push(b0 ^ (1u64 << (8 * byte)));
                    keys.push(b0 ^ (0x80u64 << (8 * byte)));
                }
            }
            if kt == Kt::Vu64 {
                for k in 1..9 {
                    let t = 1u64 << (7 * k);
                    keys.extend([t - 1, t, t + 1]);
                }
            }
            keys.sort();
            keys.dedup();
            let mut ops = Vec::new();
            for (j, x) in keys.iter().enumerate() {
                ops.push(Op::Put(enc(*x), B::Hex((j as u32).to_le_bytes().to_vec())));
            }
            ops.push(Op::Len);
            for x in &keys {
                ops.push(Op::Get(enc(*x)));
            }
            for x in keys.iter().step_by(3) {
                ops.push(Op::Del(enc(*x)));
            }
            ops.push(Op::Len);
            for x in &keys {
                ops.push(Op::Get(enc(*x)));
            }
            ops.push(Op::Iter(0));
            ops.push(Op::Iter(2));
            seqs.push(Seq { kt, params: Params::buckets(nb), ops });
        }
    }
    let mut b = run_batch(ctx, seqs, |_| RunOpts { cmp_end: true, ..Default::default() }, &["api", "oracle", "bytes"], "keys");
    b.failures.extend(failures);
    finish(ctx, "keys", &b, vec![("gen_evaluations", g.evaluations.to_string())])
}

// ------------------------------------------------------------------------------------
// C12: golden images written by the pinned release
// ------------------------------------------------------------------------------------
/// writes the histories from which the golden images are produced (run once; the images themselves
/// are written by a small program linked against the *pinned* tree, see golden/README)
pub fn scen_mkgolden_seqs(ctx: &Ctx) -> i32 {
    let out = PathBuf::from(ctx.args.get("out").cloned().unwrap_or_else(|| "/verif/golden".into()));
    let mut rng = Rng::new(20260926);
    for kt in Kt::ALL {
        for (vi, bk) in [Bk::Size(64), Bk::Cap(4)].into_iter().enumerate() {
            let mut r = rng.fork(vi as u64 * 7 + kt as u64);
            let mut keys: Vec<B> = Vec::new();
            while keys.len() < 34 {
                let k = gen_key(&mut r, kt, 0);
                if !keys.iter().any(|x| x.bytes() == k.bytes()) {
                    keys.push(k);
                }
            }
            let mut ops = Vec::new();
            for (i, k) in keys.iter().enumerate().take(30) {
                let l = match i { 3 => 1100, 9 => 3000, 17 => 1019, _ => r.below(180) as usize };
                ops.push(Op::Put(k.clone(), B::Pat(l, i as u64)));
            }
            // overwrites that grow across a class edge (the old slots go to the free lists)
            for i in [1usize, 5, 7, 11] {
                ops.push(Op::Put(keys[i].clone(), B::Pat(200 + i * 13, 50 + i as u64)));
            }
            // deletes: small ones and one large
            for i in [0usize, 2, 4, 6, 8, 10, 12, 14, 9] {
                ops.push(Op::Del(keys[i].clone()));
            }
            // a few more small entries (reuse of small free slots)
            for (i, k) in keys.iter().enumerate().skip(30) {
                ops.push(Op::Put(k.clone(), B::Pat(10 + i, 90)));
            }
            let seq = Seq { kt, params: Params { bk, ..Params::buckets(1) }, ops };
            let d = out.join(format!("{}_{}", kt.name(), vi));
            let _ = std::fs::create_dir_all(&d);
            let _ = std::fs::write(d.join("history.txt"), seq.text());
        }
    }
    println!("{{\"scenario\":\"mkgolden-seqs\",\"failures\":[]}}");
    0
}

/// C12: each golden image (1) equals render(model after its history) byte for byte — the format the
/// pinned release wrote is the format the model (and, by the other checks, the current code) writes;
/// (2) opens under the current code with exactly the expected contents; (3) can be updated further.
pub fn scen_golden(ctx: &Ctx) -> i32 {
    let gdir = PathBuf::from(ctx.args.get("golden").cloned().unwrap_or_else(|| "/verif/golden".into()));
    let mut b = Batch::default();
    let mut rng = Rng::new(ctx.seed ^ fnv("golden"));
    let mut names: Vec<PathBuf> = std::fs::read_dir(&gdir).map(|rd| rd.flatten().map(|e| e.path()).filter(|p| p.join("history.txt").exists() && p.join("m0.htx").exists()).collect()).unwrap_or_default();
    names.sort();
    let mut images = 0;
    for (gi, g) in names.iter().enumerate() {
        let Some(hist) = std::fs::read_to_string(g.join("history.txt")).ok().and_then(|t| Seq::parse(&t)) else { continue };
        images += 1;
        for round in 0..(if ctx.tier_thorough { 6 } else { 2 }) {
            let dir = fresh_dir(&ctx.scratch, &format!("golden_{}_{}", gi, round));
            for e in ["htx", "key", "val"] {
                let _ = std::fs::copy(g.join(format!("m0.{}", e)), dir.join(format!("m0.{}", e)));
            }
            // continuation: read everything, then update further
            let mut r = rng.fork((gi * 10 + round) as u64);
            let mut p = Profile::basic(hist.kt, 64, 60);
            p.w = [40, 15, 15, 3, 2, 1, 3, 1, 0, 1, 0, 2, 0, 0];
            // odd rounds: values above 1 KiB too, so that the large free list of the released image is used
            if round % 2 == 1 {
                p.val_mode = 2;
            }
            let mut cont = gen_history(&mut r, &p);
            // directed tail: two slots above 1024 bytes are allocated (the released image's large free list is
            // searched) and freed again under the current code; the decoder then looks at where they were filed
            let (k1, k2) = (gen_key(&mut r, hist.kt, 0), gen_key(&mut r, hist.kt, 0));
            cont.ops.push(Op::Put(k1.clone(), B::Pat(1100 + r.below(900) as usize, 5)));
            cont.ops.push(Op::Put(k2.clone(), B::Pat(2050 + r.below(3000) as usize, 6)));
            cont.ops.push(Op::Del(k1));
            cont.ops.push(Op::Del(k2));
            cont.ops.push(Op::Stats);
            let mut d = Driver::spawn(&ctx.driver).ok();
            // phase 1: the model alone replays the golden history, then the golden files are compared with render(model)
            let mut diffs: Vec<Diff> = Vec::new();
            let mut oracle: std::collections::BTreeMap<Vec<u8>, Vec<u8>> = Default::default();
            if let Some(dr) = d.as_mut() {
                let (kind, x) = match hist.params.bk { Bk::Default => ("default", 0), Bk::Size(n) => ("size", n), Bk::Cap(c) => ("cap", c) };
                let n = dr.ask(&format!("gen buckets {} {}", kind, x));
                dr.ask(&format!("m0 open {} {}", hist.kt.name(), n));
                for o in &hist.ops {
                    match o {
                        Op::Put(k, v) => {
                            dr.ask(&format!("m0 put {} {}", k.tok(), v.tok()));
                            oracle.insert(k.bytes(), v.bytes());
                        }
                        Op::Del(k) => {
                            dr.ask(&format!("m0 del {}", k.tok()));
                            oracle.remove(&k.bytes());
                        }
                        _ => {}
                    }
                }
                let a = dr.ask(&format!("m0 cmp {}", dir.to_string_lossy()));
                b.cov.cmps += 1;
                if a != "htx=ok key=ok val=ok" {
                    diffs.push(Diff { idx: 0, facet: "golden-bytes", op: format!("golden image {} vs render(model after its history)", g.display()), got: a, want: "htx=ok key=ok val=ok".into() });
                }
            }
            // independent decoder: the golden image decodes to the expected contents
            let dec = crate::decoder::decode(&dir, "m0", &sig_of(hist.kt));
            let mut got = dec.entries.clone();
            got.sort();
            let want: Vec<(Vec<u8>, Vec<u8>)> = oracle.iter().map(|(k, v)| (k.clone(), v.clone())).collect();
            if !dec.errors.is_empty() || got != want {
                diffs.push(Diff { idx: 0, facet: "golden-decoder", op: format!("decode golden image {}", g.display()), got: dec.errors.first().cloned().unwrap_or_else(|| format!("{} entries", got.len())), want: format!("{} entries as recorded", want.len()) });
            }
            // phase 2: the current code opens the copy: contents, then further updates (model continues from its state)
            let mut ops: Vec<Op> = vec![Op::Len, Op::Iter(0)];
            for (k, _) in oracle.iter() {
                ops.push(Op::Get(B::Hex(k.clone())));
            }
            ops.extend(cont.ops.iter().cloned());
            let seq = Seq { kt: hist.kt, params: if round % 2 == 0 { hist.params } else { Params::buckets(1) }, ops };
            let out = run_seq_with_state(&seq, &dir, &mut d, &RunOpts { cmp_end: true, decoder: true, ..Default::default() }, oracle);
            for dd in out.diffs.iter() {
                if dd.facet == "open" && (dd.got.starts_with("panic") || dd.got.starts_with("err")) {
                    // judged without the model: the image was written by the pinned release, the current code must open it
                    diffs.push(Diff { idx: dd.idx, facet: "oracle", op: format!("open the golden image {} (written by the pinned release) under the current code", g.display()), got: dd.got.clone(), want: "opens".into() });
                }
            }
            diffs.extend(out.diffs.iter().cloned());
            b.sequences += 1;
            b.ops += out.steps as u64;
            b.cov.merge(&out.cov);
            b.distinct.insert(fnv(&seq.text()));
            if b.samples.is_empty() {
                b.samples.push(format!("golden {} then: {}", g.display(), seq.text().chars().take(600).collect::<String>()));
            }
            // implementation-side verdicts (the current code on the released image) before model disagreements
            let ranked = diffs.iter().find(|d| ["oracle", "golden-decoder", "decoder", "hang"].contains(&d.facet)).or(diffs.first());
            if let Some(dd) = ranked {
                if b.failures.len() < 3 {
                    let path = write_replay(ctx, &seq, dd.facet, &diffs, &format!("golden={}", g.display()));
                    b.failures.push(Failure { facet: dd.facet.to_string(), replay: path, detail: format!("{} | observed: {} | expected: {}", dd.op, dd.got, dd.want) });
                }
            }
            let _ = std::fs::remove_dir_all(&dir);
        }
    }
    if images < 10 {
        b.failures.push(Failure { facet: "golden-bytes".into(), replay: gdir.to_string_lossy().to_string(), detail: format!("only {} golden images found, 10 expected", images) });
    }
    finish(ctx, "golden", &b, vec![("golden_images", images.to_string())])
}

// ------------------------------------------------------------------------------------
// C13: wrong key type / foreign signatures
// ------------------------------------------------------------------------------------
fn read_three(dir: &Path) -> Vec<Vec<u8>> {
    ["htx", "key", "val"].iter().map(|e| std::fs::read(dir.join(format!("m0.{}", e))).unwrap_or_default()).collect()
}

/// tries to open m0 as `kt`; "accept" (and a lookup succeeded) / "reject"
fn try_open(dir: &Path, kt: Kt) -> String {
    let r = std::panic::catch_unwind(std::panic::AssertUnwindSafe(|| {
        let mut imp = crate::imp::Impl::new(dir);
        match imp.open(0, kt, &Params::buckets(8)) {
            Err(_) => "reject".to_string(),
            Ok(()) => {
                let l = imp.exec(&Op::Len);
                imp.close_all();
                std::mem::forget(imp);
                format!("accept len={}", l)
            }
        }
    }));
    match r {
        Ok(s) => s,
        Err(_) => "reject".into(),
    }
}

pub fn scen_sig(ctx: &Ctx) -> i32 {
    let thorough = ctx.tier_thorough;
    let mut evaluations = 0u64;
    let mut failures: Vec<Failure> = Vec::new();
    let mut known: Vec<String> = Vec::new();
    let mut samples: Vec<String> = Vec::new();
    let mut rng = Rng::new(ctx.seed ^ fnv("sig"));
    let Ok(mut d) = Driver::spawn(&ctx.driver) else { return 2 };
    for (a, entries) in Kt::ALL.iter().flat_map(|a| [(*a, 3usize), (*a, 0usize)]) {
        // a map of type `a` with a few entries — and one that was created but never held a record
        let base = fresh_dir(&ctx.scratch, &format!("sig_{}_{}", a.name(), entries));
        let mid = a as usize * 2 + if entries == 0 { 1 } else { 0 };
        {
            let mut imp = crate::imp::Impl::new(&base);
            let _ = imp.open(0, a, &Params::buckets(8));
            d.ask(&format!("m{} open {} 8", mid, a.name()));
            for i in 0..entries {
                let k = gen_key(&mut rng, a, 0);
                let v = B::Pat(5 + i, i as u64);
                imp.exec(&Op::Put(k.clone(), v.clone()));
                d.ask(&format!("m{} put {} {}", mid, k.tok(), v.tok()));
            }
            imp.close_all();
        }
        let orig = read_three(&base);
        let mname = format!("m{}", mid);
        let mut attempt = |as_kt: Kt, file: &str, pos: usize, val: u8, evaluations: &mut u64, failures: &mut Vec<Failure>, known: &mut Vec<String>, samples: &mut Vec<String>| {
            let dir = fresh_dir(&ctx.scratch, "sig_try");
            let mut files = orig.clone();
            if file != "-" {
                let fi = ["htx", "key", "val"].iter().position(|e| *e == file).unwrap();
                files[fi][pos] = val;
            }
            for (i, e) in ["htx", "key", "val"].iter().enumerate() {
                let _ = std::fs::write(dir.join(format!("m0.{}", e)), &files[i]);
            }
            let got = try_open(&dir, as_kt);
            let after = read_three(&dir);
            *evaluations += 1;
            let model = d.ask(&format!("{} openas {} {} {} {}", mname, as_kt.name(), file, pos, val));
            let desc = format!("create as {} ({} entries), open as {}{}", a.name(), entries, as_kt.name(), if file == "-" { String::new() } else { format!(", byte {} of the .{} file set to {}", pos, file, val) });
            if samples.len() < 4 {
                samples.push(format!("{} => {}", desc, got));
            }
            let accepted = got.starts_with("accept");
            // the property: foreign type or foreign signature => refused; a refused open changes nothing
            let must_reject = as_kt != a || (file != "-" && files != orig);
            let mut problems: Vec<(String, String)> = Vec::new();
            if must_reject && accepted {
                problems.push(("oracle".into(), format!("{}: opened without complaint ({})", desc, got)));
            }
            if !accepted && after != files {
                problems.push(("oracle".into(), format!("{}: the rejected open changed the files", desc)));
            }
            if (model == "accept") != accepted {
                problems.push(("open".into(), format!("{}: implementation {} but the model says {}", desc, got, model)));
            }
            for (facet, p) in problems {
                let is_pair = facet == "oracle" && file == "-" && p.contains("without complaint");
                if is_pair {
                    // decided by /verif/check against known_findings.json: listed => KNOWN-FINDING, else VIOLATION
                    let key = format!("C13:type-pair:{}->{}", a.name(), as_kt.name());
                    let path = ctx.replays.join(format!("{}-oracle-pair-{}-{}.txt", ctx.prop, a.name(), as_kt.name()));
                    let _ = std::fs::write(&path, format!("# property={} facet=oracle\n# {}\n# replay: create map m0 as `{}` with 3 entries, close; open the same files as `{}`: accepted ({})\n", ctx.prop, p, a.name(), as_kt.name(), got));
                    known.push(obj(&[("key", esc(&key)), ("detail", esc(&p)), ("replay", esc(&path.to_string_lossy()))]));
                } else if failures.len() < 3 {
                    let path = ctx.replays.join(format!("{}-{}-{:016x}.txt", ctx.prop, facet, fnv(&p)));
                    let _ = std::fs::write(&path, format!("# property={} facet={}\n# {}\n# replay: create map m0 as `{}` (see above for the number of entries), close; {} ; open as `{}`\n", ctx.prop, facet, p, a.name(), if file == "-" { "no mutation".to_string() } else { format!("set byte {} of m0.{} to {}", pos, file, val) }, as_kt.name()));
                    failures.push(Failure { facet, replay: path.to_string_lossy().to_string(), detail: p });
                }
            }
            let _ = std::fs::remove_dir_all(&dir);
        };
        for b in Kt::ALL {
            attempt(b, "-", 0, 0, &mut evaluations, &mut failures, &mut known, &mut samples);
        }
        // one of the three files replaced as a whole by something that does not start with its signature: another file
        // of the same map, a foreign 16-byte signature followed by zeros, a blank file (judged without the model)
        {
            let names = ["htx", "key", "val"];
            let mut repl: Vec<(usize, String, Vec<u8>)> = Vec::new();
            for t in 0..3 {
                for s_ in 0..3 {
                    if s_ != t {
                        repl.push((t, format!("the .{} file replaced by a copy of the .{} file", names[t], names[s_]), orig[s_].clone()));
                    }
                }
                let mut foreign = b"FOREIGNSIGNATURE".to_vec();
                foreign.resize(orig[t].len().max(64), 0);
                repl.push((t, format!("the .{} file replaced by a foreign 16-byte signature followed by zeros", names[t]), foreign));
                repl.push((t, format!("the .{} file replaced by {} zero bytes", names[t], orig[t].len()), vec![0u8; orig[t].len()]));
            }
            for (t, what, content) in repl {
                let dir = fresh_dir(&ctx.scratch, "sig_try_file");
                let mut files = orig.clone();
                files[t] = content;
                for (i, e) in names.iter().enumerate() {
                    let _ = std::fs::write(dir.join(format!("m0.{}", e)), &files[i]);
                }
                let got = try_open(&dir, a);
                let after = read_three(&dir);
                evaluations += 1;
                let desc = format!("create as {} ({} entries), {}, open as {}", a.name(), entries, what, a.name());
                let mut problem = None;
                if got.starts_with("accept") {
                    problem = Some(format!("{}: opened without complaint ({})", desc, got));
                } else if after != files {
                    problem = Some(format!("{}: the rejected open changed the files", desc));
                }
                if let Some(p) = problem {
                    if failures.len() < 3 {
                        let path = ctx.replays.join(format!("{}-oracle-{:016x}.txt", ctx.prop, fnv(&p)));
                        let _ = std::fs::write(&path, format!("# property={} facet=oracle\n# {}\n# replay: create map m0 as `{}` with {} entries, close; {}; open as `{}`\n", ctx.prop, p, a.name(), entries, what, a.name()));
                        failures.push(Failure { facet: "oracle".into(), replay: path.to_string_lossy().to_string(), detail: p });
                    }
                }
                let _ = std::fs::remove_dir_all(&dir);
            }
        }
        for file in ["htx", "key", "val"] {
            let fi = ["htx", "key", "val"].iter().position(|e| *e == file).unwrap();
            for pos in 0..16 {
                let o = orig[fi][pos];
                let vals: Vec<u8> = if thorough {
                    (0..=255u8).filter(|v| *v != o).collect()
                } else {
                    let mut v = vec![o.wrapping_add(1), o.wrapping_sub(1), o ^ 0x20, o ^ 0x80, 0, 0xff, rng.below(256) as u8];
                    v.retain(|x| *x != o);
                    v.sort();
                    v.dedup();
                    v
                };
                for val in vals {
                    attempt(a, file, pos, val, &mut evaluations, &mut failures, &mut known, &mut samples);
                }
            }
        }
        let _ = std::fs::remove_dir_all(&base);
    }
    known.sort();
    known.dedup();
    println!(
        "{}",
        obj(&[
            ("scenario", esc("sig")),
            ("property", esc(&ctx.prop)),
            ("seed", ctx.seed.to_string()),
            ("sequences", evaluations.to_string()),
            ("distinct_sequences", evaluations.to_string()),
            ("ops", evaluations.to_string()),
            ("exhaustive", if thorough { "true".into() } else { "false".into() }),
            ("samples", arr(&samples.iter().map(|s| esc(s)).collect::<Vec<_>>())),
            ("candidates", arr(&known)),
            ("failures", arr(&failures.iter().map(|f| obj(&[("facet", esc(&f.facet)), ("replay", esc(&f.replay)), ("detail", esc(&f.detail))])).collect::<Vec<_>>())),
        ])
    );
    if failures.is_empty() { 0 } else { 1 }
}

// ------------------------------------------------------------------------------------
// C16: a failed flush is reported and loses nothing (RLIMIT_FSIZE in a child process)
// ------------------------------------------------------------------------------------
pub fn scen_fault(ctx: &Ctx) -> i32 {
    let thorough = ctx.tier_thorough;
    let mut rng = Rng::new(ctx.seed ^ fnv("fault"));
    let mut b = Batch::default();
    let jobs = sizes(ctx, 10, 60);
    let results: Mutex<Vec<(Vec<Failure>, u64, u64, Vec<String>, u64)>> = Mutex::new(Vec::new());
    let next = Mutex::new(0usize);
    let plans: Vec<(Seq, u64)> = (0..jobs)
        .map(|i| {
            let mut r = rng.fork(i as u64);
            let kt = *r.pick(&Kt::ALL);
            let n = *r.pick(&[8u64, 16, 64, 512, 4096]);
            let mut p = Profile::basic(kt, n, r.range(3, 40) as usize);
            p.w = [60, 0, 10, 0, 0, 0, 0, 0, 0, 0, 0, 2, 0, 0];
            p.val_mode = *r.pick(&[1u8, 2, 2, 3]);
            p.pool = r.range(2, 15) as usize;
            (gen_history(&mut r, &p), r.next())
        })
        .collect();
    std::thread::scope(|sc| {
        for t in 0..ctx.threads.min(plans.len().max(1)) {
            let plans = &plans;
            let results = &results;
            let next = &next;
            sc.spawn(move || loop {
                let i = {
                    let mut g = next.lock().unwrap();
                    let i = *g;
                    *g += 1;
                    i
                };
                if i >= plans.len() {
                    break;
                }
                let (seq, salt) = &plans[i];
                let mut fails: Vec<Failure> = Vec::new();
                let mut ops = 0u64;
                let mut cases = 0u64;
                let mut samples = Vec::new();
                let mut reported_errs = 0u64;
                // a dry run to learn the file sizes => thresholds
                let probe = fresh_dir(&ctx.scratch, &format!("fault_probe_{}_{}", t, i));
                let mut oracle: std::collections::BTreeMap<Vec<u8>, Vec<u8>> = Default::default();
                {
                    let mut imp = crate::imp::Impl::new(&probe);
                    let _ = imp.open(0, seq.kt, &seq.params);
                    for o in &seq.ops {
                        imp.exec(o);
                        match &o.base().0 {
                            Op::Put(k, v) => {
                                oracle.insert(k.bytes(), v.bytes());
                            }
                            Op::Del(k) => {
                                oracle.remove(&k.bytes());
                            }
                            Op::BulkPut(kvs) | Op::PutFromIter(kvs) | Op::BulkPutString(kvs) => {
                                for (k, v) in kvs {
                                    oracle.insert(k.bytes(), v.bytes());
                                }
                            }
                            Op::BulkDel(ks) => {
                                for k in ks {
                                    oracle.remove(&k.bytes());
                                }
                            }
                            _ => {}
                        }
                    }
                    imp.close_all();
                }
                let lens: Vec<u64> = ["htx", "key", "val"].iter().map(|e| std::fs::metadata(probe.join(format!("m0.{}", e))).map(|m| m.len()).unwrap_or(0)).collect();
                let _ = std::fs::remove_dir_all(&probe);
                let mut th: Vec<u64> = vec![0, 1, 16, 100, 191, 192, 193];
                for l in &lens {
                    th.extend([l.saturating_sub(1), *l, l + 1, l / 2, l / 3]);
                    let mut c = 4096;
                    while c < *l && th.len() < 60 {
                        th.extend([c - 1, c, c + 1]);
                        c += if thorough { 4096 } else { 4096 * 8 };
                    }
                }
                // limits that refuse exactly one / exactly two of the three files: between the file lengths
                let mut sl = lens.clone();
                sl.sort();
                sl.dedup();
                let mut between: Vec<u64> = Vec::new();
                for w in sl.windows(2) {
                    between.extend([w[0] + 1, (w[0] + w[1]) / 2]);
                }
                th.extend(between.iter().cloned());
                th.sort();
                th.dedup();
                if !thorough && th.len() > 14 {
                    let mut r = Rng::new(*salt);
                    let mut keep: Vec<u64> = vec![0, th[th.len() - 1]];
                    keep.extend(between.iter().cloned());
                    while keep.len() < 14 {
                        keep.push(*r.pick(&th));
                    }
                    keep.sort();
                    keep.dedup();
                    th = keep;
                }
                let maxlen = *lens.iter().max().unwrap_or(&0);
                for (ti, limit) in th.iter().enumerate() {
                    let dir = fresh_dir(&ctx.scratch, &format!("fault_{}_{}_{}", t, i, ti));
                    let mut c = crate::exec::ChildExec::new(&dir);
                    let mut ok = c.send(&Op::Map(0, seq.kt, seq.params).text()) == "ok";
                    for o in &seq.ops {
                        let a = c.send(&o.text());
                        ok = ok && !a.starts_with("panic") && a != "child-dead";
                        ops += 1;
                    }
                    let syncop = [Op::Flush, Op::SyncAll, Op::SyncData, Op::DbSyncAll, Op::DbSyncData][(ti + i) % 5].clone();
                    // database-level calls: a second map of another key kind (before or after this one in the
                    // database's processing order), clean and small, so that only m0 can fail
                    let mut second = String::new();
                    if matches!(syncop, Op::DbSyncAll | Op::DbSyncData) && ok {
                        let others: Vec<Kt> = Kt::ALL.iter().cloned().filter(|k| *k != seq.kt).collect();
                        let k2 = others[(ti / 5 + i) % others.len()];
                        let mut r2 = Rng::new(*salt ^ ti as u64);
                        let mut ok2 = c.send(&Op::Map(1, k2, seq.params).text()) == "ok";
                        for _ in 0..2 {
                            ok2 = ok2 && c.send(&Op::Put(gen_key(&mut r2, k2, 0), gen_val(&mut r2, 1)).text()) == "ok";
                        }
                        ok2 = ok2 && c.send(&Op::Flush.text()) == "ok";
                        ok2 = ok2 && c.send(&Op::Map(0, seq.kt, seq.params).text()) == "ok";
                        ok = ok2;
                        second = format!(" (second map m1 of kind {}, clean)", k2.name());
                    }
                    let mut problem: Option<String> = None;
                    if !ok {
                        problem = Some("the updates themselves failed".into());
                    } else {
                        c.send(&format!("!rlimit {}", limit));
                        let r1 = c.send(&syncop.text());
                        cases += 1;
                        if r1.starts_with("err") {
                            reported_errs += 1;
                        }
                        if r1 == "ok" {
                            // Ok => everything must be on disk now
                            let snap = dir.with_extension("snap");
                            let _ = std::fs::remove_dir_all(&snap);
                            let _ = std::fs::create_dir_all(&snap);
                            for e in ["htx", "key", "val"] {
                                let _ = std::fs::copy(dir.join(format!("m0.{}", e)), snap.join(format!("m0.{}", e)));
                            }
                            let mut os = std::collections::BTreeMap::new();
                            os.insert(0usize, oracle.clone());
                            if let Some(e) = check_dir_against_oracle(&snap, &[(0, seq.kt)], &os) {
                                problem = Some(format!("{}{} returned Ok under RLIMIT_FSIZE={} but the directory does not hold the updates: {}", syncop.text(), second, limit, e));
                            }
                            let _ = std::fs::remove_dir_all(&snap);
                        } else if !r1.starts_with("err") {
                            problem = Some(format!("{} under RLIMIT_FSIZE={} => {}", syncop.text(), limit, r1));
                        } else if *limit > maxlen + 8 {
                            problem = Some(format!("{} reports {} although the limit {} is above every file length {:?}", syncop.text(), r1, limit, lens));
                        }
                        // the in-memory view stays correct: while the limit is active a read may itself
                        // fail (it can force a write-back), but it never returns wrong data; after the
                        // limit is lifted every read is right again
                        for phase in 0..2 {
                            if problem.is_some() {
                                break;
                            }
                            if phase == 1 {
                                c.send(&format!("!rlimit {}", u64::MAX));
                            }
                            let l = c.send(&Op::Len.text());
                            if l != oracle.len().to_string() && !(phase == 0 && l.starts_with("err")) {
                                problem = Some(format!("after the failed {} (limit {}{}): len = {} instead of {}", syncop.text(), limit, if phase == 1 { ", lifted" } else { "" }, l, oracle.len()));
                            }
                            for (k, v) in oracle.iter().take(40) {
                                let g = c.send(&Op::Get(B::Hex(k.clone())).text());
                                if g != repr_opt(&Some(v.clone())) && !(phase == 0 && g.starts_with("err")) {
                                    problem = Some(format!("after the failed {} (limit {}{}): get {} = {}", syncop.text(), limit, if phase == 1 { ", lifted" } else { "" }, hex(k), g));
                                    break;
                                }
                            }
                        }
                        // lift the limit: a later flush makes everything durable
                        if problem.is_none() {
                            c.send(&format!("!rlimit {}", u64::MAX));
                            let r2 = c.send(&Op::Flush.text());
                            if r2 != "ok" {
                                problem = Some(format!("flush after lifting the limit => {}", r2));
                            } else {
                                let snap = dir.with_extension("snap");
                                let _ = std::fs::remove_dir_all(&snap);
                                let _ = std::fs::create_dir_all(&snap);
                                for e in ["htx", "key", "val"] {
                                    let _ = std::fs::copy(dir.join(format!("m0.{}", e)), snap.join(format!("m0.{}", e)));
                                }
                                let mut os = std::collections::BTreeMap::new();
                                os.insert(0usize, oracle.clone());
                                if let Some(e) = check_dir_against_oracle(&snap, &[(0, seq.kt)], &os) {
                                    problem = Some(format!("limit {} during {}, then lifted, then flush => Ok, but the directory does not hold the updates: {}", limit, syncop.text(), e));
                                }
                                let _ = std::fs::remove_dir_all(&snap);
                            }
                        }
                        if samples.len() < 2 {
                            samples.push(format!("{} ops, then RLIMIT_FSIZE={} , {} => {} ; lifted; flush", seq.ops.len(), limit, syncop.text(), r1));
                        }
                    }
                    c.kill9();
                    let _ = std::fs::remove_dir_all(&dir);
                    if let Some(p) = problem {
                        if fails.len() < 2 {
                            let path = ctx.replays.join(format!("{}-oracle-{:016x}.txt", ctx.prop, fnv(&format!("{}{}", p, seq.text()))));
                            let _ = std::fs::write(&path, format!("# property={} facet=oracle (fault injection)\n# {}\n# replay: run the operations below in a child process, then setrlimit(RLIMIT_FSIZE, {}) with SIGXFSZ ignored, then `{}`, then lift the limit and `flush`\n{}", ctx.prop, p, limit, syncop.text(), seq.text()));
                            fails.push(Failure { facet: "oracle".into(), replay: path.to_string_lossy().to_string(), detail: p });
                        }
                    }
                }
                results.lock().unwrap().push((fails, ops, cases, samples, reported_errs));
            });
        }
    });
    let mut cases = 0;
    let mut errs = 0;
    for (f, ops, c, s, e) in results.into_inner().unwrap() {
        b.ops += ops;
        b.sequences += c;
        cases += c;
        errs += e;
        for x in f {
            if b.failures.len() < 3 {
                b.failures.push(x);
            }
        }
        if b.samples.len() < 3 {
            b.samples.extend(s);
        }
    }
    for p in &plans {
        b.distinct.insert(fnv(&p.0.text()));
    }
    finish(ctx, "fault", &b, vec![("fault_cases", cases.to_string()), ("flushes_reporting_error", errs.to_string())])
}
