//! Scenarios: what each property's tie runs. Every scenario prints one JSON object on the last
//! line of stdout (the `check` script reads it) and writes replay files for failures.
use crate::driver::Driver;
use crate::gen::*;
use crate::json::*;
use crate::proto::*;
use crate::rng::Rng;
use crate::run::*;
use std::collections::BTreeMap;
use std::path::{Path, PathBuf};
use std::sync::{Arc, Mutex};

pub struct Ctx {
    pub driver: String,
    pub seed: u64,
    pub scratch: PathBuf,
    pub replays: PathBuf,
    pub tier_thorough: bool,
    pub prop: String,
    pub threads: usize,
    pub args: BTreeMap<String, String>,
}

fn arg_map(args: &[String]) -> BTreeMap<String, String> {
    let mut m = BTreeMap::new();
    let mut i = 0;
    while i < args.len() {
        if let Some(k) = args[i].strip_prefix("--") {
            if i + 1 < args.len() && !args[i + 1].starts_with("--") {
                m.insert(k.to_string(), args[i + 1].clone());
                i += 2;
                continue;
            }
            m.insert(k.to_string(), "1".into());
        }
        i += 1;
    }
    m
}

pub fn dispatch(args: &[String]) -> i32 {
    if args.is_empty() {
        eprintln!("usage: abyss-harness <scenario> --driver P --seed N --scratch D --replays D --prop Cxx [--thorough]");
        return 2;
    }
    let m = arg_map(&args[1..]);
    let ctx = Ctx {
        driver: m.get("driver").cloned().unwrap_or_default(),
        seed: m.get("seed").and_then(|s| s.parse().ok()).unwrap_or(1),
        scratch: PathBuf::from(m.get("scratch").cloned().unwrap_or_else(|| "/tmp/abyss-scratch".into())),
        replays: PathBuf::from(m.get("replays").cloned().unwrap_or_else(|| "/verif/replays".into())),
        tier_thorough: m.contains_key("thorough"),
        prop: m.get("prop").cloned().unwrap_or_else(|| "C00".into()),
        threads: m.get("threads").and_then(|s| s.parse().ok()).unwrap_or(16),
        args: m.clone(),
    };
    let _ = std::fs::create_dir_all(&ctx.scratch);
    let _ = std::fs::create_dir_all(&ctx.replays);
    match args[0].as_str() {
        "hist" => scen_hist(&ctx),
        "replay" => scen_replay(&ctx),
        other => {
            eprintln!("unknown scenario {}", other);
            2
        }
    }
}

/// result of a batch of sequences
#[derive(Default)]
pub struct Batch {
    pub sequences: u64,
    pub ops: u64,
    pub cov: Cov,
    pub failures: Vec<Failure>,
    pub samples: Vec<String>,
    pub distinct: std::collections::BTreeSet<u64>,
    pub pending: usize,
}
pub struct Failure {
    pub facet: String,
    pub replay: String,
    pub detail: String,
}

fn fnv(s: &str) -> u64 {
    let mut h: u64 = 0xcbf29ce484222325;
    for b in s.bytes() {
        h ^= b as u64;
        h = h.wrapping_mul(0x100000001b3);
    }
    h
}

pub fn fresh_dir(base: &Path, tag: &str) -> PathBuf {
    let d = base.join(tag);
    let _ = std::fs::remove_dir_all(&d);
    let _ = std::fs::create_dir_all(&d);
    d
}

/// run one sequence in a fresh directory with a fresh driver
pub fn run_fresh(ctx: &Ctx, seq: &Seq, tag: &str, opts: &RunOpts) -> Outcome {
    let dir = fresh_dir(&ctx.scratch, tag);
    let mut d = if opts.model { Driver::spawn(&ctx.driver).ok() } else { None };
    let out = run_seq(seq, &dir, &mut d, opts);
    let _ = std::fs::remove_dir_all(&dir);
    out
}

/// delta-debugging on the operation list: keep a failure of the same facet
pub fn shrink(ctx: &Ctx, seq: &Seq, facet: &str, tag: &str, opts: &RunOpts) -> Seq {
    let fails = |s: &Seq| -> bool { run_fresh(ctx, s, tag, opts).diffs.iter().any(|d| d.facet == facet) };
    let mut cur = seq.clone();
    let mut chunk = (cur.ops.len() / 2).max(1);
    let mut budget = 400;
    while chunk >= 1 && budget > 0 {
        let mut i = 0;
        let mut progressed = false;
        while i < cur.ops.len() && budget > 0 {
            let mut cand = cur.clone();
            let end = (i + chunk).min(cand.ops.len());
            cand.ops.drain(i..end);
            budget -= 1;
            if fails(&cand) {
                cur = cand;
                progressed = true;
            } else {
                i += chunk;
            }
        }
        if chunk == 1 && !progressed {
            break;
        }
        chunk = if chunk > 1 { chunk / 2 } else { 1 };
        if chunk == 1 && !progressed && cur.ops.len() > 64 {
            break;
        }
    }
    cur
}

pub fn write_replay(ctx: &Ctx, seq: &Seq, facet: &str, diffs: &[Diff], note: &str) -> String {
    let body = seq.text();
    let name = format!("{}-{}-{:016x}.txt", ctx.prop, facet, fnv(&body));
    let path = ctx.replays.join(name);
    let mut txt = format!("# property={} facet={} seed={} {}\n", ctx.prop, facet, ctx.seed, note);
    for d in diffs.iter().take(4) {
        txt.push_str(&format!("# op#{} [{}] {}\n#   observed: {}\n#   expected: {}\n", d.idx, d.facet, d.op, d.got, d.want));
    }
    txt.push_str(&body);
    let _ = std::fs::write(&path, txt);
    path.to_string_lossy().to_string()
}

/// run many generated sequences in parallel; facets = which differences count
pub fn run_batch(ctx: &Ctx, seqs: Vec<Seq>, opts_of: impl Fn(&Seq) -> RunOpts + Send + Sync, facets: &[&str], tagp: &str) -> Batch {
    let batch = Arc::new(Mutex::new(Batch::default()));
    let next = Arc::new(Mutex::new(0usize));
    let seqs = Arc::new(seqs);
    std::thread::scope(|sc| {
        for t in 0..ctx.threads.min(seqs.len().max(1)) {
            let batch = batch.clone();
            let next = next.clone();
            let seqs = seqs.clone();
            let opts_of = &opts_of;
            sc.spawn(move || loop {
                let i = {
                    let mut g = next.lock().unwrap();
                    let i = *g;
                    *g += 1;
                    i
                };
                if i >= seqs.len() {
                    break;
                }
                let seq = &seqs[i];
                let opts = opts_of(seq);
                let tag = format!("{}_{}_{}", tagp, t, i);
                // the case is on disk before it runs, so a hang can name it
                let cur = ctx.scratch.join(format!("current_{}.txt", t));
                let _ = std::fs::write(&cur, seq.text());
                let wid = watch_begin(600_000, format!("seq-file={}", cur.display()));
                let out = run_fresh(ctx, seq, &tag, &opts);
                watch_end(wid);
                let mut b = batch.lock().unwrap();
                b.sequences += 1;
                b.ops += out.steps as u64;
                b.cov.merge(&out.cov);
                b.distinct.insert(fnv(&seq.text()));
                if b.samples.len() < 3 && seq.ops.len() < 40 {
                    b.samples.push(seq.text());
                }
                let relevant: Vec<Diff> = out.diffs.iter().filter(|d| facets.contains(&d.facet)).cloned().collect();
                if !relevant.is_empty() && b.failures.len() + b.pending < 3 {
                    b.pending += 1;
                    drop(b);
                    // prefer a facet judged by an implementation-side oracle: it is a concrete failing input
                    let facet = ["oracle", "decoder", "sync-oracle", "trace", "api", "open", "inv", "bytes"]
                        .iter()
                        .find(|f| relevant.iter().any(|d| d.facet == **f))
                        .copied()
                        .unwrap_or(relevant[0].facet);
                    let relevant: Vec<Diff> = relevant.iter().filter(|d| d.facet == facet).cloned().collect();
                    let small = shrink(ctx, seq, facet, &format!("{}_shr", tag), &opts);
                    let out2 = run_fresh(ctx, &small, &format!("{}_shr2", tag), &opts);
                    let d2: Vec<Diff> = out2.diffs.iter().filter(|d| d.facet == facet).cloned().collect();
                    let path = write_replay(ctx, &small, facet, if d2.is_empty() { &relevant } else { &d2 }, "");
                    let mut b = batch.lock().unwrap();
                    b.pending -= 1;
                    b.failures.push(Failure {
                        facet: facet.to_string(),
                        replay: path,
                        detail: format!("{} | observed: {} | expected: {}", relevant[0].op, relevant[0].got, relevant[0].want),
                    });
                }
            });
        }
    });
    Arc::try_unwrap(batch).ok().unwrap().into_inner().unwrap()
}

pub fn batch_json(ctx: &Ctx, scenario: &str, b: &Batch, extra: Vec<(&str, String)>) -> String {
    let mut f: Vec<(&str, String)> = vec![
        ("scenario", esc(scenario)),
        ("property", esc(&ctx.prop)),
        ("seed", ctx.seed.to_string()),
        ("sequences", b.sequences.to_string()),
        ("distinct_sequences", b.distinct.len().to_string()),
        ("ops", b.ops.to_string()),
        ("ops_by_kind", map_u64(&b.cov.ops)),
        ("value_len_classes", map_u64(&b.cov.vlen_classes)),
        ("key_len_classes", map_u64(&b.cov.klen)),
        ("byte_compares", b.cov.cmps.to_string()),
        ("get_hits", b.cov.found_hits.to_string()),
        ("overwrites", b.cov.overwrite.to_string()),
        ("delete_hits", b.cov.delete_hit.to_string()),
        ("max_key_file", b.cov.max_key_file.to_string()),
        ("max_val_file", b.cov.max_val_file.to_string()),
        ("impl_panics", b.cov.panics.to_string()),
        ("samples", arr(&b.samples.iter().map(|s| esc(s)).collect::<Vec<_>>())),
        (
            "failures",
            arr(&b
                .failures
                .iter()
                .map(|f| obj(&[("facet", esc(&f.facet)), ("replay", esc(&f.replay)), ("detail", esc(&f.detail))]))
                .collect::<Vec<_>>()),
        ),
    ];
    f.extend(extra);
    obj(&f)
}

fn facets_arg(ctx: &Ctx) -> Vec<String> {
    ctx.args.get("facets").map(|s| s.split(',').map(|x| x.to_string()).collect()).unwrap_or_else(|| vec!["api".into(), "bytes".into(), "oracle".into(), "open".into(), "inv".into(), "decoder".into()])
}

/// generic random histories on one map
fn scen_hist(ctx: &Ctx) -> i32 {
    let count: usize = ctx.args.get("count").and_then(|s| s.parse().ok()).unwrap_or(40);
    let n_ops: usize = ctx.args.get("ops").and_then(|s| s.parse().ok()).unwrap_or(120);
    let cmp_every = ctx.args.get("cmp-every").and_then(|s| s.parse::<u8>().ok());
    let mut rng = Rng::new(ctx.seed);
    let mut seqs = Vec::new();
    for i in 0..count {
        let mut r = rng.fork(i as u64);
        let kt = *r.pick(&Kt::ALL);
        let n = *r.pick(&[1u64, 1, 2, 4, 8, 16, 64, 128, 256, 1024]);
        let mut p = Profile::basic(kt, n, n_ops);
        p.val_mode = *r.pick(&[1u8, 1, 2, 2, 3]);
        p.key_mode = *r.pick(&[0u8, 0, 1, 2]);
        p.pool = r.range(2, 30) as usize;
        seqs.push(gen_history(&mut r, &p));
    }
    let facets = facets_arg(ctx);
    let fr: Vec<&str> = facets.iter().map(|s| s.as_str()).collect();
    let check_inv = ctx.args.contains_key("check-inv");
    let decoder = ctx.args.contains_key("decoder");
    let b = run_batch(ctx, seqs, |_| RunOpts { cmp_every, check_inv, decoder, ..Default::default() }, &fr, "hist");
    println!("{}", batch_json(ctx, "hist", &b, vec![]));
    if b.failures.is_empty() { 0 } else { 1 }
}

fn scen_replay(ctx: &Ctx) -> i32 {
    let Some(f) = ctx.args.get("file") else { return 2 };
    let Ok(txt) = std::fs::read_to_string(f) else { return 2 };
    let Some(seq) = Seq::parse(&txt) else {
        eprintln!("cannot parse {}", f);
        return 2;
    };
    let cmp_every = ctx.args.get("cmp-every").and_then(|s| s.parse::<u8>().ok());
    let out = run_fresh(ctx, &seq, "replay", &RunOpts { cmp_every, stop_first: false, ..Default::default() });
    for l in &out.transcript {
        println!("{}", l);
    }
    for d in &out.diffs {
        println!("DIFF op#{} [{}] {}\n  observed: {}\n  expected: {}", d.idx, d.facet, d.op, d.got, d.want);
    }
    if out.diffs.is_empty() { 0 } else { 1 }
}
