-- This module serves as the root of the `Abyss` library.
-- Import modules here that should be built as part of the library.
import Abyss.Basic
