-- root of the `Abyss` library: the model, the lemmas and the property theorems
import Abyss.Vu64
import Abyss.Gen.Consts
import Abyss.Gen.Funcs
import Abyss.Assoc
import Abyss.Hash
import Abyss.RecFile
import Abyss.Store
import Abyss.Scan
import Abyss.Stats
import Abyss.Render
import Abyss.Spec
import Abyss.Ops
