import Abyss.Props.C17
import Abyss.Lemmas.EngineStats
import Abyss.Props.GenCorollaries2
#print axioms Abyss.C17_generated_stats
#print axioms Abyss.C17_generated_stats_of_image
#print axioms Abyss.C17_free_counts
#print axioms Abyss.C17_key_stats
#print axioms Abyss.C17_value_stats
#print axioms Abyss.C17_counted_are_live
#print axioms Abyss.C17_fill
#print axioms Abyss.histOf_count
#print axioms Abyss.histOf_sorted
#print axioms Abyss.C06_walk_terminates
#print axioms Abyss.sizeStats_bytes
#print axioms Abyss.freeCounts_bytes
#print axioms Abyss.fillingRate_bytes
#print axioms Abyss.touchSize_eq_touch
#print axioms Abyss.touchLength_eq_touch
