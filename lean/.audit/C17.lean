import Abyss.Props.C17
#print axioms Abyss.C17_free_counts
#print axioms Abyss.C17_key_stats
#print axioms Abyss.C17_value_stats
#print axioms Abyss.C17_counted_are_live
#print axioms Abyss.C17_fill
#print axioms Abyss.histOf_count
#print axioms Abyss.histOf_sorted
#print axioms Abyss.C06_walk_terminates
