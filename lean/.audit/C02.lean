import Abyss.Props.C02
import Abyss.Props.C03
import Abyss.Props.GenCorollaries
import Abyss.Props.GenBudget
#print axioms Abyss.C02_generated_reopen_budget
#print axioms Abyss.C02_generated_reopen
#print axioms Abyss.openMap_reopen
#print axioms Abyss.openMap_create
#print axioms Abyss.C02_reopen
#print axioms Abyss.parse_render
#print axioms Abyss.parseRecFile_key
#print axioms Abyss.parseRecFile_val
#print axioms Abyss.parseHtx_render
#print axioms Abyss.renderable_of_sized
#print axioms Abyss.run_sized
#print axioms Abyss.inv_of_same
#print axioms Abyss.run_refines
#print axioms Abyss.Buf.C03_durable
