import Abyss.Props.C13
import Abyss.Props.GenCorollaries
#print axioms Abyss.C13_generated_wrong_type
#print axioms Abyss.C13_generated_mutation
#print axioms Abyss.C13_generated_collision
#print axioms Abyss.openMap_existing
#print axioms Abyss.C13_types_distinct
#print axioms Abyss.C13_collision
#print axioms Abyss.C13_full_statement_refuted
#print axioms Abyss.C13_wrong_type_partial
#print axioms Abyss.C13_own_type
#print axioms Abyss.C13_mutation
