import Abyss.Props.C09
#print axioms Abyss.C09_value_fits
#print axioms Abyss.C09_key_fits
#print axioms Abyss.C09_value_fits_larger
#print axioms Abyss.C09_key_fits_larger
#print axioms Abyss.C09_free_fits
#print axioms Abyss.C09_valueNeed_legal
#print axioms Abyss.C09_keyNeed_legal
#print axioms Abyss.C09_renderValSlot_length
#print axioms Abyss.C09_renderKeySlot_length
