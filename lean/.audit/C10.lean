import Abyss.Props.C10
#print axioms Abyss.C10_u64_roundtrip
#print axioms Abyss.C10_i64_roundtrip
#print axioms Abyss.C10_vu64_roundtrip
#print axioms Abyss.C10_u64_same_iff
#print axioms Abyss.C10_i64_same_iff
#print axioms Abyss.C10_vu64_same_iff
#print axioms Abyss.C10_bytes_same_iff
#print axioms Abyss.C10_keys_admissible
#print axioms Abyss.C10_typed_history
#print axioms Abyss.Vu64.decode_encode
#print axioms Abyss.Vu64.encode_inj
