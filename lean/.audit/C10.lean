import Abyss.Props.C10
import Abyss.Lemmas.ChainL
#print axioms Abyss.C10_u64_roundtrip
#print axioms Abyss.C10_i64_roundtrip
#print axioms Abyss.C10_vu64_roundtrip
#print axioms Abyss.C10_u64_same_iff
#print axioms Abyss.C10_i64_same_iff
#print axioms Abyss.C10_vu64_same_iff
#print axioms Abyss.C10_bytes_same_iff
#print axioms Abyss.C10_keys_admissible
#print axioms Abyss.C10_typed_history
#print axioms Abyss.Vu64.decode_encode
#print axioms Abyss.Vu64.encode_inj
#print axioms Abyss.Gen.cmpBytes_eq_iff
#print axioms Abyss.Gen.cmpU8U64_eq
#print axioms Abyss.Gen.cmpU8I64_eq
#print axioms Abyss.Gen.cmpU8String_eq
#print axioms Abyss.Gen.cmpU8Bytes_eq
#print axioms Abyss.Gen.cmpU8Vu64_eq
#print axioms Abyss.Gen.keyToU64_eq
#print axioms Abyss.Gen.keyToI64_eq
#print axioms Abyss.Gen.u64ToKey_eq
#print axioms Abyss.Gen.i64ToKey_eq
#print axioms Abyss.Gen.vu64ToKey_eq
#print axioms Abyss.Store.cmpKey_ok
