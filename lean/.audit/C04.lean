import Abyss.Props.C04
import Abyss.Lemmas.EngineScan
import Abyss.Lemmas.EngineIter
import Abyss.Props.C04Gen
import Abyss.Props.C04Adapt
import Abyss.Lemmas.IterAdaptL
#print axioms Abyss.C04_generated_keys
#print axioms Abyss.C04_generated_values
#print axioms Abyss.C04_generated_iter_adaptor
#print axioms Abyss.C04_generated_into_iter
#print axioms Abyss.C04_generated_into_iter_ref
#print axioms Abyss.C04_generated_iter_mut
#print axioms Abyss.C04_generated_into_iter_mut
#print axioms Abyss.iterKeysNext_eq
#print axioms Abyss.iterValuesNext_eq
#print axioms Abyss.iterSizeHint_eq
#print axioms Abyss.C04_iter
#print axioms Abyss.C04_keys_values
#print axioms Abyss.C04_scan
#print axioms Abyss.nextKeyPieceOffset_spec
#print axioms Abyss.htxNext_bytes
#print axioms Abyss.reach_htxLen
#print axioms Abyss.iterNew_bytes
#print axioms Abyss.iterNextOffset_bytes
#print axioms Abyss.iterNext_bytes
#print axioms Abyss.C04_generated_iter
#print axioms Abyss.genIterCollect_refines
