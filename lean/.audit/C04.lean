import Abyss.Props.C04
#print axioms Abyss.C04_iter
#print axioms Abyss.C04_keys_values
#print axioms Abyss.C04_scan
#print axioms Abyss.nextKeyPieceOffset_spec
