import Abyss.Props.C14
#print axioms Abyss.C14_bulk_get
#print axioms Abyss.C14_bulk_delete
#print axioms Abyss.C14_delete_elementwise
#print axioms Abyss.C14_bulk_put
#print axioms Abyss.C14_put_from_iter
