import Abyss.Props.C14
import Abyss.Lemmas.ApiGenL
import Abyss.Props.C14Gen
#print axioms Abyss.C14_generated_bulk_get
#print axioms Abyss.C14_generated_bulk_delete
#print axioms Abyss.C14_generated_bulk_put
#print axioms Abyss.C14_generated_put_from_iter
#print axioms Abyss.modelOps_refines
#print axioms Abyss.C14_generated_bulk_get_bytes
#print axioms Abyss.apiBulkGet_eq
#print axioms Abyss.apiBulkDelete_eq
#print axioms Abyss.apiBulkPut_eq
#print axioms Abyss.apiPutFromIter_eq
#print axioms Abyss.C14_bulk_get
#print axioms Abyss.C14_bulk_delete
#print axioms Abyss.C14_delete_elementwise
#print axioms Abyss.C14_bulk_put
#print axioms Abyss.C14_put_from_iter
