import Abyss.Props.C05
import Abyss.Props.C01Gen
import Abyss.Props.GenCorollaries
import Abyss.Props.GenBudget
#print axioms Abyss.C05_generated_structure_budget
#print axioms Abyss.C05_generated_structure
#print axioms Abyss.C05_reachable
#print axioms Abyss.C05_structure
#print axioms Abyss.C05_reader
#print axioms Abyss.C05_checkInv_sound
#print axioms Abyss.parse_render
#print axioms Abyss.C02_reopen
#print axioms Abyss.genRun_refines
#print axioms Abyss.Store.put_spec
#print axioms Abyss.Store.del_spec
#print axioms Abyss.Store.get_spec
#print axioms Abyss.Store.find_spec
#print axioms Abyss.Store.relink_spec
#print axioms Abyss.Store.init_inv
#print axioms Abyss.RecFile.addPiece_spec
#print axioms Abyss.RecFile.rewrite_spec
#print axioms Abyss.RecFile.deletePiece_spec
