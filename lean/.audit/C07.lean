import Abyss.Props.C07
import Abyss.Props.C03
#print axioms Abyss.C07_bucket_independent
#print axioms Abyss.C07_bucketsOf
#print axioms Abyss.nextPowerOfTwo_spec
#print axioms Abyss.C07_htxInitLen
#print axioms Abyss.Buf.read_after_write
#print axioms Abyss.Buf.C16_memory_intact
