import Abyss.Props.C07
import Abyss.Props.C03
import Abyss.Props.RaBufP
import Abyss.Props.GenCorollaries
import Abyss.Props.GenCorollaries2
import Abyss.Props.GenBudget
#print axioms Abyss.C07_generated_bucket_independent_budget
#print axioms Abyss.C02_generated_reopen
#print axioms Abyss.C07_generated_bucket_independent
#print axioms Abyss.openMap_reopen
#print axioms Abyss.openMap_existing
#print axioms Abyss.C07_bucket_independent
#print axioms Abyss.C07_bucketsOf
#print axioms Abyss.nextPowerOfTwo_spec
#print axioms Abyss.C07_htxInitLen
#print axioms Abyss.Buf.read_after_write
#print axioms Abyss.Buf.C16_memory_intact
#print axioms Abyss.RaBuf.C07_buffer_transparent
#print axioms Abyss.RaBuf.run_refines_flat
#print axioms Abyss.RaBuf.C07_repo_configs
#print axioms Abyss.RaBuf.C07_permille_hang
#print axioms Abyss.RaBuf.C07_capacity_one_hang
#print axioms Abyss.RaBuf.fetch_returns
#print axioms Abyss.RaBuf.writeAll_spec
#print axioms Abyss.RaBuf.readExact_spec
