import Abyss.Props.C08
import Abyss.Props.C08Gen
#print axioms Abyss.C08_generated_update_local
#print axioms Abyss.C08_generated_delete_local
#print axioms Abyss.Spec.run_append
#print axioms Abyss.C08_update_local
#print axioms Abyss.C08_delete_local
#print axioms Abyss.Store.relink_spec
#print axioms Abyss.Store.put_spec
#print axioms Abyss.Store.del_spec
