import Abyss.Props.C11
import Abyss.Lemmas.RegistryGenL
#print axioms Abyss.dbMapU64WithParams_eq
#print axioms Abyss.dbMapVu64WithParams_eq
#print axioms Abyss.dbMapBytesWithParams_eq
#print axioms Abyss.dbMapStringWithParams_eq
#print axioms Abyss.dbMapI64WithParams_eq
#print axioms Abyss.openSpec_frame
#print axioms Abyss.openSpec_again
#print axioms Abyss.fileName_inj
#print axioms Abyss.mapFileNames_nodup
#print axioms Abyss.C11_frame
#print axioms Abyss.C11_frame_files
#print axioms Abyss.C11_step_local
#print axioms Abyss.C11_open_frame
#print axioms Abyss.C11_reopen_same
#print axioms Abyss.C11_fileName_inj
