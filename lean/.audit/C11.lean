import Abyss.Props.C11
#print axioms Abyss.C11_frame
#print axioms Abyss.C11_frame_files
#print axioms Abyss.C11_step_local
#print axioms Abyss.C11_open_frame
#print axioms Abyss.C11_reopen_same
#print axioms Abyss.C11_fileName_inj
