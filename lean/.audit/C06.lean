import Abyss.Props.C06
#print axioms Abyss.C06_partition
#print axioms Abyss.C06_tiling
#print axioms Abyss.C06_no_overlap
#print axioms Abyss.C06_owned
#print axioms Abyss.C06_extend_only_if
#print axioms Abyss.C06_reuse
#print axioms Abyss.C06_small_class_bound
#print axioms Abyss.C06_delete_no_growth
#print axioms Abyss.C06_walk_terminates
#print axioms Abyss.C06_reachable
