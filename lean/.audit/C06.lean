import Abyss.Props.C06
import Abyss.Props.C06Bound
import Abyss.Lemmas.AllocBytes
import Abyss.Lemmas.PieceBytesVal
import Abyss.Lemmas.PieceBytesKey
import Abyss.Props.GenCorollaries2
import Abyss.Props.GenBudget
#print axioms Abyss.C06_generated_file_length_bounded_budget
#print axioms Abyss.C06_generated_file_length_bounded
#print axioms Abyss.C06_generated_slots_bounded
#print axioms Abyss.C06_partition
#print axioms Abyss.C06_tiling
#print axioms Abyss.C06_no_overlap
#print axioms Abyss.C06_owned
#print axioms Abyss.C06_extend_only_if
#print axioms Abyss.C06_reuse
#print axioms Abyss.C06_small_class_bound
#print axioms Abyss.C06_delete_no_growth
#print axioms Abyss.C06_walk_terminates
#print axioms Abyss.C06_reachable
#print axioms Abyss.C06_bounded_by_live_set
#print axioms Abyss.C06_bounded_by_live_set_from
#print axioms Abyss.C06_file_length_bounded
#print axioms Abyss.Spec.peak_le
#print axioms Abyss.addPiece_count
#print axioms Abyss.AReach.bound
#print axioms Abyss.pushFree_bytes
#print axioms Abyss.popFree_bytes
#print axioms Abyss.countFree_bytes
#print axioms Abyss.byteOK_key
#print axioms Abyss.byteOK_val
#print axioms Abyss.valAddPiece_bytes
#print axioms Abyss.valRewrite_bytes
#print axioms Abyss.valDeletePiece_bytes
#print axioms Abyss.valRead_bytes
#print axioms Abyss.keyAddPiece_bytes
#print axioms Abyss.keyRewrite_bytes
#print axioms Abyss.keyDeletePiece_bytes
#print axioms Abyss.keyRead_bytes
