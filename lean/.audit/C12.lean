import Abyss.Props.C12
import Abyss.Props.GenCorollaries
import Abyss.Props.C01Budget
#print axioms Abyss.C01_generated_budget
#print axioms Abyss.C05_generated_structure
#print axioms Abyss.parse_image
#print axioms Abyss.C12_signatures
#print axioms Abyss.C12_header_layout
#print axioms Abyss.C12_size_classes
#print axioms Abyss.C12_xorshift
#print axioms Abyss.C12_record_layout
#print axioms Abyss.C12_hash_frozen
#print axioms Abyss.C12_placement
#print axioms Abyss.C12_placed
#print axioms Abyss.C12_readable
