import Abyss.Props.C03
#print axioms Abyss.Buf.C16_reported
#print axioms Abyss.Buf.C16_memory_intact
#print axioms Abyss.Buf.C16_recovers
#print axioms Abyss.Buf.flush_spec
#print axioms Abyss.Buf.C03_durable
