import Abyss.Props.C03
import Abyss.Props.C03Snapshot
import Abyss.Props.C03Db
#print axioms Abyss.Buf.C16_db_reported
#print axioms Abyss.C16_recovered_image
#print axioms Abyss.Buf.C16_reported
#print axioms Abyss.Buf.C16_memory_intact
#print axioms Abyss.Buf.C16_recovers
#print axioms Abyss.Buf.flush_spec
#print axioms Abyss.Buf.C03_durable
