import Abyss.Props.C03
import Abyss.Props.C03Snapshot
import Abyss.Props.C03Db
import Abyss.Props.RaBufP
import Abyss.Props.RaBufMap
import Abyss.Props.C03Rb
import Abyss.Props.C03Gen
import Abyss.Lemmas.FlushGenL
#print axioms Abyss.Buf.dbApplyAll_eq_dbSync
#print axioms Abyss.RaBuf.C16_generated_flush
#print axioms Abyss.C16_recovered_image_rb
#print axioms Abyss.RaBuf.C16_map_faults
#print axioms Abyss.RaBuf.C16_chunk_faults
#print axioms Abyss.RaBuf.C16_chunk_write_error
#print axioms Abyss.RaBuf.flush_ok_counter
#print axioms Abyss.Buf.C16_db_reported
#print axioms Abyss.C16_recovered_image
#print axioms Abyss.Buf.C16_reported
#print axioms Abyss.Buf.C16_memory_intact
#print axioms Abyss.Buf.C16_recovers
#print axioms Abyss.Buf.flush_spec
#print axioms Abyss.Buf.C03_durable
