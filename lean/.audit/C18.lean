import Abyss.Props.C18
import Abyss.Props.GenCorollaries2
import Abyss.Props.GenBudget
#print axioms Abyss.C18_generated_same_updates_same_files_budget
#print axioms Abyss.C18_generated_readonly_erasure_budget
#print axioms Abyss.budgetK_filter_isUpdate
#print axioms Abyss.budgetV_filter_isUpdate
#print axioms Abyss.C18_generated_same_updates_same_files
#print axioms Abyss.C18_generated_readonly_erasure
#print axioms Abyss.C18_readonly_erasure
#print axioms Abyss.C18_same_updates_same_files
#print axioms Abyss.C15_store_frame
