import Abyss.Props.C18
import Abyss.Props.GenCorollaries2
#print axioms Abyss.C18_generated_same_updates_same_files
#print axioms Abyss.C18_generated_readonly_erasure
#print axioms Abyss.C18_readonly_erasure
#print axioms Abyss.C18_same_updates_same_files
#print axioms Abyss.C15_store_frame
