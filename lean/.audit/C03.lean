import Abyss.Props.C03
import Abyss.Props.C02
import Abyss.Props.C03Snapshot
import Abyss.Props.C03Db
import Abyss.Props.RaBufP
import Abyss.Props.RaBufMap
import Abyss.Props.C03Rb
import Abyss.Props.C03Gen
import Abyss.Lemmas.FlushGenL
import Abyss.Props.C04Adapt
#print axioms Abyss.mapIsDirty_eq
#print axioms Abyss.mapIsDirty_apply
#print axioms Abyss.apiIsDirty_apply
#print axioms Abyss.Buf.dbApplyAll_eq_dbSync
#print axioms Abyss.dbApplyAll_eq_applyList
#print axioms Abyss.RaBuf.C03_generated_flush
#print axioms Abyss.RaBuf.mapFlush_eq_MapRb_flushLike
#print axioms Abyss.dirty_flag_pins
#print axioms Abyss.C03_snapshot_opens_rb
#print axioms Abyss.RaBuf.C03_map_durable
#print axioms Abyss.RaBuf.C03_chunk_durable
#print axioms Abyss.RaBuf.flush_spec
#print axioms Abyss.Buf.C03_db_level
#print axioms Abyss.Buf.C03_db_memory
#print axioms Abyss.C03_snapshot_opens
#print axioms Abyss.Buf.C03_crash_image
#print axioms Abyss.Buf.C03_durable
#print axioms Abyss.Buf.C03_fresh
#print axioms Abyss.Buf.C03_sync_events
#print axioms Abyss.Buf.flush_spec
#print axioms Abyss.Buf.update_ok
#print axioms Abyss.Buf.write_coherent
#print axioms Abyss.parse_render
