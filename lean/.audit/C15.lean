import Abyss.Props.C15
import Abyss.Props.GenCorollaries
import Abyss.Props.GenCorollaries3
import Abyss.Props.C04Adapt
import Abyss.Lemmas.ReadFillL
import Abyss.Props.GenBudget
#print axioms Abyss.C15_generated_session_after_budget
#print axioms Abyss.C15_generated_readFillBuffer
#print axioms Abyss.readFillBuffer_apply
#print axioms Abyss.RaBuf.readFillBuffer_flat
#print axioms Abyss.C15_generated_session
#print axioms Abyss.C15_generated_session_after
#print axioms Abyss.C15_generated_readonly
#print axioms Abyss.C04_generated_iter
#print axioms Abyss.C15_store_frame
#print axioms Abyss.C15_files_unchanged
#print axioms Abyss.C15_delete_absent
#print axioms Abyss.C15_session
#print axioms Abyss.C15_flush_clean
#print axioms Abyss.Buf.C16_memory_intact
