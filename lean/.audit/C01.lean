import Abyss.Props.C01
import Abyss.Props.C01Gen
import Abyss.Props.GenCorollaries
import Abyss.Props.C01Budget
#print axioms Abyss.C01_generated_budget
#print axioms Abyss.C01_generated_from_empty_budget
#print axioms Abyss.FilesSmall_of_budget
#print axioms Abyss.end_le_budget
#print axioms Abyss.budgetExample_ok
#print axioms Abyss.C01_generated_from_empty
#print axioms Abyss.C01_history
#print axioms Abyss.run_refines
#print axioms Abyss.step_refines
#print axioms Abyss.C01_spec_laws
#print axioms Abyss.C01_generated_engine
#print axioms Abyss.genRun_refines
#print axioms Abyss.genStep_refines
#print axioms Abyss.put_bytes
#print axioms Abyss.del_bytes
#print axioms Abyss.get_bytes
#print axioms Abyss.includes_bytes
#print axioms Abyss.len_bytes
#print axioms Abyss.find_bytes
#print axioms Abyss.Store.put_spec
#print axioms Abyss.Store.del_spec
#print axioms Abyss.Store.get_spec
#print axioms Abyss.Store.find_spec
#print axioms Abyss.Store.relink_spec
#print axioms Abyss.Store.init_inv
#print axioms Abyss.RecFile.addPiece_spec
#print axioms Abyss.RecFile.rewrite_spec
#print axioms Abyss.RecFile.deletePiece_spec
