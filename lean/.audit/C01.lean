import Abyss.Props.C01
#print axioms Abyss.C01_history
#print axioms Abyss.run_refines
#print axioms Abyss.step_refines
#print axioms Abyss.C01_spec_laws
#print axioms Abyss.Store.put_spec
#print axioms Abyss.Store.del_spec
#print axioms Abyss.Store.get_spec
#print axioms Abyss.Store.find_spec
#print axioms Abyss.Store.relink_spec
#print axioms Abyss.Store.init_inv
#print axioms Abyss.RecFile.addPiece_spec
#print axioms Abyss.RecFile.rewrite_spec
#print axioms Abyss.RecFile.deletePiece_spec
