import Abyss.Gen.Engine
import Abyss.Ops
import Abyss.Scan
import Abyss.Stats
import Abyss.Render
import Abyss.Check
import Abyss.Open
import Abyss.Parse
import Abyss.RaBuf
/-!
# Line-protocol driver of the executable model (no Mathlib; built as `abyss-driver`)
One request per input line, one answer line per request. See harness/src/proto.rs.
-/
open Abyss

def hexDigit (c : Char) : Option Nat :=
  if '0' ≤ c ∧ c ≤ '9' then some (c.toNat - '0'.toNat)
  else if 'a' ≤ c ∧ c ≤ 'f' then some (c.toNat - 'a'.toNat + 10)
  else none

def parseHex : List Char → Option (List Nat)
  | [] => some []
  | a :: b :: rest =>
    match hexDigit a, hexDigit b, parseHex rest with
    | some x, some y, some r => some ((x * 16 + y) :: r)
    | _, _, _ => none
  | _ => none

/-- pattern bytes shared with the harness: byte i = (seed*31 + i*7 + i/256) % 251 -/
def patBytes (len seed : Nat) : List Nat :=
  (List.range len).map fun i => (seed * 31 + i * 7 + i / 256) % 251

/-- `x<hex>` or `p<len>:<seed>` -/
def parseBytes (tok : String) : Option (List Nat) :=
  match tok.toList with
  | 'x' :: rest => parseHex rest
  | 'p' :: rest =>
    match (String.ofList rest).splitOn ":" with
    | [l, s] => match l.toNat?, s.toNat? with
      | some l, some s => some (patBytes l s)
      | _, _ => none
    | _ => none
  | _ => none

def hexOf (bs : List Nat) : String :=
  String.ofList (bs.flatMap fun b =>
    let d := fun (n : Nat) => if n < 10 then Char.ofNat (n + 48) else Char.ofNat (n + 87)
    [d (b / 16), d (b % 16)])

def checksum (bs : List Nat) : Nat := bs.foldl (fun h b => (h * 131 + b + 1) % 4294967291) 7

/-- canonical short representation of a byte string: len:hexprefix:checksum -/
def brepr (bs : List Nat) : String :=
  s!"{bs.length}:{hexOf (bs.take 12)}:{checksum bs}"

def reprOpt : Option (List Nat) → String
  | none => "none"
  | some v => "some " ++ brepr v

def parseKt : String → Option KeyType
  | "string" => some .string | "bytes" => some .bytes | "u64" => some .u64
  | "i64" => some .i64 | "vu64" => some .vu64 | _ => none

def pairs (l : List (Nat × Nat)) : String :=
  "[" ++ ",".intercalate (l.map fun p => s!"{p.1}:{p.2}") ++ "]"

def cmpFile (model : List Nat) (path : String) : IO String := do
  let ba ← IO.FS.readBinFile path
  let rec go (i : Nat) (m : List Nat) : String :=
    match m with
    | [] => if i = ba.size then "ok" else s!"len(model={i},impl={ba.size})"
    | b :: rest =>
      if i < ba.size then
        if (ba.get! i).toNat = b then go (i + 1) rest
        else s!"diff@{i}(model={b},impl={(ba.get! i).toNat})"
      else s!"len(model={i + m.length},impl={ba.size})"
  return go 0 model

abbrev Maps := List (String × KeyType × Store)

/-- which branches of the model the correspondence run exercised -/
initialize covRef : IO.Ref (List (String × Nat)) ← IO.mkRef []

def bump (k : String) : IO Unit :=
  covRef.modify fun l =>
    if l.any (·.1 == k) then l.map (fun p => if p.1 == k then (p.1, p.2 + 1) else p) else (k, 1) :: l

def valOffOf (s : Store) (off : Nat) : Nat :=
  match s.kf.get off with | some (.used _ r) => r.valOff | _ => 0

/-- classify a `put` by what it did to the records -/
def classifyPut (kt : KeyType) (s s' : Store) (k v : List Nat) : IO Unit := do
  match s.find kt k, s'.find kt k with
  | some none, _ =>
    bump "put-new"
    if s'.vf.end_ > s.vf.end_ then bump "val-extend" else bump "val-reuse-free-slot"
    if s'.kf.end_ > s.kf.end_ then bump "key-extend" else bump "key-reuse-free-slot"
    if Gen.isLargePieceSize valCfg.sizeAry (valueNeed v.length) && s'.vf.end_ == s.vf.end_ then bump "large-list-first-fit-hit"
  | some (some (off, _)), some (some (off', _)) =>
    bump "put-overwrite"
    if valOffOf s off == valOffOf s' off' then bump "val-in-place" else bump "val-moved"
    if off == off' then pure () else
      bump "key-record-moved"
      if s'.kf.slots.length > s.kf.slots.length + 1 || (s'.kf.end_ > s.kf.end_ + 1024) then bump "relink-cascade(>1 append)"
    if s'.headOf (bucketOf k s.n) != s.headOf (bucketOf k s.n) then bump "bucket-head-relinked"
  | _, _ => pure ()

def classifyDel (kt : KeyType) (s s' : Store) (k : List Nat) : IO Unit := do
  match s.find kt k with
  | some none => bump "del-absent"
  | some (some (_, prev)) =>
    if prev == 0 then bump "del-chain-head" else
      bump "del-chain-inner"
      match s.kf.get prev with
      | some (.used _ pr) =>
        match s'.find kt pr.key with
        | some (some (p', _)) => if p' != prev then bump "del-predecessor-moved" else pure ()
        | _ => pure ()
      | _ => pure ()
  | _ => pure ()
  if s'.count == 0 && s.count > 0 then bump "map-emptied" else pure ()

def findMap (ms : Maps) (name : String) : Option (KeyType × Store) :=
  (ms.find? (·.1 == name)).map (·.2)
def setMap (ms : Maps) (name : String) (kt : KeyType) (s : Store) : Maps :=
  (name, kt, s) :: ms.filter (·.1 != name)

def statsLine (s : Store) : String :=
  let o := fun (x : Option (List (Nat × Nat))) => match x with | some l => pairs l | none => "FAIL"
  let (c, pm) := s.htxFillingRate
  s!"fk={o s.countOfFreeKeyPiece} fv={o s.countOfFreeValuePiece} kps={o s.keyPieceSizeStats} " ++
  s!"vps={o s.valuePieceSizeStats} kl={o s.keyLengthStats} vl={o s.valueLengthStats} fill={c}:{pm}"

def iterLine (s : Store) : String :=
  match s.iterAll with
  | none => "FAIL"
  | some (kvs, hints, itEnd) =>
    -- three more calls after the end: must all be none
    let after := (List.range 3).foldl (fun (acc : Option (IterState × Bool)) _ =>
      match acc with
      | none => none
      | some (it, ok) => match s.iterNext it with
        | none => none
        | some (it', r) => some (it', ok && r.isNone)) (some (itEnd, true))
    let fused := match after with | some (_, true) => "fused" | _ => "NOTFUSED"
    let items := ",".intercalate (kvs.map fun (k, v) => brepr k ++ "=" ++ brepr v)
    let hs := ",".intercalate (hints.map toString)
    s!"n={kvs.length} items=[{items}] hints=[{hs}] {fused}"

/-- breakpoints of a piecewise-constant function on [a, b) -/
def breakpoints (f : Nat → Nat × Nat) (a b : Nat) : String := Id.run do
  let mut out := ""
  let mut last : Nat × Nat := (0, 0)
  let mut first := true
  for i in [a:b] do
    let v := f i
    if first || v != last then
      out := out ++ s!"{i}:{v.1},{v.2};"
      last := v
      first := false
  return out

def genLine (args : List String) : String :=
  match args with
  | ["vslot", l] => match l.toNat? with
    | some l => let (a, b, _) := Gen.valueEncodedPieceSize l; s!"{a + b} {valueNeed l}"
    | none => "bad"
  | ["kslot", kl, vo, nx] => match kl.toNat?, vo.toNat?, nx.toNat? with
    | some kl, some vo, some nx =>
      let (a, b, _) := Gen.keyEncodedPieceSize kl vo nx
      s!"{a + b} {Gen.roundup keyCfg.sizeAry (a + b)}"
    | _, _, _ => "bad"
  | ["vslotrange", a, b] => match a.toNat?, b.toNat? with
    | some a, some b => breakpoints (fun l =>
        let (x, y, _) := Gen.valueEncodedPieceSize l; (x + y - l, valueNeed l)) a b
    | _, _ => "bad"
  | ["kslotrange", a, b, vo, nx] => match a.toNat?, b.toNat?, vo.toNat?, nx.toNat? with
    | some a, some b, some vo, some nx => breakpoints (fun l =>
        let (x, y, _) := Gen.keyEncodedPieceSize l vo nx
        (x + y - l, Gen.roundup keyCfg.sizeAry (x + y))) a b
    | _, _, _, _ => "bad"
  | ["krounduprange", a, b] => match a.toNat?, b.toNat? with
    | some a, some b => breakpoints (fun x => (Gen.roundup keyCfg.sizeAry x, Gen.roundup valCfg.sizeAry x)) a b
    | _, _ => "bad"
  | ["caprange", a, b] => match a.toNat?, b.toNat? with
    | some a, some b => breakpoints (fun x => ((Gen.capacityToBucketsSize x).getD 0, (Gen.bucketsOf (.bucketsSize x)).getD 0)) a b
    | _, _ => "bad"
  | ["kroundup", x] => match x.toNat? with
    | some x => s!"{Gen.roundup keyCfg.sizeAry x}" | none => "bad"
  | ["vroundup", x] => match x.toNat? with
    | some x => s!"{Gen.roundup valCfg.sizeAry x}" | none => "bad"
  | ["kfree", x] => match x.toNat? with
    | some x => s!"{Gen.freePieceListOffsetOfHeader keyCfg.freeOffsets keyCfg.sizeAry x} {Gen.isLargePieceSize keyCfg.sizeAry x}"
    | none => "bad"
  | ["vfree", x] => match x.toNat? with
    | some x => s!"{Gen.freePieceListOffsetOfHeader valCfg.freeOffsets valCfg.sizeAry x} {Gen.isLargePieceSize valCfg.sizeAry x}"
    | none => "bad"
  | ["cap", x] => match x.toNat? with
    | some x => match Gen.capacityToBucketsSize x with | some r => s!"{r}" | none => "panic"
    | none => "bad"
  | ["buckets", kind, x] => match x.toNat? with
    | some x =>
      let p := match kind with
        | "size" => Gen.HashBucketsParam.bucketsSize x
        | "cap" => Gen.HashBucketsParam.capacity x
        | _ => Gen.HashBucketsParam.default
      match Gen.bucketsOf p with | some r => s!"{r}" | none => "panic"
    | none => "bad"
  | ["xs", x] => match x.toNat? with
    | some x => s!"{Gen.xorshift64s x}" | none => "bad"
  | ["hash", k] => match parseBytes k with
    | some k => s!"{hashValue k}" | none => "bad"
  | ["u64", x] => match x.toNat? with
    | some x => s!"{hexOf (u64Key x)} {u64OfKey (u64Key x)}" | none => "bad"
  | ["i64", x] => match x.toInt? with
    | some x => s!"{hexOf (i64Key x)} {i64OfKey (i64Key x)}" | none => "bad"
  | ["vu64", x] => match x.toNat? with
    | some x => s!"{hexOf (vu64Key x)} {match vu64OfKey (vu64Key x) with | some v => toString v | none => "panic"}"
    | none => "bad"
  | ["sig", kt] => match parseKt kt with
    | some kt => hexOf kt.sig | none => "bad"
  | ["cmp", kt, a, b] => match parseKt kt, parseBytes a, parseBytes b with
    | some kt, some a, some b =>
      let r := match kt with
        | .string => Gen.cmpU8String a b | .bytes => Gen.cmpU8Bytes a b | .u64 => Gen.cmpU8U64 a b
        | .i64 => Gen.cmpU8I64 a b | .vu64 => Gen.cmpU8Vu64 a b
      match r with
      | some .lt => "lt" | some .eq => "eq" | some .gt => "gt" | none => "panic"
    | _, _, _ => "bad"
  | ["u64of", k] => match parseBytes k with
    | some k => s!"{Gen.keyToU64 k}" | none => "bad"
  | ["i64of", k] => match parseBytes k with
    | some k => s!"{Gen.keyToI64 k}" | none => "bad"
  | ["u64be", kt, x] => match x.toNat? with
    | some x => if kt == "string" then hexOf (Gen.stringKeyOfU64 x) else hexOf (Gen.bytesKeyOfU64 x)
    | none => "bad"
  | _ => "bad"


/-!
## RaBuf section: the model of `rabuf::BufFile` (Abyss/RaBuf.lean) behind the line protocol

One buffer at a time; the driver keeps its state, the fault schedule and the write-attempt counter.
Every command starts with `rb`.  `<bytes>` is `-` (empty), `x<hex>`, `z<n>` (n zero bytes) or
`p<len>:<seed>` (pattern bytes, `patBytes`).  Answers: `ok …`, `err io` (a refused chunk write / a failed chunk load),
`err hang` (the real call would never return; the buffer is then dead: every later command except
`state`/`sum`/`logical` answers `err dead`), `err closed` (after `drop`), `err nobuf`, `bad-op`.

  rb cap <cs> <max> <bytes>        with_capacity over a file with these bytes   -> ok <end> <max>
  rb pm <cs> <permille> <bytes>    with_per_mille                               -> ok <end> <max>
  rb new <bytes>                   new (= pm 4096 20)                           -> ok <end> <max>
  rb reopen cap <cs> <max>         drop (flush, result ignored), then with_capacity over the disk -> ok <end> <max>
  rb reopen pm <cs> <permille>     likewise with_per_mille                      -> ok <end> <max>
  rb seek <off>                    seek(Start off)                              -> ok <pos>
  rb seekend [<x>]                 seek(End x), x an integer, default 0; both signs go back -> ok <pos>
  rb seekcur <±n>                  seek(Current n)                              -> ok <pos>
  rb setlen <n>                    FileSetLen::set_len                          -> ok
  rb read <n>                      one Read::read into n bytes                  -> ok <hex of the bytes returned>
  rb readexact <n>                 read_exact                                   -> ok <hex> | err io
  rb readsmall <n>                 SmallRead fast paths for an n-byte item      -> ok <hex> | err io
  rb write <bytes>                 one Write::write                             -> ok <count>
  rb writeall <bytes>              write_all                                    -> ok
  rb writesmall <bytes>            SmallWrite fast paths                        -> ok
  rb prepare <off>                 prepare(off)                                 -> ok
  rb flush                         Write::flush                                 -> ok | err io
  rb clear                         clear (flush, keep only chunk 0)             -> ok | err io
  rb fill                          read_fill_buffer                             -> ok
  rb drop                          Drop (flush, result ignored)                 -> ok
  rb faults <i1,i2,…|-> <prefix>   the write attempts number counter+i1, counter+i2, … (0 = the next one)
                                   will be refused; <prefix> bytes of a refused write reach the disk -> ok
  rb state   -> pos=<n> end=<n> max=<n> k=<counter> chunks=<off:dirty(0|1),… sorted by off> disk=<hex>
  rb sum     -> pos=<n> end=<n> max=<n> k=<counter> ev=<operations that evicted so far> nchunks=<n> ndirty=<n> has0=<0|1> dlen=<n> dsum=<checksum of the disk>
  rb logical -> ok <hex of St.logical>
(every fallible command can also answer `err io` / `err hang`)
-/
structure Rb where
  st : Option RaBuf.St := none
  k : Nat := 0
  fails : List Nat := []
  pfx : Nat := 0
  dead : Bool := false
  closed : Bool := false
  /-- how many operations (other than clear / reopen) made a resident chunk non-resident -/
  ev : Nat := 0

def Rb.faults (r : Rb) : RaBuf.Faults := ⟨fun i => r.fails.contains i, fun _ => r.pfx⟩

def rbBytes (tok : String) : Option (List Nat) :=
  if tok == "-" then some []
  else match tok.toList with
    | 'z' :: rest => (String.ofList rest).toNat?.map RaBuf.zeros
    | _ => parseBytes tok

def rbChunks (s : RaBuf.St) : String :=
  ",".intercalate ((RaBuf.sortOffs (s.chunks.map (·.off))).map fun o =>
    match RaBuf.findChunk s.chunks o with
    | some c => s!"{o}:{if c.dirty then 1 else 0}"
    | none => s!"{o}:?")

def rbEvicted (r : Rb) (new : RaBuf.St) : Nat :=
  match r.st with
  | some old => if old.chunks.any (fun c => (RaBuf.findChunk new.chunks c.off).isNone) then 1 else 0
  | none => 0

def rbOut {α : Type} (r : Rb) (o : RaBuf.Out α) (show_ : α → String) : Rb × String :=
  let r := { r with ev := r.ev + rbEvicted r o.st }
  match o with
  | .ok s k a => ({ r with st := some s, k := k }, ("ok " ++ show_ a).trimAscii.toString)
  | .err s k => ({ r with st := some s, k := k }, "err io")
  | .hang s k => ({ r with st := some s, k := k, dead := true }, "err hang")

def rbOk3 (r : Rb) (x : RaBuf.St × Nat × Bool) : Rb × String :=
  ({ r with st := some x.1, k := x.2.1 }, if x.2.2 then "ok" else "err io")

def rbOpen (r : Rb) (s : RaBuf.St) : Rb × String :=
  ({ r with st := some s, dead := false, closed := false }, s!"ok {s.end_} {s.max}")

def handleRb (r : Rb) (args : List String) : Rb × String :=
  let φ := r.faults
  match args with
  | ["cap", cs, mx, b] =>
    match cs.toNat?, mx.toNat?, rbBytes b with
    | some cs, some mx, some b => if cs = 0 then (r, "bad-op") else rbOpen { r with k := 0, fails := [], pfx := 0, ev := 0 } (RaBuf.withCapacity cs mx b)
    | _, _, _ => (r, "bad-op")
  | ["pm", cs, pm, b] =>
    match cs.toNat?, pm.toNat?, rbBytes b with
    | some cs, some pm, some b => if cs = 0 then (r, "bad-op") else rbOpen { r with k := 0, fails := [], pfx := 0, ev := 0 } (RaBuf.withPerMille cs pm b)
    | _, _, _ => (r, "bad-op")
  | ["new", b] =>
    match rbBytes b with
    | some b => rbOpen { r with k := 0, fails := [], pfx := 0, ev := 0 } (RaBuf.new b)
    | none => (r, "bad-op")
  | _ =>
  match r.st with
  | none => (r, "err nobuf")
  | some s =>
  match args with
  | ["state"] => (r, s!"pos={s.pos} end={s.end_} max={s.max} k={r.k} chunks={rbChunks s} disk={hexOf s.disk}")
  | ["sum"] =>
    let nd := (s.chunks.filter (·.dirty)).length
    let z := if (RaBuf.findChunk s.chunks 0).isSome then 1 else 0
    (r, s!"pos={s.pos} end={s.end_} max={s.max} k={r.k} ev={r.ev} nchunks={s.chunks.length} ndirty={nd} has0={z} dlen={s.disk.length} dsum={checksum s.disk}")
  | ["logical"] => (r, ("ok " ++ hexOf s.logical).trimAscii.toString)
  | ["faults", l, p] =>
    let idx : Option (List Nat) :=
      if l == "-" then some []
      else (l.splitOn ",").foldr (fun t acc => match t.toNat?, acc with | some n, some a => some (n :: a) | _, _ => none) (some [])
    match idx, p.toNat? with
    | some idx, some p => ({ r with fails := idx.map (· + r.k), pfx := p }, "ok")
    | _, _ => (r, "bad-op")
  | "reopen" :: rest =>
    if r.dead then (r, "err dead") else
    let (s1, k1) := if r.closed then (s, r.k) else RaBuf.drop_ φ s r.k
    let r1 := { r with k := k1 }
    match rest with
    | ["cap", cs, mx] =>
      match cs.toNat?, mx.toNat? with
      | some cs, some mx => if cs = 0 then (r, "bad-op") else rbOpen r1 (RaBuf.withCapacity cs mx s1.disk)
      | _, _ => (r, "bad-op")
    | ["pm", cs, pm] =>
      match cs.toNat?, pm.toNat? with
      | some cs, some pm => if cs = 0 then (r, "bad-op") else rbOpen r1 (RaBuf.withPerMille cs pm s1.disk)
      | _, _ => (r, "bad-op")
    | _ => (r, "bad-op")
  | _ =>
  if r.dead then (r, "err dead") else
  if r.closed then (r, "err closed") else
  let pure_ := fun (s' : RaBuf.St) (ans : String) => ({ r with st := some s' }, ans)
  match args with
  | ["seek", x] =>
    match x.toNat? with
    | some x => let s' := RaBuf.seekStart s x; pure_ s' s!"ok {s'.pos}"
    | none => (r, "bad-op")
  | ["seekend"] => let s' := RaBuf.seekEnd0 s; pure_ s' s!"ok {s'.pos}"
  | ["seekend", x] =>
    match x.toInt? with
    | some x => let s' := RaBuf.seekEnd s x.natAbs; pure_ s' s!"ok {s'.pos}"
    | none => (r, "bad-op")
  | ["seekcur", d] =>
    match (if d.startsWith "+" then (d.drop 1).toString.toInt? else d.toInt?) with
    | some d => let s' := RaBuf.seekCur s d; pure_ s' s!"ok {s'.pos}"
    | none => (r, "bad-op")
  | ["setlen", n] =>
    match n.toNat? with
    | some n => pure_ (RaBuf.setLen s n) "ok"
    | none => (r, "bad-op")
  | ["read", n] =>
    match n.toNat? with
    | some n => rbOut r (RaBuf.read φ s r.k n) hexOf
    | none => (r, "bad-op")
  | ["readexact", n] =>
    match n.toNat? with
    | some n => rbOut r (RaBuf.readExact φ s r.k n) hexOf
    | none => (r, "bad-op")
  | ["readsmall", n] =>
    match n.toNat? with
    | some n => rbOut r (RaBuf.readSmall φ s r.k n) hexOf
    | none => (r, "bad-op")
  | ["write", b] =>
    match rbBytes b with
    | some b => rbOut r (RaBuf.write φ s r.k b) toString
    | none => (r, "bad-op")
  | ["writeall", b] =>
    match rbBytes b with
    | some b => rbOut r (RaBuf.writeAll φ s r.k b) (fun _ => "")
    | none => (r, "bad-op")
  | ["writesmall", b] =>
    match rbBytes b with
    | some b => rbOut r (RaBuf.writeSmall φ s r.k b) (fun _ => "")
    | none => (r, "bad-op")
  | ["prepare", x] =>
    match x.toNat? with
    | some x => rbOut r (RaBuf.prepare φ s r.k x) (fun _ => "")
    | none => (r, "bad-op")
  | ["flush"] => rbOk3 r (RaBuf.flush φ s r.k)
  | ["clear"] => rbOk3 r (RaBuf.clear φ s r.k)
  | ["fill"] => rbOut r (RaBuf.readFillBuffer φ s r.k) (fun _ => "")
  | ["drop"] =>
    let (s', k') := RaBuf.drop_ φ s r.k
    ({ r with st := some s', k := k', closed := true }, "ok")
  | _ => (r, "bad-op")

/-! ## the engine generated from the Rust source (`Abyss/Gen/Engine.lean`), on bytes

`ge <name> open <kt> <n>` starts from the rendered image of a fresh map; `ge <name> put|get|del|inc|len …`
run `Gen.putKt` … on the three byte images; `ge <name> cmp <dir>` compares them with the real files.
The harness sends every operation to the real crate, to the hand model and here (facets `gen-api`,
`gen-bytes`): a direct validation of the translated code against the compiled code. -/
initialize geRef : IO.Ref (List (String × KeyType × Nat × DbSt)) ← IO.mkRef []

def geCmp (kt : KeyType) : List Nat → List Nat → Option Ordering :=
  match kt with
  | .string => Gen.cmpU8String | .bytes => Gen.cmpU8Bytes | .u64 => Gen.cmpU8U64
  | .i64 => Gen.cmpU8I64 | .vu64 => Gen.cmpU8Vu64

def handleGe (name cmd : String) (args : List String) : IO String := do
  let l ← geRef.get
  let put (kt : KeyType) (n : Nat) (d : DbSt) : IO Unit :=
    geRef.set ((name, kt, n, d) :: l.filter (fun e => e.1 != name))
  match cmd, args with
  | "open", [kt, n] =>
    match parseKt kt, n.toNat? with
    | some kt, some n =>
      -- creation through the generated `open_with_params` path, from three empty files
      match Gen.openMap kt.sig (.bucketsSize n) ⟨⟨[], 0⟩, ⟨[], 0⟩, ⟨[], 0⟩⟩ with
      | some (n', d) => if n' == n then put kt n d; return "ok" else return s!"open-size {n'}"
      | none => return "panic"
    | _, _ => return "bad-op"
  | _, _ =>
    match l.find? (fun e => e.1 == name) with
    | none => return "no-map"
    | some (_, kt, n, d) =>
      match cmd, args with
      | "put", [k, v] =>
        match parseBytes k, parseBytes v with
        | some k, some v =>
          match Gen.putKt keyCfg valCfg n (geCmp kt) (hashValue k) k v d with
          | some (_, d') => put kt n d'; return "ok"
          | none => return "panic"
        | _, _ => return "bad-op"
      | "get", [k] =>
        match parseBytes k with
        | some k =>
          match Gen.getKt n (geCmp kt) (hashValue k) k d with
          | some (r, d') => put kt n d'; return reprOpt r
          | none => return "panic"
        | none => return "bad-op"
      | "del", [k] =>
        match parseBytes k with
        | some k =>
          match Gen.delKt keyCfg valCfg n (geCmp kt) (hashValue k) k d with
          | some (r, d') => put kt n d'; return reprOpt r
          | none => return "panic"
        | none => return "bad-op"
      | "inc", [k] =>
        match parseBytes k with
        | some k =>
          match Gen.includesKeyKt n (geCmp kt) (hashValue k) k d with
          | some (r, d') => put kt n d'; return toString r
          | none => return "panic"
        | none => return "bad-op"
      | "len", [] =>
        match Gen.lenKt d with
        | some (r, d') => put kt n d'; return toString r
        | none => return "panic"
      | "iter", [] =>
        -- the generated iterator run to exhaustion (+3 calls), same line format as the model's `iter`
        match Gen.iterNew d with
        | none => return "FAIL"
        | some (st0, d0) =>
          let rec go (fuel : Nat) (st : Nat × Nat × Nat × Nat) (d : DbSt) (kvs : List (List Nat × List Nat)) (hints : List Nat) :
              Option (List (List Nat × List Nat) × List Nat × (Nat × Nat × Nat × Nat) × DbSt) :=
            match fuel with
            | 0 => none
            | fuel+1 =>
              match Gen.iterNext st d with
              | none => none
              | some ((none, st'), d') => some (kvs.reverse, (st.1 :: hints).reverse, st', d')
              | some ((some kv, st'), d') => go fuel st' d' (kv :: kvs) (st.1 :: hints)
          match go (st0.1 + 2) st0 d0 [] [] with
          | none => return "FAIL"
          | some (kvs, hints, stE, dE) =>
            let after := (List.range 3).foldl (fun (acc : Option ((Nat × Nat × Nat × Nat) × DbSt × Bool)) _ =>
              match acc with
              | none => none
              | some (st, d, ok) => match Gen.iterNext st d with
                | none => none
                | some ((r, st'), d') => some (st', d', ok && r.isNone)) (some (stE, dE, true))
            let fused := match after with | some (_, _, true) => "fused" | _ => "NOTFUSED"
            match after with
            | some (_, d', _) => put kt n d'
            | none => pure ()
            let items := ",".intercalate (kvs.map fun (k, v) => brepr k ++ "=" ++ brepr v)
            let hs := ",".intercalate (hints.map toString)
            return s!"n={kvs.length} items=[{items}] hints=[{hs}] {fused}"
      | "stats", [] =>
        let o := fun (x : Option (List (Nat × Nat) × DbSt)) => match x with | some (l, _) => pairs l | none => "FAIL"
        let fill := match Gen.htxFillingRatePerMill n d with | some ((c, pm), _) => s!"{c}:{pm}" | none => "FAIL"
        return s!"fk={o (Gen.countOfFreeKeyPiece keyCfg d)} fv={o (Gen.countOfFreeValuePiece valCfg d)} kps={o (Gen.keyPieceSizeStats d)} " ++
          s!"vps={o (Gen.valuePieceSizeStats d)} kl={o (Gen.keyLengthStats d)} vl={o (Gen.valueLengthStats d)} fill={fill}"
      | "cmp", [dir] =>
        let h ← cmpFile d.htx.bytes s!"{dir}/{name}.htx"
        let k ← cmpFile d.key.bytes s!"{dir}/{name}.key"
        let v ← cmpFile d.val.bytes s!"{dir}/{name}.val"
        return s!"htx={h} key={k} val={v}"
      | _, _ => return "bad-op"

def handle (ms : Maps) (line : String) : IO (Maps × String) := do
  match line.trimAscii.toString.splitOn " " with
  | "ge" :: name :: cmd :: args => do
    let a ← handleGe name cmd args
    return (ms, a)
  | "gen" :: args => return (ms, genLine args)
  | ["cov"] => do
    let l ← covRef.get
    return (ms, ",".intercalate (l.map fun p => s!"{p.1}={p.2}"))
  | name :: "open" :: kt :: n :: _ =>
    match parseKt kt, n.toNat? with
    | some kt, some n => return (setMap ms name kt (Store.init n), "ok")
    | _, _ => return (ms, "bad-op")
  | name :: cmd :: args =>
    match findMap ms name with
    | none => return (ms, "no-map")
    | some (kt, s) =>
      match cmd, args with
      | "put", [k, v] =>
        match parseBytes k, parseBytes v with
        | some k, some v =>
          match s.put kt k v with
          | some s' => do
            classifyPut kt s s' k v
            return (setMap ms name kt s', "ok")
          | none => return (ms, "FAIL")
        | _, _ => return (ms, "bad-op")
      | "get", [k] =>
        match parseBytes k with
        | some k => match s.get kt k with
          | some r => return (ms, reprOpt r)
          | none => return (ms, "FAIL")
        | none => return (ms, "bad-op")
      | "del", [k] =>
        match parseBytes k with
        | some k => match s.del kt k with
          | some (s', r) => do
            classifyDel kt s s' k
            return (setMap ms name kt s', reprOpt r)
          | none => return (ms, "FAIL")
        | none => return (ms, "bad-op")
      | "inc", [k] =>
        match parseBytes k with
        | some k => match s.includes kt k with
          | some b => return (ms, toString b)
          | none => return (ms, "FAIL")
        | none => return (ms, "bad-op")
      | "len", [] => return (ms, toString s.len)
      | "empty", [] => return (ms, toString (decide (s.len = 0)))
      | "iter", [] => return (ms, iterLine s)
      | "stats", [] => return (ms, statsLine s)
      | "noop", _ => return (ms, "ok")
      | "openas", [kt2, f, pos, b] =>
        match parseKt kt2, pos.toNat?, b.toNat? with
        | some kt2, some pos, some b =>
          let img := render kt s
          let img := match f with
            | "htx" => img.mutate .htx pos b
            | "key" => img.mutate .key pos b
            | "val" => img.mutate .val pos b
            | _ => img
          return (ms, if openAccepts kt2 img then "accept" else "reject")
        | _, _, _ => return (ms, "bad-op")
      | "parse", [dir] =>
        let rd := fun (e : String) => do
          let ba ← IO.FS.readBinFile s!"{dir}/{name}.{e}"
          pure (ba.toList.map (·.toNat))
        let img : Image := ⟨← rd "htx", ← rd "key", ← rd "val"⟩
        match parse kt img with
        | none => return (ms, "parse=FAIL")
        | some t =>
          let same := if t.sameB s then "ok" else "DIFF"
          let inv := match t.checkInv kt with | none => "ok" | some e => "FAIL:" ++ e
          return (ms, s!"parse=ok same={same} inv={inv}")
      | "check", [] =>
        match s.checkInv kt with
        | none => return (ms, "inv-ok")
        | some e => return (ms, "inv-FAIL:" ++ e)
      | "bucket", [k] =>
        match parseBytes k with
        | some k => return (ms, toString (bucketOf k s.n))
        | none => return (ms, "bad-op")
      | "cmp", [dir] =>
        let img := render kt s
        let h ← cmpFile img.htx s!"{dir}/{name}.htx"
        let k ← cmpFile img.key s!"{dir}/{name}.key"
        let v ← cmpFile img.val s!"{dir}/{name}.val"
        return (ms, s!"htx={h} key={k} val={v}")
      | _, _ => return (ms, "bad-op")
  | _ => return (ms, "bad-op")

partial def loop (h : IO.FS.Stream) (out : IO.FS.Stream) (ms : Maps) (rb : Rb) : IO Unit := do
  let line ← h.getLine
  if line.isEmpty then return ()
  match line.trimAscii.toString.splitOn " " with
  | "rb" :: args =>
    let (rb', ans) := handleRb rb args
    out.putStrLn ans
    out.flush
    loop h out ms rb'
  | _ =>
    let (ms', ans) ← handle ms line
    out.putStrLn ans
    out.flush
    loop h out ms' rb

def main : IO Unit := do
  loop (← IO.getStdin) (← IO.getStdout) [] {}
