import Abyss.Gen.ApiOps
/-!
# The loops of the generated API wrappers (`Abyss/Gen/ApiOps.lean`) without fuel

`while let Some(x) = vec.pop() { … }` is generated as a function recursive on fuel (`Gen.apiBulkGetLoop`, …) that the caller
starts with `vec.length + 1`.  Here: with that much fuel the loop is the structural recursion over the vector read FROM THE
END (`getSeq` … over `vec.reverse`), so the fuel is never exhausted; `ApiM.sortByIdx` returns a permutation that is
sorted by the index; `ApiM.enumerate` lists the indices `0 … n-1` with the elements.  No property of the map is used.
-/
namespace Abyss
open Gen
variable {σ α : Type}

namespace ApiM

@[simp] theorem pop_nil : pop ([] : List α) = none := rfl

@[simp] theorem pop_concat (l : List α) (x : α) : pop (l ++ [x]) = some (x, l) := by
  simp [pop]

theorem insertByIdx_perm (x : Nat × α) (l : List (Nat × α)) : (insertByIdx x l).Perm (x :: l) := by
  induction l with
  | nil => exact List.Perm.refl _
  | cons y ys ih =>
    simp only [insertByIdx]
    split
    · exact List.Perm.refl _
    · exact (List.Perm.cons y ih).trans (List.Perm.swap x y ys)

/-- `sort_by` returns a permutation -/
theorem sortByIdx_perm (l : List (Nat × α)) : (sortByIdx l).Perm l := by
  induction l with
  | nil => exact List.Perm.refl _
  | cons x xs ih => exact (insertByIdx_perm x _).trans (List.Perm.cons x ih)

theorem insertByIdx_sorted (x : Nat × α) (l : List (Nat × α)) (h : l.Pairwise fun a b => a.1 ≤ b.1) :
    (insertByIdx x l).Pairwise fun a b => a.1 ≤ b.1 := by
  induction l with
  | nil => simp [insertByIdx]
  | cons y ys ih =>
    simp only [insertByIdx]
    rw [List.pairwise_cons] at h
    split
    · rename_i hxy
      refine List.pairwise_cons.2 ⟨?_, List.pairwise_cons.2 h⟩
      intro b hb
      rcases List.mem_cons.1 hb with rfl | hb
      · exact hxy
      · exact Nat.le_trans hxy (h.1 b hb)
    · rename_i hxy
      refine List.pairwise_cons.2 ⟨?_, ih h.2⟩
      intro b hb
      rcases List.mem_cons.1 ((insertByIdx_perm x ys).mem_iff.1 hb) with rfl | hb
      · exact Nat.le_of_lt (Nat.lt_of_not_le hxy)
      · exact h.1 b hb

/-- … that is ascending in the index -/
theorem sortByIdx_sorted (l : List (Nat × α)) : (sortByIdx l).Pairwise fun a b => a.1 ≤ b.1 := by
  induction l with
  | nil => exact List.Pairwise.nil
  | cons x xs ih => exact insertByIdx_sorted x _ ih

theorem enumerateFrom_map_snd (i : Nat) (l : List α) : (enumerateFrom i l).map (·.2) = l := by
  induction l generalizing i with
  | nil => rfl
  | cons a l ih => simp [enumerateFrom, ih]

theorem enumerateFrom_map_fst (i : Nat) (l : List α) : (enumerateFrom i l).map (·.1) = (List.range l.length).map (· + i) := by
  induction l generalizing i with
  | nil => rfl
  | cons a l ih =>
    rw [enumerateFrom, List.map_cons, ih, List.length_cons, List.range_succ_eq_map, List.map_cons, List.map_map]
    congr 1
    · simp
    · apply List.map_congr_left
      intro j _
      simp only [Function.comp]
      omega

/-- the elements of `enumerate l` are the elements of `l` … -/
theorem enumerate_map_snd (l : List α) : (enumerate l).map (·.2) = l := enumerateFrom_map_snd 0 l

/-- … with the indices `0, 1, …` -/
theorem enumerate_map_fst (l : List α) : (enumerate l).map (·.1) = List.range l.length := by
  have := enumerateFrom_map_fst 0 l
  simpa [enumerate] using this

@[simp] theorem enumerate_length (l : List α) : (enumerate l).length = l.length := by
  have := congrArg List.length (enumerate_map_snd l)
  simpa using this

end ApiM

/-! ## the `pop` loops, read from the end -/

/-- `get` for every (index, key), in list order; the answers with their indices -/
def getSeq (ops : KtOps σ) : List (Nat × List Nat) → ApiM σ (List (Nat × Option (List Nat)))
  | [] => pure []
  | ik :: rest => do
    let v ← apiGet ops ik.2
    let rs ← getSeq ops rest
    pure ((ik.1, v) :: rs)

/-- `delete` for every (index, key), in list order -/
def delSeq (ops : KtOps σ) : List (Nat × List Nat) → ApiM σ (List (Nat × Option (List Nat)))
  | [] => pure []
  | ik :: rest => do
    let v ← apiDelete ops ik.2
    let rs ← delSeq ops rest
    pure ((ik.1, v) :: rs)

/-- `put` for every (key, value), in list order -/
def putSeq (ops : KtOps σ) : List (List Nat × List Nat) → ApiM σ Unit
  | [] => pure ()
  | kv :: rest => do
    apiPut ops kv.1 kv.2
    putSeq ops rest

theorem apiBulkGetLoop_eq (ops : KtOps σ) :
    ∀ (rev : List (Nat × List Nat)) (fuel : Nat) (result : List (Nat × Option (List Nat))) (s : σ), rev.length < fuel →
      apiBulkGetLoop ops fuel result rev.reverse s =
        (getSeq ops rev s).map fun r => ((result ++ r.1, []), r.2) := by
  intro rev
  induction rev with
  | nil =>
    intro fuel result s h
    obtain ⟨f, rfl⟩ : ∃ f, fuel = f + 1 := ⟨fuel - 1, by omega⟩
    simp [apiBulkGetLoop, getSeq, pure]
  | cons ik rest ih =>
    intro fuel result s h
    obtain ⟨f, rfl⟩ : ∃ f, fuel = f + 1 := ⟨fuel - 1, by simp at h; omega⟩
    have hf : rest.length < f := by simp at h; omega
    simp only [apiBulkGetLoop, List.reverse_cons, ApiM.pop_concat, getSeq, bind]
    cases hg : apiGet ops ik.2 s with
    | none => rfl
    | some r =>
      obtain ⟨v, s'⟩ := r
      simp only [ih f (result ++ [(ik.1, v)]) s' hf]
      cases getSeq ops rest s' with
      | none => rfl
      | some q => simp [pure]

theorem apiBulkDeleteLoop_eq (ops : KtOps σ) :
    ∀ (rev : List (Nat × List Nat)) (fuel : Nat) (result : List (Nat × Option (List Nat))) (s : σ), rev.length < fuel →
      apiBulkDeleteLoop ops fuel result rev.reverse s =
        (delSeq ops rev s).map fun r => ((result ++ r.1, []), r.2) := by
  intro rev
  induction rev with
  | nil =>
    intro fuel result s h
    obtain ⟨f, rfl⟩ : ∃ f, fuel = f + 1 := ⟨fuel - 1, by omega⟩
    simp [apiBulkDeleteLoop, delSeq, pure]
  | cons ik rest ih =>
    intro fuel result s h
    obtain ⟨f, rfl⟩ : ∃ f, fuel = f + 1 := ⟨fuel - 1, by simp at h; omega⟩
    have hf : rest.length < f := by simp at h; omega
    simp only [apiBulkDeleteLoop, List.reverse_cons, ApiM.pop_concat, delSeq, bind]
    cases hg : apiDelete ops ik.2 s with
    | none => rfl
    | some r =>
      obtain ⟨v, s'⟩ := r
      simp only [ih f (result ++ [(ik.1, v)]) s' hf]
      cases delSeq ops rest s' with
      | none => rfl
      | some q => simp [pure]

theorem apiBulkPutLoop_eq (ops : KtOps σ) :
    ∀ (rev : List (List Nat × List Nat)) (fuel : Nat) (s : σ), rev.length < fuel →
      apiBulkPutLoop ops fuel rev.reverse s = (putSeq ops rev s).map fun r => ([], r.2) := by
  intro rev
  induction rev with
  | nil =>
    intro fuel s h
    obtain ⟨f, rfl⟩ : ∃ f, fuel = f + 1 := ⟨fuel - 1, by omega⟩
    simp [apiBulkPutLoop, putSeq, pure]
  | cons kv rest ih =>
    intro fuel s h
    obtain ⟨f, rfl⟩ : ∃ f, fuel = f + 1 := ⟨fuel - 1, by simp at h; omega⟩
    have hf : rest.length < f := by simp at h; omega
    simp only [apiBulkPutLoop, List.reverse_cons, ApiM.pop_concat, putSeq, bind]
    cases hg : apiPut ops kv.1 kv.2 s with
    | none => rfl
    | some r =>
      obtain ⟨u, s'⟩ := r
      simp only [ih f s' hf]

/-- **`bulk_get`, as generated: the `get`s in processing order (the sorted vector read from the end), the answers put
back by index** — the fuel has disappeared -/
theorem apiBulkGet_eq (ops : KtOps σ) (sortDesc : List (Nat × List Nat) → List (Nat × List Nat)) (ks : List (List Nat)) (s : σ) :
    apiBulkGet ops sortDesc ks s =
      (getSeq ops (sortDesc (ApiM.enumerate ks)).reverse s).map fun r => ((ApiM.sortByIdx r.1).map (·.2), r.2) := by
  have h := apiBulkGetLoop_eq ops (sortDesc (ApiM.enumerate ks)).reverse ((sortDesc (ApiM.enumerate ks)).length + 1) [] s
    (by simp)
  rw [List.reverse_reverse] at h
  simp only [apiBulkGet, bind, h]
  cases getSeq ops (sortDesc (ApiM.enumerate ks)).reverse s with
  | none => rfl
  | some r => simp [pure]

/-- **`bulk_delete`, as generated** -/
theorem apiBulkDelete_eq (ops : KtOps σ) (sortDesc : List (Nat × List Nat) → List (Nat × List Nat)) (ks : List (List Nat)) (s : σ) :
    apiBulkDelete ops sortDesc ks s =
      (delSeq ops (sortDesc (ApiM.enumerate ks)).reverse s).map fun r => ((ApiM.sortByIdx r.1).map (·.2), r.2) := by
  have h := apiBulkDeleteLoop_eq ops (sortDesc (ApiM.enumerate ks)).reverse ((sortDesc (ApiM.enumerate ks)).length + 1) [] s
    (by simp)
  rw [List.reverse_reverse] at h
  simp only [apiBulkDelete, bind, h]
  cases delSeq ops (sortDesc (ApiM.enumerate ks)).reverse s with
  | none => rfl
  | some r => simp [pure]

/-- **`bulk_put`, as generated: the `put`s in processing order** -/
theorem apiBulkPut_eq (ops : KtOps σ) (sortDescPairs : List (List Nat × List Nat) → List (List Nat × List Nat))
    (kvs : List (List Nat × List Nat)) (s : σ) :
    apiBulkPut ops sortDescPairs kvs s = putSeq ops (sortDescPairs kvs).reverse s := by
  have h := apiBulkPutLoop_eq ops (sortDescPairs kvs).reverse ((sortDescPairs kvs).length + 1) s (by simp)
  rw [List.reverse_reverse] at h
  simp only [apiBulkPut, bind, h]
  cases putSeq ops (sortDescPairs kvs).reverse s with
  | none => rfl
  | some r => simp [pure]

/-- **`put_from_iter`, as generated: the `put_kt`s in iteration order** -/
theorem apiPutFromIter_eq (ops : KtOps σ) (kvs : List (List Nat × List Nat)) (s : σ) :
    apiPutFromIter ops kvs s = apiPutFromIterLoop ops kvs s := by
  simp only [apiPutFromIter, bind]
  cases apiPutFromIterLoop ops kvs s with
  | none => rfl
  | some r => simp [pure]

end Abyss
