import Abyss.Gen.FileOps
import Abyss.Render
import Abyss.Lemmas.ParseRecBytes
/-!
# Byte-level allocator, part 1: the file monad and the small generated functions

Spec lemmas for the primitives of `Abyss.FileM` and for the field readers / writers generated
from `vfile.rs`, in terms of plain list operations on `FSt`.  Reads are stated with a hypothesis
`b.drop p = field ++ rest`; writes in terms of `wr bs s` (overwrite at the cursor), which composes
(`wr_wr`) and is computed on `A ++ old ++ B` by `wr_app`.
-/
namespace Abyss
open Vu64

namespace FileM

theorem bind_some {α β : Type} {m : M α} {f : α → M β} {s s' : FSt} {a : α}
    (h : m s = some (a, s')) : (m >>= f) s = f a s' := by
  show (match m s with | none => none | some (a, s') => f a s') = _
  rw [h]

theorem pure_apply {α : Type} (a : α) (s : FSt) : (pure a : M α) s = some (a, s) := rfl

theorem pure_bind_apply {α β : Type} (a : α) (k : α → M β) (s : FSt) : (pure a >>= k) s = k a s := rfl

theorem bind_assoc_apply {α β γ : Type} (m : M α) (g : α → M β) (k : β → M γ) (s : FSt) :
    ((m >>= g) >>= k) s = (m >>= fun a => g a >>= k) s := by
  show (match (match m s with | none => none | some (a, s') => g a s') with
        | none => none | some (b, s'') => k b s'') =
       (match m s with | none => none | some (a, s') => (g a >>= k) s')
  cases m s with
  | none => rfl
  | some p => rfl

/-- overwrite `bs` at the cursor and advance it -/
def wr (bs : List Nat) (s : FSt) : FSt :=
  ⟨s.bytes.take s.pos ++ bs ++ s.bytes.drop (s.pos + bs.length), s.pos + bs.length⟩

theorem writeBytes_eq (bs : List Nat) (s : FSt) (h : s.pos ≤ s.bytes.length) :
    writeBytes bs s = some ((), wr bs s) := by
  unfold writeBytes wr
  rw [if_pos h]

@[simp] theorem wr_pos (bs : List Nat) (s : FSt) : (wr bs s).pos = s.pos + bs.length := rfl

theorem wr_ok (bs : List Nat) (s : FSt) (h : s.pos ≤ s.bytes.length) :
    (wr bs s).pos ≤ (wr bs s).bytes.length := by
  unfold wr
  simp only [List.length_append, List.length_take, List.length_drop]
  omega

theorem wr_wr (a b : List Nat) (s : FSt) (h : s.pos ≤ s.bytes.length) :
    wr b (wr a s) = wr (a ++ b) s := by
  obtain ⟨bs, p⟩ := s
  simp only at h
  have h1 : (bs.take p ++ a).length = p + a.length := by
    simp only [List.length_append, List.length_take]; omega
  unfold wr
  simp only [List.length_append, FSt.mk.injEq]
  refine ⟨?_, by omega⟩
  rw [List.take_left' h1]
  have : (bs.take p ++ a ++ bs.drop (p + a.length)).drop (p + a.length + b.length) =
      bs.drop (p + (a.length + b.length)) := by
    rw [← List.drop_drop, List.drop_left' h1, List.drop_drop, Nat.add_assoc]
  rw [this]
  simp only [List.append_assoc]

theorem wr_app (X A old B : List Nat) (h : old.length = X.length) :
    wr X ⟨A ++ old ++ B, A.length⟩ = ⟨A ++ X ++ B, A.length + X.length⟩ := by
  unfold wr
  simp only [FSt.mk.injEq, and_true]
  have e : A ++ old ++ B = A ++ (old ++ B) := List.append_assoc _ _ _
  rw [e, List.take_left' rfl, ← List.drop_drop, List.drop_left' rfl, ← h,
    List.drop_left' rfl, List.append_assoc]

theorem wr_app' (X A old B b : List Nat) (p : Nat) (hb : b = A ++ old ++ B) (hp : p = A.length)
    (h : old.length = X.length) : wr X ⟨b, p⟩ = ⟨A ++ X ++ B, p + X.length⟩ := by
  subst hb hp
  exact wr_app X A old B h

end FileM

open FileM

/-! ## little helpers on lists -/

theorem drop_add_of_drop_eq {b X rest : List Nat} {p : Nat} (h : b.drop p = X ++ rest) :
    b.drop (p + X.length) = rest := by
  rw [← List.drop_drop, h, List.drop_left' rfl]

theorem drop_app_mid (A X B : List Nat) : (A ++ X ++ B).drop A.length = X ++ B := by
  rw [List.append_assoc, List.drop_left' rfl]

theorem lt_length_of_drop_eq {b X rest : List Nat} {p : Nat} (h : b.drop p = X ++ rest) :
    p + X.length + rest.length = b.length ∨ (X.length = 0 ∧ rest.length = 0) := by
  have := congrArg List.length h
  simp only [List.length_drop, List.length_append] at this
  omega

theorem encode_length_pos (v : Nat) : 1 ≤ (encode v).length := by
  rw [encode_length]; exact encodedLen_pos v

theorem encode_length_le5 (v : Nat) (h : v < 2^32) : (encode v).length ≤ 5 := by
  rw [encode_length]
  unfold encodedLen
  repeat' split
  all_goals omega

theorem encode_zero : encode 0 = [0] := by decide

theorem nine_zeros : [0] ++ le64 0 = zeros 9 := by decide

theorem zeros_add (a b : Nat) : zeros a ++ zeros b = zeros (a + b) :=
  List.replicate_append_replicate

/-! ## primitives -/

theorem seekFromStart_spec (off : Nat) (b : List Nat) (p : Nat) (h : off ≤ b.length) :
    Gen.seekFromStart off ⟨b, p⟩ = some (off, ⟨b, off⟩) := by
  unfold Gen.seekFromStart FileM.seek
  simp only [Nat.sub_eq_zero_of_le h, List.replicate_zero, List.append_nil]

theorem readVu64_spec {b rest : List Nat} {p v : Nat} (hd : b.drop p = encode v ++ rest)
    (hv : v < 2^64) : FileM.readVu64 ⟨b, p⟩ = some (v, ⟨b, p + (encode v).length⟩) := by
  unfold FileM.readVu64
  simp only [hd, decode_encode v hv rest]
  have h1 := lt_length_of_drop_eq hd
  have h2 := encode_length_pos v
  congr 3
  omega

theorem readVu64U32_spec {b rest : List Nat} {p v : Nat} (hd : b.drop p = encode v ++ rest)
    (hv : v < 2^32) : Gen.readVu64U32 ⟨b, p⟩ = some (v, ⟨b, p + (encode v).length⟩) := by
  unfold Gen.readVu64U32
  rw [bind_some (readVu64_spec hd (by omega)), pure_apply, Nat.mod_eq_of_lt hv]

theorem readPieceSize_spec {b rest : List Nat} {p v : Nat} (hd : b.drop p = encode v ++ rest)
    (hv : v < 2^32) : Gen.readPieceSize ⟨b, p⟩ = some (v * 8, ⟨b, p + (encode v).length⟩) := by
  unfold Gen.readPieceSize
  rw [bind_some (readVu64U32_spec hd hv), pure_apply]

theorem readKeyLen_spec {b rest : List Nat} {p v : Nat} (hd : b.drop p = encode v ++ rest)
    (hv : v < 2^32) : Gen.readKeyLen ⟨b, p⟩ = some (v, ⟨b, p + (encode v).length⟩) := by
  unfold Gen.readKeyLen
  exact readVu64U32_spec hd hv

theorem readKeyLen_zero_spec {b rest : List Nat} {p : Nat} (hd : b.drop p = [0] ++ rest) :
    Gen.readKeyLen ⟨b, p⟩ = some (0, ⟨b, p + 1⟩) := by
  have := readKeyLen_spec (v := 0) (rest := rest) (b := b) (p := p) (by rw [encode_zero]; exact hd)
    (by omega)
  rw [this, encode_zero]; rfl

theorem readU64Le_spec {b rest : List Nat} {p v : Nat} (hd : b.drop p = le64 v ++ rest)
    (hv : v < 2^64) : FileM.readU64Le ⟨b, p⟩ = some (v, ⟨b, p + 8⟩) := by
  have h1 := lt_length_of_drop_eq hd
  rw [le64_length] at h1
  unfold FileM.readU64Le
  have hr : FileM.readPad 8 ⟨b, p⟩ = some (le64 v, ⟨b, p + 8⟩) := by
    unfold FileM.readPad
    simp only
    rw [if_pos (by omega), hd, take8_le64, le64_length]
    simp
  rw [bind_some hr, pure_apply, ofLeBytes_le64 v hv]

theorem readFreePieceOffset_spec {b rest : List Nat} {p v : Nat} (hd : b.drop p = le64 v ++ rest)
    (hv : v < 2^64) : Gen.readFreePieceOffset ⟨b, p⟩ = some (v, ⟨b, p + 8⟩) := by
  unfold Gen.readFreePieceOffset
  exact readU64Le_spec hd hv

theorem writePieceSize_spec (sz : Nat) (s : FSt) (h : s.pos ≤ s.bytes.length) :
    Gen.writePieceSize sz s = some ((), wr (encode (sz / 8)) s) := by
  unfold Gen.writePieceSize Gen.writeVu64U32 FileM.writeVu64
  exact writeBytes_eq _ s h

theorem writeKeyLen_spec (n : Nat) (s : FSt) (h : s.pos ≤ s.bytes.length) :
    Gen.writeKeyLen n s = some ((), wr (encode n) s) := by
  unfold Gen.writeKeyLen Gen.writeVu64U32 FileM.writeVu64
  exact writeBytes_eq _ s h

theorem writeFreePieceOffset_spec (v : Nat) (s : FSt) (h : s.pos ≤ s.bytes.length) :
    Gen.writeFreePieceOffset v s = some ((), wr (le64 v) s) := by
  unfold Gen.writeFreePieceOffset FileM.writeU64Le
  exact writeBytes_eq _ s h

theorem writeZeroToOffset_spec (off : Nat) (s : FSt) (h : s.pos ≤ s.bytes.length)
    (hlt : s.pos < off) (h32 : off - s.pos < 2^32) :
    Gen.writeZeroToOffset off s = some ((), wr (zeros (off - s.pos)) s) := by
  unfold Gen.writeZeroToOffset
  have hp : Gen.seekPosition s = some (s.pos, s) := rfl
  rw [bind_some hp]
  simp only [gt_iff_lt, hlt, decide_true, if_true, Nat.mod_eq_of_lt h32]
  unfold FileM.writeZero
  exact writeBytes_eq _ s h

end Abyss
