import Abyss.Lemmas.RaBufInv
import Abyss.Lemmas.RaBufOpsAux
/-!
# `rabuf` model: seek, write, read against the flat-file view
-/
namespace Abyss.RaBuf

/-- the flat-file view of a buffered file: logical content and cursor -/
structure Flat where
  bytes : List Nat
  pos : Nat
  deriving DecidableEq, Repr

def abs (s : St) : Flat := ⟨s.logical, s.pos⟩

/-- `seek(Start p)`: beyond the end the file is extended with zeros at once; the configuration is
untouched -/
theorem seekStart_spec {s : St} (p : Nat) (h : Inv s) :
    Inv (seekStart s p) ∧ (seekStart s p).pos = p ∧
    (seekStart s p).logical = s.logical ++ zeros (p - s.end_) ∧
    (seekStart s p).cs = s.cs ∧ (seekStart s p).auto = s.auto ∧ (seekStart s p).max = s.max := by
  by_cases hp : p > s.end_
  · have hs : seekStart s p = { s with end_ := p, pos := p, disk := resize s.disk p } := by
      simp [seekStart, seekTo, hp, setLen]
    rw [hs]
    have hdl : s.disk.length ≤ p := Nat.le_trans h.dlen (Nat.le_of_lt hp)
    have hinv : Inv { s with end_ := p, pos := p, disk := resize s.disk p } := by
      refine ⟨h.cs_pos, ?_, h.nodup, h.cap, ?_, ?_, ?_, ?_, Nat.le_refl _⟩
      · intro c hc
        have := h.shape c hc
        exact ⟨this.1, this.2.1, by show c.off ≤ p; omega⟩
      · show (resize s.disk p).length ≤ p
        rw [resize_length _ _ hdl]; exact Nat.le_refl _
      · intro i h1 h2
        have h1' : (resize s.disk p).length ≤ i := h1
        have h2' : i < p := h2
        rw [resize_length _ _ hdl] at h1'
        omega
      · intro c hc hd i hi hlt
        have hlt' : c.off + i < p := hlt
        show c.off + i < (resize s.disk p).length ∧ c.data.getD i 0 = (resize s.disk p).getD (c.off + i) 0
        rw [resize_length _ _ hdl, resize_getD _ _ _ hdl]
        refine ⟨hlt', ?_⟩
        by_cases hb : c.off + i < s.end_
        · exact (h.clean c hc hd i hi hb).2
        · rw [h.ztail c hc i hi (by omega), getD_ge _ _ (by have := h.dlen; omega)]
      · intro c hc i hi hge
        have hge' : p ≤ c.off + i := hge
        exact h.ztail c hc i hi (by omega)
    refine ⟨hinv, rfl, ?_, rfl, rfl, rfl⟩
    have hb : ∀ i, St.byteAt { s with end_ := p, pos := p, disk := resize s.disk p } i = s.byteAt i :=
      fun i => byteAt_congr (s := s) (s' := { s with end_ := p, pos := p, disk := resize s.disk p })
        rfl rfl (fun j => resize_getD _ _ _ hdl) i
    apply ext_getD
    · simp [logical_length, zeros]; omega
    · intro i hi
      rw [logical_length] at hi
      have hi' : i < p := hi
      rw [logical_getD_lt _ hi, hb, getD_append', getD_zeros, logical_length]
      by_cases h1 : i < s.end_
      · rw [if_pos h1, logical_getD_lt _ h1]
      · rw [if_neg h1, byteAt_ge_end h (Nat.le_of_not_lt h1)]
  · have hs : seekStart s p = { s with pos := p } := by
      simp [seekStart, seekTo, hp]
    rw [hs]
    have hinv : Inv { s with pos := p } :=
      ⟨h.cs_pos, h.shape, h.nodup, h.cap, h.dlen, h.covered, h.clean, h.ztail, by show p ≤ s.end_; omega⟩
    refine ⟨hinv, rfl, ?_, rfl, rfl, rfl⟩
    have : p - s.end_ = 0 := by omega
    rw [this]
    simp [zeros, St.logical, St.byteAt, chunkStart]

theorem seekEnd0_spec {s : St} (h : Inv s) :
    Inv (seekEnd0 s) ∧ (seekEnd0 s).pos = s.end_ ∧ (seekEnd0 s).logical = s.logical ∧
    (seekEnd0 s).cs = s.cs ∧ (seekEnd0 s).auto = s.auto ∧ (seekEnd0 s).max = s.max := by
  have := seekStart_spec s.end_ h
  have he : seekEnd0 s = seekStart s s.end_ := rfl
  rw [he]
  refine ⟨this.1, this.2.1, ?_, this.2.2.2⟩
  rw [this.2.2.1]
  simp [zeros]

/-- one `write` call: the first `m ≥ 1` bytes (`m = bs.length` if they fit into the chunk) are
spliced in at the cursor -/
theorem write_spec (φ : Faults) {s : St} (k : Nat) (bs : List Nat) (h : Inv s) (hne : bs ≠ []) :
    match write φ s k bs with
    | .ok s' _ m => Inv s' ∧ 0 < m ∧ m ≤ bs.length ∧ s'.logical = splice s.logical s.pos (bs.take m) ∧
        s'.pos = s.pos + m ∧ s'.cs = s.cs ∧ s'.auto = s.auto ∧ (s.auto = none → s'.max = s.max)
    | .err s' _ => Inv s' ∧ Same s s'
    | .hang _ _ => True := by
  have hf := fetch_spec φ k s.pos h h.pos_le
  unfold write
  cases hfe : fetch φ s k s.pos with
  | hang s1 k1 => simp [Out.bind]
  | err s1 k1 => rw [hfe] at hf; simpa [Out.bind] using hf
  | ok s1 k1 c =>
    rw [hfe] at hf
    obtain ⟨hI1, hS, hc, hoff⟩ := hf
    have hcs := h.cs_pos
    have hcs1 : s1.cs = s.cs := hS.cs
    have hpos1 : s1.pos = s.pos := hS.pos
    have h1 : c.off ≤ s1.pos := by rw [hoff, hpos1]; exact chunkStart_le_o s s.pos
    have h2 : s1.pos < c.off + s1.cs := by
      rw [hoff, hpos1, hcs1]; exact lt_chunkStart_add_o s s.pos hcs
    have hbl : 0 < bs.length := List.length_pos_iff.mpr hne
    generalize hm : min bs.length (s1.cs - (s1.pos - c.off)) = m
    have hm1 : 0 < m := by omega
    have hm2 : m ≤ bs.length := by omega
    have hw : (bs.take m).length = m := by rw [List.length_take]; omega
    have hP := patched_spec hI1 hc h1 hw (by omega)
    show Inv (patched s1 c (bs.take (min bs.length (s1.cs - (s1.pos - c.off))))
        (min bs.length (s1.cs - (s1.pos - c.off)))) ∧ _
    rw [hm]
    refine ⟨hP.1, hm1, hm2, ?_, ?_, hcs1, hS.auto, hS.max_fixed⟩
    · exact hP.2.trans (by rw [hS.logical, hpos1])
    · show s1.pos + m = s.pos + m
      rw [hpos1]

/-- the post-condition of `write_all` as a predicate on the outcome -/
def WAPost (s : St) (bs : List Nat) : Out Unit → Prop
  | .ok s' _ _ => Inv s' ∧ s'.logical = splice s.logical s.pos bs ∧ s'.pos = s.pos + bs.length ∧
      s'.cs = s.cs ∧ s'.auto = s.auto ∧ (s.auto = none → s'.max = s.max)
  | .err s' _ => Inv s' ∧ ∃ j, j < bs.length ∧ s'.logical = splice s.logical s.pos (bs.take j) ∧
      s'.pos = s.pos + j ∧ s'.cs = s.cs ∧ s'.auto = s.auto ∧ (s.auto = none → s'.max = s.max)
  | .hang _ _ => True

theorem writeAllAux_spec (φ : Faults) : ∀ (fuel : Nat) (s : St) (k : Nat) (bs : List Nat), Inv s →
    bs.length ≤ fuel → WAPost s bs (writeAllAux φ fuel s k bs)
  | 0, s, k, bs, h, hl => by
    have : bs = [] := List.length_eq_zero_iff.mp (by omega)
    subst this
    simp [writeAllAux, WAPost, splice_nil, h]
  | fuel + 1, s, k, bs, h, hl => by
    unfold writeAllAux
    by_cases hb : bs = []
    · subst hb
      simp [WAPost, splice_nil, h]
    · simp only [List.isEmpty_iff, hb, if_false]
      have hw := write_spec φ k bs h hb
      have hple : s.pos ≤ s.logical.length := by rw [logical_length]; exact h.pos_le
      cases hwe : write φ s k bs with
      | hang s1 k1 => simp [Out.bind, WAPost]
      | err s1 k1 =>
        rw [hwe] at hw
        simp only [Out.bind, WAPost]
        exact ⟨hw.1, 0, List.length_pos_iff.mpr hb, by rw [hw.2.logical]; simp [splice_nil], hw.2.pos,
          hw.2.cs, hw.2.auto, hw.2.max_fixed⟩
      | ok s1 k1 m =>
        rw [hwe] at hw
        obtain ⟨hI1, hm1, hm2, hl1, hp1, hc1, ha1, hx1⟩ := hw
        have hm0 : m ≠ 0 := by omega
        simp only [Out.bind, hm0, if_false]
        have ih := writeAllAux_spec φ fuel s1 k1 (bs.drop m) hI1 (by rw [List.length_drop]; omega)
        have htl : (bs.take m).length = m := by rw [List.length_take]; omega
        cases hr : writeAllAux φ fuel s1 k1 (bs.drop m) with
        | hang s2 k2 => simp [WAPost]
        | ok s2 k2 u =>
          rw [hr] at ih
          simp only [WAPost] at ih ⊢
          obtain ⟨hI2, hl2, hp2, hc2, ha2, hx2⟩ := ih
          refine ⟨hI2, ?_, ?_, hc2.trans hc1, ha2.trans ha1, fun hn => (hx2 (ha1.trans hn)).trans (hx1 hn)⟩
          · have := splice_splice s.logical s.pos (bs.take m) (bs.drop m) hple
            rw [htl, List.take_append_drop] at this
            rw [hl2, hl1, hp1]; exact this
          · rw [hp2, hp1, List.length_drop]; omega
        | err s2 k2 =>
          rw [hr] at ih
          simp only [WAPost] at ih ⊢
          obtain ⟨hI2, j, hj, hl2, hp2, hc2, ha2, hx2⟩ := ih
          rw [List.length_drop] at hj
          refine ⟨hI2, m + j, by omega, ?_, by rw [hp2, hp1]; omega, hc2.trans hc1, ha2.trans ha1,
            fun hn => (hx2 (ha1.trans hn)).trans (hx1 hn)⟩
          have := splice_splice s.logical s.pos (bs.take m) ((bs.drop m).take j) hple
          rw [htl, ← List.take_add] at this
          rw [hl2, hl1, hp1]; exact this

/-- `write_all`: on `Ok` all of `bs` is spliced in at the cursor; on `Err` (an eviction's
write-back was refused) a proper prefix of `bs` is, and the state is still regular -/
theorem writeAll_spec (φ : Faults) {s : St} (k : Nat) (bs : List Nat) (h : Inv s) :
    match writeAll φ s k bs with
    | .ok s' _ _ => Inv s' ∧ s'.logical = splice s.logical s.pos bs ∧ s'.pos = s.pos + bs.length ∧
        s'.cs = s.cs ∧ s'.auto = s.auto ∧ (s.auto = none → s'.max = s.max)
    | .err s' _ => Inv s' ∧ ∃ j, j < bs.length ∧ s'.logical = splice s.logical s.pos (bs.take j) ∧
        s'.pos = s.pos + j ∧ s'.cs = s.cs ∧ s'.auto = s.auto ∧ (s.auto = none → s'.max = s.max)
    | .hang _ _ => True := by
  have := writeAllAux_spec φ bs.length s k bs h (Nat.le_refl _)
  unfold writeAll
  cases hr : writeAllAux φ bs.length s k bs <;> rw [hr] at this <;> exact this

/-- one `read` call below the logical end: at least one byte, exactly the logical bytes -/
theorem read_spec (φ : Faults) {s : St} (k n : Nat) (h : Inv s) (hn0 : 0 < n) (hn : s.pos + n ≤ s.end_) :
    match read φ s k n with
    | .ok s' _ bs => Inv s' ∧ 0 < bs.length ∧ bs.length ≤ n ∧
        bs = (s.logical.drop s.pos).take bs.length ∧ s'.logical = s.logical ∧
        s'.pos = s.pos + bs.length ∧ s'.end_ = s.end_ ∧ s'.cs = s.cs ∧ s'.auto = s.auto ∧
        (s.auto = none → s'.max = s.max)
    | .err s' _ => Inv s' ∧ Same s s'
    | .hang _ _ => True := by
  have hf := fetch_spec φ k s.pos h h.pos_le
  unfold read
  cases hfe : fetch φ s k s.pos with
  | hang s1 k1 => simp [Out.bind]
  | err s1 k1 => rw [hfe] at hf; simpa [Out.bind] using hf
  | ok s1 k1 c =>
    rw [hfe] at hf
    obtain ⟨hI1, hS, hc, hoff⟩ := hf
    have hcs := h.cs_pos
    have hcs1 : s1.cs = s.cs := hS.cs
    have hpos1 : s1.pos = s.pos := hS.pos
    have hend1 : s1.end_ = s.end_ := hS.end_
    have h1 : c.off ≤ s1.pos := by rw [hoff, hpos1]; exact chunkStart_le_o s s.pos
    have h2 : s1.pos < c.off + s1.cs := by
      rw [hoff, hpos1, hcs1]; exact lt_chunkStart_add_o s s.pos hcs
    have hclen : c.data.length = s1.cs := (hI1.shape c hc).2.1
    generalize hm : min n (s1.cs - (s1.pos - c.off)) = m
    have hm1 : 0 < m := by omega
    have hm2 : m ≤ n := by omega
    have hI2 : Inv { s1 with pos := s1.pos + m } :=
      ⟨hI1.cs_pos, hI1.shape, hI1.nodup, hI1.cap, hI1.dlen, hI1.covered, hI1.clean, hI1.ztail,
        by show s1.pos + m ≤ s1.end_; omega⟩
    have hlen : ((c.data.drop (s1.pos - c.off)).take m).length = m := by
      rw [List.length_take, List.length_drop]; omega
    have hbytes : (c.data.drop (s1.pos - c.off)).take m = (s.logical.drop s.pos).take m := by
      apply ext_getD
      · rw [hlen, List.length_take, List.length_drop, logical_length]; omega
      · intro i hi
        rw [hlen] at hi
        rw [getD_take', getD_take', getD_drop', getD_drop', if_pos hi, if_pos hi, ← hS.logical,
          logical_getD hI1, ← hpos1, byteAt_resident hI1 hc (by omega) (by omega)]
        congr 1; omega
    show Inv { s1 with pos := s1.pos + min n (s1.cs - (s1.pos - c.off)) } ∧
      0 < ((c.data.drop (s1.pos - c.off)).take (min n (s1.cs - (s1.pos - c.off)))).length ∧ _
    rw [hm, hlen]
    refine ⟨hI2, hm1, hm2, hbytes, ?_, ?_, hend1, hcs1, hS.auto, hS.max_fixed⟩
    · exact Eq.trans rfl hS.logical
    · show s1.pos + m = s.pos + m
      rw [hpos1]

/-- the post-condition of the `read_exact` loop as a predicate on the outcome -/
def REPost (s : St) (n : Nat) (acc : List Nat) : Out (List Nat) → Prop
  | .ok s' _ bs => Inv s' ∧ bs = acc ++ (s.logical.drop s.pos).take n ∧ s'.logical = s.logical ∧
      s'.pos = s.pos + n ∧ s'.end_ = s.end_ ∧ s'.cs = s.cs ∧ s'.auto = s.auto ∧ (s.auto = none → s'.max = s.max)
  | .err s' _ => Inv s' ∧ s'.logical = s.logical ∧ s'.end_ = s.end_ ∧ s'.cs = s.cs ∧ s'.auto = s.auto ∧
      (s.auto = none → s'.max = s.max)
  | .hang _ _ => True

theorem readExactAux_spec (φ : Faults) : ∀ (fuel : Nat) (s : St) (k n : Nat) (acc : List Nat), Inv s →
    s.pos + n ≤ s.end_ → n ≤ fuel → REPost s n acc (readExactAux φ fuel s k n acc)
  | 0, s, k, n, acc, h, hn, hl => by
    have : n = 0 := by omega
    subst this
    simp [readExactAux, REPost, h]
  | fuel + 1, s, k, n, acc, h, hn, hl => by
    unfold readExactAux
    by_cases hn0 : n = 0
    · subst hn0
      simp [REPost, h]
    · simp only [hn0, if_false]
      have hr := read_spec φ k n h (by omega) hn
      cases hre : read φ s k n with
      | hang s1 k1 => simp [Out.bind, REPost]
      | err s1 k1 =>
        rw [hre] at hr
        simp only [Out.bind, REPost]
        exact ⟨hr.1, hr.2.logical, hr.2.end_, hr.2.cs, hr.2.auto, hr.2.max_fixed⟩
      | ok s1 k1 bs =>
        rw [hre] at hr
        obtain ⟨hI1, hb1, hb2, hbs, hl1, hp1, he1, hc1, ha1, hx1⟩ := hr
        have hne : bs ≠ [] := List.length_pos_iff.mp hb1
        simp only [Out.bind, List.isEmpty_iff, hne, if_false]
        have ih := readExactAux_spec φ fuel s1 k1 (n - bs.length) (acc ++ bs) hI1 (by omega) (by omega)
        cases hr2 : readExactAux φ fuel s1 k1 (n - bs.length) (acc ++ bs) with
        | hang s2 k2 => simp [REPost]
        | err s2 k2 =>
          rw [hr2] at ih
          simp only [REPost] at ih ⊢
          obtain ⟨hI2, hl2, he2, hc2, ha2, hx2⟩ := ih
          exact ⟨hI2, hl2.trans hl1, he2.trans he1, hc2.trans hc1, ha2.trans ha1,
            fun hn => (hx2 (ha1.trans hn)).trans (hx1 hn)⟩
        | ok s2 k2 out =>
          rw [hr2] at ih
          simp only [REPost] at ih ⊢
          obtain ⟨hI2, ho2, hl2, hp2, he2, hc2, ha2, hx2⟩ := ih
          refine ⟨hI2, ?_, hl2.trans hl1, by rw [hp2, hp1]; omega, he2.trans he1, hc2.trans hc1,
            ha2.trans ha1, fun hn => (hx2 (ha1.trans hn)).trans (hx1 hn)⟩
          have key : bs ++ (s.logical.drop (s.pos + bs.length)).take (n - bs.length) =
              (s.logical.drop s.pos).take n := by
            have e1 : (s.logical.drop s.pos).take n = (s.logical.drop s.pos).take bs.length ++
                ((s.logical.drop s.pos).drop bs.length).take (n - bs.length) := by
              rw [← List.take_add]; congr 1; omega
            rw [e1, List.drop_drop, ← hbs]
          rw [ho2, hl1, hp1, List.append_assoc, key]

/-- `read_exact` of bytes below the logical end returns exactly the logical bytes and changes
nothing but the cursor -/
theorem readExact_spec (φ : Faults) {s : St} (k n : Nat) (h : Inv s) (hn : s.pos + n ≤ s.end_) :
    match readExact φ s k n with
    | .ok s' _ bs => Inv s' ∧ bs = (s.logical.drop s.pos).take n ∧ s'.logical = s.logical ∧
        s'.pos = s.pos + n ∧ s'.end_ = s.end_ ∧ s'.cs = s.cs ∧ s'.auto = s.auto ∧ (s.auto = none → s'.max = s.max)
    | .err s' _ => Inv s' ∧ s'.logical = s.logical ∧ s'.end_ = s.end_ ∧ s'.cs = s.cs ∧ s'.auto = s.auto ∧
        (s.auto = none → s'.max = s.max)
    | .hang _ _ => True := by
  have := readExactAux_spec φ n s k n [] h hn (Nat.le_refl _)
  unfold readExact
  cases hr : readExactAux φ n s k n [] <;> rw [hr] at this
  · simpa only [REPost, List.nil_append] using this
  · exact this
  · exact this

theorem write_hang {φ : Faults} {s : St} {k : Nat} {bs : List Nat} {s' : St} {k' : Nat}
    (hw : write φ s k bs = .hang s' k') : fetch φ s k s.pos = .hang s' k' := by
  unfold write at hw
  cases hf : fetch φ s k s.pos <;> rw [hf] at hw <;> simp [Out.bind] at hw
  simp [hw]

theorem read_hang {φ : Faults} {s : St} {k n : Nat} {s' : St} {k' : Nat}
    (hw : read φ s k n = .hang s' k') : fetch φ s k s.pos = .hang s' k' := by
  unfold read at hw
  cases hf : fetch φ s k s.pos <;> rw [hf] at hw <;> simp [Out.bind] at hw
  simp [hw]

theorem write_noFaults_ok {s : St} (k : Nat) (bs : List Nat) (h : Inv s) (hc : NoHangCfg s) :
    ∃ s' k' m, write noFaults s k bs = .ok s' k' m := by
  obtain ⟨s1, k1, c, hf⟩ := fetch_ok k s.pos h hc h.pos_le
  unfold write
  rw [hf]
  exact ⟨_, _, _, rfl⟩

theorem read_noFaults_ok {s : St} (k n : Nat) (h : Inv s) (hc : NoHangCfg s) :
    ∃ s' k' bs, read noFaults s k n = .ok s' k' bs := by
  obtain ⟨s1, k1, c, hf⟩ := fetch_ok k s.pos h hc h.pos_le
  unfold read
  rw [hf]
  exact ⟨_, _, _, rfl⟩

theorem writeAllAux_returns (φ : Faults) : ∀ (fuel : Nat) (s : St) (k : Nat) (bs : List Nat), Inv s →
    NoHangCfg s → ∀ s' k', writeAllAux φ fuel s k bs ≠ .hang s' k'
  | 0, s, k, bs, _, _ => by simp [writeAllAux]
  | fuel + 1, s, k, bs, h, hc => by
    intro s' k'
    unfold writeAllAux
    by_cases hb : bs = []
    · subst hb; simp
    · simp only [List.isEmpty_iff, hb, if_false]
      have hw := write_spec φ k bs h hb
      cases hwe : write φ s k bs with
      | hang s1 k1 => exact absurd (write_hang hwe) (fetch_returns φ k s.pos h hc h.pos_le s1 k1)
      | err s1 k1 => simp [Out.bind]
      | ok s1 k1 m =>
        rw [hwe] at hw
        obtain ⟨hI1, _, _, _, _, hc1, ha1, hx1⟩ := hw
        simp only [Out.bind]
        by_cases hm0 : m = 0
        · simp [hm0]
        · simp only [hm0, if_false]
          exact writeAllAux_returns φ fuel s1 k1 _ hI1 (hc.transfer hc1 ha1 hx1) s' k'

theorem writeAllAux_ok : ∀ (fuel : Nat) (s : St) (k : Nat) (bs : List Nat), Inv s →
    NoHangCfg s → ∃ s' k', writeAllAux noFaults fuel s k bs = .ok s' k' ()
  | 0, s, k, bs, _, _ => ⟨s, k, rfl⟩
  | fuel + 1, s, k, bs, h, hc => by
    unfold writeAllAux
    by_cases hb : bs = []
    · subst hb; exact ⟨s, k, rfl⟩
    · simp only [List.isEmpty_iff, hb, if_false]
      have hw := write_spec noFaults k bs h hb
      obtain ⟨s1, k1, m, hwe⟩ := write_noFaults_ok k bs h hc
      rw [hwe] at hw
      obtain ⟨hI1, hm1, _, _, _, hc1, ha1, hx1⟩ := hw
      have hm0 : m ≠ 0 := by omega
      rw [hwe]
      simp only [Out.bind, hm0, if_false]
      exact writeAllAux_ok fuel s1 k1 _ hI1 (hc.transfer hc1 ha1 hx1)

theorem readExactAux_returns (φ : Faults) : ∀ (fuel : Nat) (s : St) (k n : Nat) (acc : List Nat), Inv s →
    NoHangCfg s → s.pos + n ≤ s.end_ → ∀ s' k', readExactAux φ fuel s k n acc ≠ .hang s' k'
  | 0, s, k, n, acc, _, _, _ => by simp [readExactAux]
  | fuel + 1, s, k, n, acc, h, hc, hn => by
    intro s' k'
    unfold readExactAux
    by_cases hn0 : n = 0
    · simp [hn0]
    · simp only [hn0, if_false]
      have hr := read_spec φ k n h (by omega) hn
      cases hre : read φ s k n with
      | hang s1 k1 => exact absurd (read_hang hre) (fetch_returns φ k s.pos h hc h.pos_le s1 k1)
      | err s1 k1 => simp [Out.bind]
      | ok s1 k1 bs =>
        rw [hre] at hr
        obtain ⟨hI1, _, hb2, _, _, hp1, he1, hc1, ha1, hx1⟩ := hr
        simp only [Out.bind]
        by_cases hb : bs.isEmpty
        · simp [hb]
        · simp only [hb]
          exact readExactAux_returns φ fuel s1 k1 _ _ hI1 (hc.transfer hc1 ha1 hx1) (by omega) s' k'

theorem readExactAux_ok : ∀ (fuel : Nat) (s : St) (k n : Nat) (acc : List Nat), Inv s →
    NoHangCfg s → s.pos + n ≤ s.end_ → ∃ s' k' bs, readExactAux noFaults fuel s k n acc = .ok s' k' bs
  | 0, s, k, n, acc, _, _, _ => ⟨s, k, acc, rfl⟩
  | fuel + 1, s, k, n, acc, h, hc, hn => by
    unfold readExactAux
    by_cases hn0 : n = 0
    · exact ⟨s, k, acc, by simp [hn0]⟩
    · simp only [hn0, if_false]
      have hr := read_spec noFaults k n h (by omega) hn
      obtain ⟨s1, k1, bs, hre⟩ := read_noFaults_ok k n h hc
      rw [hre] at hr
      obtain ⟨hI1, hb1, hb2, _, _, hp1, he1, hc1, ha1, hx1⟩ := hr
      have hne : bs ≠ [] := List.length_pos_iff.mp hb1
      rw [hre]
      simp only [Out.bind, List.isEmpty_iff, hne, if_false]
      exact readExactAux_ok fuel s1 k1 _ _ hI1 (hc.transfer hc1 ha1 hx1) (by omega)

/-- in the `NoHangCfg` configurations, without refused writes, both always return `Ok` -/
theorem writeAll_ok {s : St} (k : Nat) (bs : List Nat) (h : Inv s) (hc : NoHangCfg s) :
    ∃ s' k', writeAll noFaults s k bs = .ok s' k' () :=
  writeAllAux_ok bs.length s k bs h hc

theorem readExact_ok {s : St} (k n : Nat) (h : Inv s) (hc : NoHangCfg s) (hn : s.pos + n ≤ s.end_) :
    ∃ s' k' bs, readExact noFaults s k n = .ok s' k' bs :=
  readExactAux_ok n s k n [] h hc hn

/-- whatever the fault schedule, neither hangs in those configurations -/
theorem writeAll_returns (φ : Faults) {s : St} (k : Nat) (bs : List Nat) (h : Inv s) (hc : NoHangCfg s) :
    ∀ s' k', writeAll φ s k bs ≠ .hang s' k' :=
  writeAllAux_returns φ bs.length s k bs h hc

theorem readExact_returns (φ : Faults) {s : St} (k n : Nat) (h : Inv s) (hc : NoHangCfg s)
    (hn : s.pos + n ≤ s.end_) : ∀ s' k', readExact φ s k n ≠ .hang s' k' :=
  readExactAux_returns φ n s k n [] h hc hn

end Abyss.RaBuf
